#!/bin/sh
# Build the framework offline from files on disk only.
export CARGO_NET_OFFLINE=true
export CARGO_TARGET_DIR=/verif/target
mkdir -p /verif/target /verif/evidence /verif/replays
cd /verif/harness && cargo build --offline 2>&1 | tail -5
test -x /verif/target/debug/vcheck
