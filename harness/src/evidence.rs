//! Evidence files, violation/replay artefacts and known findings.
//!
//! Every check builds a `Report`; `Report::finish` rewrites
//! /verif/evidence/<id>.json, writes replays, prints VIOLATION /
//! KNOWN-FINDING lines and computes the exit code.

use {
  serde_json::{Value, json},
  std::{
    collections::BTreeMap,
    fs,
    path::PathBuf,
    time::Instant,
  },
};

pub const VERIF: &str = "/verif";

#[derive(Clone, Debug)]
pub struct Violation {
  /// violation class: oracle clause plus structural features; used to match
  /// known findings. Never contains hashes of whole histories.
  pub class: String,
  /// human readable: what fails
  pub what: String,
  /// replayable artefact (engine specific JSON)
  pub replay: Value,
}

pub struct Report {
  pub property: String,
  pub tier: String,
  pub seed: i64,
  pub level: &'static str,
  pub start: Instant,
  pub coverage: BTreeMap<String, Value>,
  pub assumptions: Vec<String>,
  pub violations: Vec<Violation>,
  pub samples: Vec<Value>,
}

impl Report {
  pub fn new(property: &str, tier: &str, level: &'static str) -> Self {
    let seed = std::env::var("VERIF_SEED")
      .ok()
      .and_then(|s| s.parse().ok())
      .unwrap_or(0);
    Self {
      property: property.into(),
      tier: tier.into(),
      seed,
      level,
      start: Instant::now(),
      coverage: BTreeMap::new(),
      assumptions: Vec::new(),
      violations: Vec::new(),
      samples: Vec::new(),
    }
  }

  pub fn set(&mut self, key: &str, value: impl Into<Value>) {
    self.coverage.insert(key.into(), value.into());
  }

  pub fn add(&mut self, key: &str, n: u64) {
    let cur = self
      .coverage
      .get(key)
      .and_then(|v| v.as_u64())
      .unwrap_or(0);
    self.coverage.insert(key.into(), json!(cur + n));
  }

  pub fn get(&self, key: &str) -> u64 {
    self
      .coverage
      .get(key)
      .and_then(|v| v.as_u64())
      .unwrap_or(0)
  }

  pub fn assume(&mut self, s: &str) {
    if !self.assumptions.iter().any(|a| a == s) {
      self.assumptions.push(s.into());
    }
  }

  pub fn sample(&mut self, v: Value) {
    if self.samples.len() < 12 {
      self.samples.push(v);
    }
  }

  pub fn violation(&mut self, class: impl Into<String>, what: impl Into<String>, replay: Value) {
    self.violations.push(Violation {
      class: class.into(),
      what: what.into(),
      replay,
    });
  }

  /// Writes the evidence file and prints verdict lines. Returns the exit code.
  pub fn finish(mut self) -> i32 {
    let known = load_known_findings();
    let mut unknown = Vec::new();
    let mut known_hit: BTreeMap<String, (String, usize)> = BTreeMap::new();

    for v in &self.violations {
      let hit = known.iter().find(|k| {
        k.property == self.property && k.status == "open" && class_matches(&k.class, &v.class)
      });
      match hit {
        Some(k) => {
          let e = known_hit
            .entry(k.class.clone())
            .or_insert((k.what.clone(), 0));
          e.1 += 1;
        }
        None => unknown.push(v.clone()),
      }
    }

    for (class, (what, n)) in &known_hit {
      println!(
        "KNOWN-FINDING: property={} {} [class {}; {} occurrence(s) in this run]",
        self.property, what, class, n
      );
    }

    // failures of the machinery itself (a scenario that could not be set up, a harness panic)
    // are never verdicts about ord: they end the run with exit 2 and a MACHINERY line
    let (machinery, unknown): (Vec<Violation>, Vec<Violation>) = unknown.into_iter().partition(|v| v.class.contains("machinery"));
    let mut machinery_classes: BTreeMap<String, String> = BTreeMap::new();
    for v in &machinery {
      machinery_classes.entry(v.class.clone()).or_insert(v.what.clone());
    }
    for (class, what) in &machinery_classes {
      println!("MACHINERY: {class}: {what}");
    }

    // deduplicate unknown violations by class, keep the first (smallest) of each
    let mut by_class: BTreeMap<String, Violation> = BTreeMap::new();
    for v in unknown {
      by_class.entry(v.class.clone()).or_insert(v);
    }

    let replay_dir = PathBuf::from(VERIF).join("replays").join(&self.property);
    let mut exit = if machinery_classes.is_empty() { 0 } else { 2 };
    for (i, (class, v)) in by_class.iter().enumerate() {
      exit = 1;
      let _ = fs::create_dir_all(&replay_dir);
      let name = format!(
        "{}-{}.json",
        sanitize(class),
        crate::util::sha256_hex(v.replay.to_string().as_bytes())
          .chars()
          .take(12)
          .collect::<String>()
      );
      let path = replay_dir.join(name);
      let body = json!({
        "property": self.property,
        "class": class,
        "what": v.what,
        "replay": v.replay,
      });
      let _ = fs::write(&path, serde_json::to_string_pretty(&body).unwrap());
      println!("VIOLATION property={} replay={}", self.property, path.display());
      if i < 5 {
        println!("  class: {class}");
        println!("  what:  {}", v.what);
      }
    }

    self.coverage.insert(
      "samples".into(),
      Value::Array(if self.samples.is_empty() {
        vec![json!("(no samples recorded)")]
      } else {
        self.samples.clone()
      }),
    );
    self.coverage.insert(
      "known_findings_observed".into(),
      json!(
        known_hit
          .iter()
          .map(|(c, (_, n))| json!({"class": c, "occurrences": n}))
          .collect::<Vec<_>>()
      ),
    );

    let evidence = json!({
      "property_id": self.property,
      "tier": self.tier,
      "seed": self.seed,
      "level": self.level,
      "coverage": self.coverage,
      "assumptions": self.assumptions,
      "wall_s": self.start.elapsed().as_secs_f64(),
      "violations": by_class.len(),
    });

    let dir = PathBuf::from(VERIF).join("evidence");
    let _ = fs::create_dir_all(&dir);
    let path = dir.join(format!("{}.json", self.property));
    if let Err(e) = fs::write(&path, serde_json::to_string_pretty(&evidence).unwrap()) {
      println!("MACHINERY: cannot write evidence {}: {e}", path.display());
      return 2;
    }

    println!(
      "{} property={} tier={} wall={:.1}s evidence={}",
      match exit {
        0 => "OK",
        2 => "BROKEN (machinery failure, no verdict)",
        _ => "FAIL",
      },
      self.property,
      self.tier,
      self.start.elapsed().as_secs_f64(),
      path.display()
    );
    exit
  }
}

fn sanitize(s: &str) -> String {
  s.chars()
    .map(|c| if c.is_ascii_alphanumeric() || c == '-' { c } else { '_' })
    .take(80)
    .collect()
}

pub struct Known {
  pub property: String,
  pub class: String,
  pub what: String,
  pub status: String,
}

/// `pattern` matches `class` if equal, or if pattern ends with `*` and is a prefix.
fn class_matches(pattern: &str, class: &str) -> bool {
  if let Some(prefix) = pattern.strip_suffix('*') {
    class.starts_with(prefix)
  } else {
    pattern == class
  }
}

pub fn load_known_findings() -> Vec<Known> {
  let path = PathBuf::from(VERIF).join("known_findings.json");
  let Ok(text) = fs::read_to_string(&path) else {
    return Vec::new();
  };
  let Ok(v) = serde_json::from_str::<Value>(&text) else {
    println!("MACHINERY: known_findings.json does not parse; ignoring it");
    return Vec::new();
  };
  let mut out = Vec::new();
  for f in v["findings"].as_array().cloned().unwrap_or_default() {
    out.push(Known {
      property: f["property"].as_str().unwrap_or("").into(),
      class: f["class"].as_str().unwrap_or("").into(),
      what: f["what"].as_str().unwrap_or("").into(),
      status: f["status"].as_str().unwrap_or("open").into(),
    });
  }
  out
}
