//! Deterministic node simulator on top of mockcore's state.
//!
//! The harness builds every block itself (coinbase included) and writes it into
//! mockcore's public state; block hashes and txids are a pure function of the
//! history, so replays are byte-identical.

use {
  bitcoin::{
    Amount, Block, BlockHash, Network, OutPoint, Transaction, TxMerkleNode,
    block::{Header, Version},
    hashes::Hash,
    pow::CompactTarget,
  },
  std::collections::BTreeMap,
};

pub struct World {
  pub core: mockcore::Handle,
  pub network: Network,
  /// blocks[h] = block at height h (blocks[0] = genesis)
  pub blocks: Vec<Block>,
  /// salt mixed into headers of newly pushed blocks (distinguishes branches)
  pub salt: u32,
}

impl World {
  pub fn new(network: Network) -> Self {
    let core = mockcore::builder().network(network).build();
    let genesis = bitcoin::blockdata::constants::genesis_block(network);
    Self {
      core,
      network,
      blocks: vec![genesis],
      salt: 0,
    }
  }

  pub fn url(&self) -> String {
    self.core.url()
  }

  /// Back to genesis only.
  pub fn reset(&mut self) {
    self.core.clear_state();
    self.blocks.truncate(1);
    self.salt = 0;
  }

  /// Height of the tip.
  pub fn height(&self) -> u32 {
    (self.blocks.len() - 1) as u32
  }

  pub fn tip_hash(&self) -> BlockHash {
    self.blocks.last().unwrap().block_hash()
  }

  /// Appends a block made of `txdata` (first must be the coinbase).
  pub fn push_block(&mut self, txdata: Vec<Transaction>) -> BlockHash {
    let height = self.blocks.len() as u32;
    let mut block = Block {
      header: Header {
        version: Version::ONE,
        prev_blockhash: self.tip_hash(),
        merkle_root: TxMerkleNode::all_zeros(),
        time: height,
        bits: CompactTarget::from_consensus(0),
        nonce: self.salt,
      },
      txdata,
    };
    block.header.merkle_root = block
      .compute_merkle_root()
      .unwrap_or(TxMerkleNode::all_zeros());
    let hash = block.block_hash();
    {
      let mut state = self.core.state();
      for tx in &block.txdata {
        let txid = tx.compute_txid();
        state.transactions.insert(txid, tx.clone());
        state.txid_to_block_height.insert(txid, height);
        for input in &tx.input {
          if !input.previous_output.is_null() {
            state.utxos.remove(&input.previous_output);
          }
        }
        for (vout, out) in tx.output.iter().enumerate() {
          if !out.script_pubkey.is_op_return() {
            state.utxos.insert(
              OutPoint {
                txid,
                vout: vout as u32,
              },
              out.value,
            );
          }
        }
      }
      state.blocks.insert(hash, block.clone());
      state.hashes.push(hash);
    }
    self.blocks.push(block);
    hash
  }

  /// Removes the tip block (a reorg step). The node forgets the block's
  /// transactions, like a node without txindex.
  pub fn pop_block(&mut self) -> Block {
    assert!(self.blocks.len() > 1, "cannot pop genesis");
    let block = self.blocks.pop().unwrap();
    self.rebuild();
    block
  }

  /// Rewrites mockcore's chain state from `self.blocks`.
  pub fn rebuild(&mut self) {
    let mut state = self.core.state();
    state.blocks.clear();
    state.hashes.clear();
    state.transactions.clear();
    state.txid_to_block_height.clear();
    state.utxos.clear();
    state.mempool.clear();
    let mut utxos: BTreeMap<OutPoint, Amount> = BTreeMap::new();
    for (height, block) in self.blocks.iter().enumerate() {
      let hash = block.block_hash();
      state.blocks.insert(hash, block.clone());
      state.hashes.push(hash);
      for tx in &block.txdata {
        let txid = tx.compute_txid();
        state.transactions.insert(txid, tx.clone());
        state
          .txid_to_block_height
          .insert(txid, height.try_into().unwrap());
        for input in &tx.input {
          if !input.previous_output.is_null() {
            utxos.remove(&input.previous_output);
          }
        }
        for (vout, out) in tx.output.iter().enumerate() {
          if !out.script_pubkey.is_op_return() {
            utxos.insert(
              OutPoint {
                txid,
                vout: vout as u32,
              },
              out.value,
            );
          }
        }
      }
    }
    state.utxos = utxos;
  }
}
