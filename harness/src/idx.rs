//! Opening a real `ord::Index` against the node simulator, and decoding the
//! raw dump of its tables (hook `ord::index::verif::dump`).

use {
  crate::world::World,
  bitcoin::{OutPoint, consensus::Decodable},
  clap::Parser,
  ord::{Index, options::Options, settings::Settings},
  std::{
    collections::BTreeMap,
    path::{Path, PathBuf},
  },
};

#[derive(Clone, Debug, PartialEq, Eq, Hash)]
pub struct IndexCfg {
  pub chain: &'static str,
  pub sats: bool,
  pub addresses: bool,
  pub transactions: bool,
  pub runes: bool,
  pub inscriptions: bool,
  pub commit_interval: Option<usize>,
  pub savepoint_interval: Option<usize>,
  pub max_savepoints: Option<usize>,
  pub integration_test: bool,
  /// override of the first inscription height (thread-local knob hook); forces the node-fetch path
  pub first_inscription_height: Option<u32>,
}

impl IndexCfg {
  pub fn all() -> Self {
    Self {
      chain: "regtest",
      sats: true,
      addresses: true,
      transactions: true,
      runes: true,
      inscriptions: true,
      commit_interval: None,
      savepoint_interval: None,
      max_savepoints: None,
      integration_test: false,
      first_inscription_height: None,
    }
  }

  pub fn label(&self) -> String {
    format!(
      "{}{}{}{}{}{}{}",
      self.chain,
      if self.sats { "+sats" } else { "" },
      if self.addresses { "+addr" } else { "" },
      if self.transactions { "+tx" } else { "" },
      if self.runes { "+runes" } else { "" },
      if self.inscriptions { "" } else { "-insc" },
      match self.commit_interval {
        Some(c) => format!("+ci{c}"),
        None => String::new(),
      }
    ) + &match self.first_inscription_height {
      Some(h) => format!("+fih{h}"),
      None => String::new(),
    } + if self.integration_test { "+it" } else { "" }
  }

  pub fn args(&self, world: &World, dir: &Path) -> Vec<String> {
    let cookie = dir.join("cookie");
    if !cookie.exists() {
      std::fs::create_dir_all(dir).unwrap();
      std::fs::write(&cookie, "username:password").unwrap();
    }
    let mut args: Vec<String> = vec![
      "ord".into(),
      "--bitcoin-rpc-url".into(),
      world.url(),
      "--datadir".into(),
      dir.display().to_string(),
      "--cookie-file".into(),
      cookie.display().to_string(),
      format!("--chain={}", self.chain),
      "--index-cache-size".into(),
      "33554432".into(),
    ];
    if self.sats {
      args.push("--index-sats".into());
    }
    if self.addresses {
      args.push("--index-addresses".into());
    }
    if self.transactions {
      args.push("--index-transactions".into());
    }
    if self.runes {
      args.push("--index-runes".into());
    }
    if !self.inscriptions {
      args.push("--no-index-inscriptions".into());
    }
    if self.integration_test {
      args.push("--integration-test".into());
    }
    if let Some(c) = self.commit_interval {
      args.push("--commit-interval".into());
      args.push(c.to_string());
    }
    if let Some(c) = self.savepoint_interval {
      args.push("--savepoint-interval".into());
      args.push(c.to_string());
    }
    if let Some(c) = self.max_savepoints {
      args.push("--max-savepoints".into());
      args.push(c.to_string());
    }
    args
  }

  pub fn settings(&self, world: &World, dir: &Path) -> anyhow::Result<Settings> {
    let options = Options::try_parse_from(self.args(world, dir))?;
    Ok(Settings::from_options(options).or_defaults()?)
  }

  pub fn index_path(&self, dir: &Path) -> PathBuf {
    match self.chain {
      "mainnet" => dir.join("index.redb"),
      "testnet" => dir.join("testnet3").join("index.redb"),
      c => dir.join(c).join("index.redb"),
    }
  }
}

pub fn open(world: &World, dir: &Path, cfg: &IndexCfg) -> anyhow::Result<Index> {
  // thread-local knob: stays in force for later update() calls on this thread until the next open()
  ord::index::verif::knobs::set_first_inscription_height(cfg.first_inscription_height);
  let settings = cfg.settings(world, dir)?;
  Index::open(&settings)
}

pub fn open_with_events(
  world: &World,
  dir: &Path,
  cfg: &IndexCfg,
  sender: tokio::sync::mpsc::Sender<ord::index::event::Event>,
) -> anyhow::Result<Index> {
  ord::index::verif::knobs::set_first_inscription_height(cfg.first_inscription_height);
  let settings = cfg.settings(world, dir)?;
  Index::open_with_event_sender(&settings, Some(sender))
}

// ---------------------------------------------------------------------------
// dump decoding

pub type RawTable = Vec<(Vec<u8>, Vec<u8>)>;

pub struct Dump {
  pub tables: BTreeMap<String, RawTable>,
  pub savepoints: Vec<u64>,
}

pub const STAT_COMMITS: u64 = 2;
pub const STAT_BLESSED: u64 = 1;
pub const STAT_CURSED: u64 = 3;
pub const STAT_INITIAL_SYNC_TIME: u64 = 9;
pub const STAT_LOST_SATS: u64 = 10;
pub const STAT_RESERVED_RUNES: u64 = 12;
pub const STAT_RUNES: u64 = 13;
pub const STAT_UNBOUND: u64 = 16;
pub const STAT_LAST_SAVEPOINT_HEIGHT: u64 = 17;

impl Dump {
  pub fn take(index: &Index) -> anyhow::Result<Dump> {
    let d = ord::index::verif::dump(index)?;
    Ok(Dump {
      tables: d.tables,
      savepoints: d.savepoints,
    })
  }

  pub fn table(&self, name: &str) -> &RawTable {
    static EMPTY: RawTable = Vec::new();
    self.tables.get(name).unwrap_or(&EMPTY)
  }

  pub fn statistic(&self, key: u64) -> u64 {
    for (k, v) in self.table("STATISTIC_TO_COUNT") {
      if u64::from_le_bytes(k[..8].try_into().unwrap()) == key {
        return u64::from_le_bytes(v[..8].try_into().unwrap());
      }
    }
    0
  }

  /// The `content` projection: everything except timing and commit bookkeeping.
  pub fn content(&self) -> BTreeMap<String, RawTable> {
    let mut out = BTreeMap::new();
    for (name, rows) in &self.tables {
      if name == "WRITE_TRANSACTION_STARTING_BLOCK_COUNT_TO_TIMESTAMP" {
        continue;
      }
      if name == "STATISTIC_TO_COUNT" {
        let rows = rows
          .iter()
          .filter(|(k, _)| {
            let key = u64::from_le_bytes(k[..8].try_into().unwrap());
            key != STAT_COMMITS && key != STAT_INITIAL_SYNC_TIME && key != STAT_LAST_SAVEPOINT_HEIGHT
          })
          .cloned()
          .collect();
        out.insert(name.clone(), rows);
        continue;
      }
      out.insert(name.clone(), rows.clone());
    }
    out
  }

  pub fn content_hash(&self) -> String {
    hash_tables(&self.content())
  }

  pub fn utxo_outpoints(&self) -> Vec<OutPoint> {
    self
      .table("OUTPOINT_TO_UTXO_ENTRY")
      .iter()
      .map(|(k, _)| decode_outpoint(k))
      .collect()
  }
}

pub fn hash_tables(tables: &BTreeMap<String, RawTable>) -> String {
  let mut buf = Vec::new();
  for (name, rows) in tables {
    buf.extend_from_slice(name.as_bytes());
    buf.extend_from_slice(&(rows.len() as u64).to_le_bytes());
    for (k, v) in rows {
      buf.extend_from_slice(&(k.len() as u32).to_le_bytes());
      buf.extend_from_slice(k);
      buf.extend_from_slice(&(v.len() as u32).to_le_bytes());
      buf.extend_from_slice(v);
    }
  }
  crate::util::sha256_hex(&buf)
}

/// First difference between two content projections, for messages.
pub fn diff_tables(a: &BTreeMap<String, RawTable>, b: &BTreeMap<String, RawTable>) -> String {
  for (name, rows) in a {
    let other = b.get(name);
    match other {
      None => return format!("table {name} missing on the right"),
      Some(o) if o != rows => {
        let n = rows.len().max(o.len());
        for i in 0..n {
          let l = rows.get(i);
          let r = o.get(i);
          if l != r {
            let f = |x: Option<&(Vec<u8>, Vec<u8>)>| match x {
              Some((k, v)) => format!("{}=>{}", hex::encode(k), hex::encode(v)),
              None => "<none>".into(),
            };
            return format!(
              "table {name} row {i}: left {} right {} (rows {} vs {})",
              f(l),
              f(r),
              rows.len(),
              o.len()
            );
          }
        }
      }
      _ => {}
    }
  }
  for name in b.keys() {
    if !a.contains_key(name) {
      return format!("table {name} missing on the left");
    }
  }
  "identical".into()
}

pub fn decode_outpoint(bytes: &[u8]) -> OutPoint {
  OutPoint::consensus_decode(&mut &bytes[..]).expect("outpoint")
}

/// Independent decoder of the UTXO entry format documented in
/// src/index/utxo_entry.rs.
#[derive(Debug, Clone, PartialEq, Eq)]
pub struct UtxoEntryDec {
  pub ranges: Option<Vec<(u64, u64)>>,
  pub value: u64,
  pub script: Option<Vec<u8>>,
  pub inscriptions: Vec<(u32, u64)>,
}

fn leb(buf: &[u8], pos: &mut usize) -> u128 {
  let mut n: u128 = 0;
  let mut shift = 0;
  loop {
    let b = buf[*pos];
    *pos += 1;
    n |= ((b & 0x7f) as u128) << shift;
    if b & 0x80 == 0 {
      return n;
    }
    shift += 7;
  }
}

pub fn decode_sat_range(b: &[u8]) -> (u64, u64) {
  let mut lo = [0u8; 16];
  lo[..11].copy_from_slice(&b[..11]);
  let n = u128::from_le_bytes(lo);
  let base = (n & ((1u128 << 51) - 1)) as u64;
  let delta = (n >> 51) as u64;
  (base, base + delta)
}

pub fn decode_utxo_entry(bytes: &[u8], sats: bool, addresses: bool, inscriptions: bool) -> UtxoEntryDec {
  let mut pos = 0;
  let mut ranges = None;
  let value;
  if sats {
    let n = leb(bytes, &mut pos) as usize;
    let mut v = Vec::new();
    let mut total = 0;
    for _ in 0..n {
      let r = decode_sat_range(&bytes[pos..pos + 11]);
      pos += 11;
      total += r.1 - r.0;
      v.push(r);
    }
    ranges = Some(v);
    value = total;
  } else {
    value = leb(bytes, &mut pos) as u64;
  }
  let mut script = None;
  if addresses {
    let n = leb(bytes, &mut pos) as usize;
    script = Some(bytes[pos..pos + n].to_vec());
    pos += n;
  }
  let mut insc = Vec::new();
  if inscriptions {
    while pos < bytes.len() {
      let seq = u32::from_le_bytes(bytes[pos..pos + 4].try_into().unwrap());
      pos += 4;
      let off = leb(bytes, &mut pos) as u64;
      insc.push((seq, off));
    }
  }
  UtxoEntryDec {
    ranges,
    value,
    script,
    inscriptions: insc,
  }
}

pub fn coalesce(ranges: &[(u64, u64)]) -> Vec<(u64, u64)> {
  let mut out: Vec<(u64, u64)> = Vec::new();
  for &(s, e) in ranges {
    if s == e {
      continue;
    }
    if let Some(last) = out.last_mut()
      && last.1 == s
    {
      last.1 = e;
      continue;
    }
    out.push((s, e));
  }
  out
}
