//! Independent, deliberately naive reference models driven only by block data.
pub mod inscriptions;
pub mod runes;
pub mod sats;
