//! Independent, deliberately naive reference models driven only by block data.
pub mod sats;
