//! Reference inscription model: every bound inscription is attached to a *sat*;
//! its location is wherever the reference sat model puts that sat. This is a
//! different mechanism from ord's offset arithmetic, which is the point.
//!
//! Envelopes come from ord's own `ParsedEnvelope::from_transaction` (C04 is
//! stated in terms of that parser; the parser itself is C27).

use {
  super::sats::SatModel,
  bitcoin::{Block, OutPoint, Transaction},
  ord::{InscriptionId, ParsedEnvelope},
  std::collections::{BTreeMap, BTreeSet},
};

#[derive(Clone, Debug)]
pub struct RefInsc {
  pub id: InscriptionId,
  pub height: u32,
  pub tx_index: usize,
  pub input: u32,
  pub envelope_offset: u32,
  /// None = unbound
  pub sat: Option<u64>,
  /// envelope is "clean" in the sense of C06: first envelope of the first input, no pointer
  /// field, no pushnum, no stutter, no duplicate / incomplete / unrecognized even field
  pub clean: bool,
  pub has_pointer_field: bool,
  /// pointer accepted (in range) and different from the default position
  pub pointer_effective: bool,
  pub purported_parents: Vec<InscriptionId>,
  /// inscriptions located in the inputs of the reveal transaction, plus all
  /// inscriptions revealed by it
  pub spent_or_revealed: BTreeSet<InscriptionId>,
  pub zero_value_input: bool,
  pub unrecognized_even: bool,
}

#[derive(Clone, Default)]
pub struct InscModel {
  pub all: Vec<RefInsc>,
  pub by_id: BTreeMap<InscriptionId, usize>,
  /// bound inscriptions per sat in model creation order
  pub by_sat: BTreeMap<u64, Vec<usize>>,
  /// inscriptions whose sat ever landed in an OP_RETURN output
  pub burned: BTreeSet<usize>,
  /// inscriptions whose sat was lost in the block that created them
  pub lost_at_creation: BTreeSet<usize>,
  /// total envelopes seen in non-coinbase transactions
  pub envelopes: u64,
}

fn sat_at(ranges: &[(u64, u64)], mut offset: u64) -> Option<u64> {
  for &(s, e) in ranges {
    let n = e - s;
    if offset < n {
      return Some(s + offset);
    }
    offset -= n;
  }
  None
}

fn ranges_contain(ranges: &[(u64, u64)], sat: u64) -> bool {
  ranges.iter().any(|&(s, e)| s <= sat && sat < e)
}

impl InscModel {
  /// Inscriptions (indices) whose sat lies in `ranges`.
  pub fn in_ranges(&self, ranges: &[(u64, u64)]) -> Vec<usize> {
    let mut out = Vec::new();
    for &(s, e) in ranges {
      for (_, v) in self.by_sat.range(s..e) {
        out.extend(v.iter().cloned());
      }
    }
    out
  }

  /// Processes one block on top of `sats` (which is advanced by this call).
  pub fn apply_block(&mut self, sats: &mut SatModel, block: &Block, first_inscription_height: u32) {
    let height = sats.blocks;
    let mut created_here: Vec<usize> = Vec::new();
    let mut new_items: Vec<RefInsc> = Vec::new();
    let mut op_return_ranges_todo: Vec<(Transaction, usize)> = Vec::new();

    {
      let this = &*self;
      let mut staged: Vec<RefInsc> = Vec::new();
      sats.apply_block_with(block, |model, tx_index, tx, input_ranges| {
        if tx_index == 0 || height < first_inscription_height {
          if tx.output.iter().any(|o| o.script_pubkey.is_op_return() && o.value.to_sat() > 0) {
            op_return_ranges_todo.push((tx.clone(), tx_index));
          }
          return;
        }
        if tx.output.iter().any(|o| o.script_pubkey.is_op_return() && o.value.to_sat() > 0) {
          op_return_ranges_todo.push((tx.clone(), tx_index));
        }
        let envelopes = ParsedEnvelope::from_transaction(tx);
        if envelopes.is_empty() {
          return;
        }
        let txid = tx.compute_txid();
        let total_output: u64 = tx.output.iter().map(|o| o.value.to_sat()).sum();
        // per-input values and start offsets
        let mut starts = Vec::new();
        let mut values = Vec::new();
        let mut acc = 0u64;
        for input in &tx.input {
          let v: u64 = model
            .utxo
            .get(&input.previous_output)
            .map(|r| r.iter().map(|(s, e)| e - s).sum())
            .unwrap_or(0);
          starts.push(acc);
          values.push(v);
          acc += v;
        }
        // inscriptions spent by this transaction (existing ones located in its inputs,
        // including ones staged earlier in this same block)
        let mut spent: BTreeSet<InscriptionId> = BTreeSet::new();
        for i in this.in_ranges(input_ranges) {
          spent.insert(this.all[i].id);
        }
        for s in &staged {
          if let Some(sat) = s.sat
            && ranges_contain(input_ranges, sat)
          {
            spent.insert(s.id);
          }
        }
        let mut revealed: BTreeSet<InscriptionId> = BTreeSet::new();
        for (k, _) in envelopes.iter().enumerate() {
          revealed.insert(InscriptionId { txid, index: k as u32 });
        }
        let all: BTreeSet<InscriptionId> = spent.union(&revealed).cloned().collect();
        for (k, env) in envelopes.iter().enumerate() {
          let input = env.input as usize;
          let zero_value_input = values[input] == 0;
          let unrecognized_even = env.payload.unrecognized_even_field;
          let pointer = env.payload.pointer().filter(|p| *p < total_output);
          let default_offset = starts[input];
          let offset = pointer.unwrap_or(default_offset);
          let sat = if zero_value_input || unrecognized_even {
            None
          } else {
            sat_at(input_ranges, offset)
          };
          let clean = env.input == 0
            && env.offset == 0
            && env.payload.pointer.is_none()
            && !env.pushnum
            && !env.stutter
            && !env.payload.duplicate_field
            && !env.payload.incomplete_field
            && !env.payload.unrecognized_even_field;
          staged.push(RefInsc {
            id: InscriptionId { txid, index: k as u32 },
            height,
            tx_index,
            input: env.input,
            envelope_offset: env.offset,
            sat,
            clean,
            has_pointer_field: env.payload.pointer.is_some(),
            pointer_effective: pointer.map(|p| p != default_offset).unwrap_or(false),
            purported_parents: env.payload.parents(),
            spent_or_revealed: all.clone(),
            zero_value_input,
            unrecognized_even,
          });
        }
      });
      new_items.extend(staged);
    }

    for item in new_items {
      let idx = self.all.len();
      self.envelopes += 1;
      self.by_id.insert(item.id, idx);
      if let Some(sat) = item.sat {
        self.by_sat.entry(sat).or_default().push(idx);
      }
      created_here.push(idx);
      self.all.push(item);
    }

    // burned: sats that now sit in an OP_RETURN output created in this block
    for (tx, _) in op_return_ranges_todo {
      let txid = tx.compute_txid();
      for (vout, out) in tx.output.iter().enumerate() {
        if out.script_pubkey.is_op_return()
          && let Some(ranges) = sats.utxo.get(&OutPoint { txid, vout: vout as u32 })
        {
          for i in self.in_ranges(ranges) {
            self.burned.insert(i);
          }
        }
      }
    }
    // lost at creation
    for i in created_here {
      if let Some(sat) = self.all[i].sat
        && ranges_contain(&sats.lost, sat)
      {
        self.lost_at_creation.insert(i);
      }
    }
  }
}
