//! Reference sat model: the BIP algorithm, written as lists of ranges.
//!
//! ```text
//! coinbase_ordinals = subsidy range ++ fee ranges of each transaction in block order
//! each transaction: concatenate input ranges, hand them to outputs first-in-first-out,
//!                   whatever is left are its fee ranges
//! coinbase: hands coinbase_ordinals to its outputs FIFO; the rest is lost
//! ```

use {
  bitcoin::{Block, OutPoint, Transaction},
  std::collections::{BTreeMap, VecDeque},
};

pub const SUBSIDY_HALVING_INTERVAL: u32 = 210_000;
pub const SUPPLY: u64 = 2_099_999_997_690_000;

pub fn subsidy(height: u32) -> u64 {
  let halvings = height / SUBSIDY_HALVING_INTERVAL;
  if halvings >= 33 { 0 } else { (50 * 100_000_000u64) >> halvings }
}

/// First sat of the block at `height`: running sum of earlier subsidies.
pub fn first_sat(height: u32) -> u64 {
  let mut total = 0u64;
  let mut h = 0u32;
  while h < height {
    let epoch_end = (h / SUBSIDY_HALVING_INTERVAL + 1) * SUBSIDY_HALVING_INTERVAL;
    let n = epoch_end.min(height) - h;
    total += u64::from(n) * subsidy(h);
    h += n;
  }
  total
}

pub type Ranges = Vec<(u64, u64)>;

#[derive(Clone, Default, Debug)]
pub struct SatModel {
  /// every unspent output (OP_RETURN and zero-value ones included)
  pub utxo: BTreeMap<OutPoint, Ranges>,
  /// value and script of every unspent output, from the creating transaction
  pub meta: BTreeMap<OutPoint, (u64, Vec<u8>)>,
  /// sats lost to under-claiming coinbases, in order
  pub lost: Ranges,
  /// sats destroyed by duplicate txids
  pub destroyed: Ranges,
  /// outpoints that a duplicate txid created a second time while the first was unspent
  pub recreated: std::collections::BTreeSet<OutPoint>,
  /// number of blocks processed (= next height)
  pub blocks: u32,
}

fn take(queue: &mut VecDeque<(u64, u64)>, mut want: u64) -> Ranges {
  let mut out = Vec::new();
  while want > 0 {
    let (s, e) = queue.pop_front().expect("reference model: outputs exceed inputs (invalid block)");
    let have = e - s;
    if have <= want {
      out.push((s, e));
      want -= have;
    } else {
      out.push((s, s + want));
      queue.push_front((s + want, e));
      want = 0;
    }
  }
  out
}

impl SatModel {
  fn assign(&mut self, tx: &Transaction, queue: &mut VecDeque<(u64, u64)>) {
    let txid = tx.compute_txid();
    for (vout, out) in tx.output.iter().enumerate() {
      let ranges = take(queue, out.value.to_sat());
      let op = OutPoint {
        txid,
        vout: vout as u32,
      };
      if let Some(old) = self.utxo.insert(op, ranges) {
        // duplicate txid: the displaced output and its sats are gone
        self.destroyed.extend(old);
        self.recreated.insert(op);
      }
      self
        .meta
        .insert(op, (out.value.to_sat(), out.script_pubkey.to_bytes()));
    }
  }

  pub fn apply_block(&mut self, block: &Block) {
    self.apply_block_with(block, |_, _, _, _| {});
  }

  /// Like `apply_block`; `on_tx(model_before_tx, tx_index, tx, concatenated_input_ranges)` is
  /// called for every transaction just before its sats are assigned (for the
  /// coinbase the input ranges are subsidy ++ fees).
  pub fn apply_block_with(
    &mut self,
    block: &Block,
    mut on_tx: impl FnMut(&SatModel, usize, &Transaction, &[(u64, u64)]),
  ) {
    let height = self.blocks;
    let mut coinbase_queue: VecDeque<(u64, u64)> = VecDeque::new();
    let s = subsidy(height);
    if s > 0 {
      let start = first_sat(height);
      coinbase_queue.push_back((start, start + s));
    }
    for (i, tx) in block.txdata.iter().enumerate().skip(1) {
      let mut queue: VecDeque<(u64, u64)> = VecDeque::new();
      for input in &tx.input {
        let ranges = self
          .utxo
          .get(&input.previous_output)
          .unwrap_or_else(|| panic!("reference model: input {} not unspent", input.previous_output));
        queue.extend(ranges.iter().cloned());
      }
      let snapshot: Vec<(u64, u64)> = queue.iter().cloned().collect();
      on_tx(self, i, tx, &snapshot);
      for input in &tx.input {
        self.utxo.remove(&input.previous_output);
        self.meta.remove(&input.previous_output);
      }
      self.assign(tx, &mut queue);
      coinbase_queue.extend(queue); // fees, in block order
    }
    if let Some(cb) = block.txdata.first() {
      let snapshot: Vec<(u64, u64)> = coinbase_queue.iter().cloned().collect();
      on_tx(self, 0, cb, &snapshot);
      self.assign(cb, &mut coinbase_queue);
    }
    self.lost.extend(coinbase_queue);
    self.blocks += 1;
  }

  pub fn lost_total(&self) -> u64 {
    self.lost.iter().map(|(s, e)| e - s).sum()
  }

  /// Location (outpoint, offset) of a sat, searching unspent outputs and the
  /// lost list (null outpoint).
  pub fn locate(&self, sat: u64) -> Option<(OutPoint, u64)> {
    for (op, ranges) in &self.utxo {
      let mut off = 0;
      for &(s, e) in ranges {
        if s <= sat && sat < e {
          return Some((*op, off + sat - s));
        }
        off += e - s;
      }
    }
    let mut off = 0;
    for &(s, e) in &self.lost {
      if s <= sat && sat < e {
        return Some((OutPoint::null(), off + sat - s));
      }
      off += e - s;
    }
    None
  }
}
