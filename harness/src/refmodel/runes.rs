//! Reference rune model, written from docs/src/runes/specification.md:
//! balances per outpoint, entries per id. `Runestone::decipher` is used as
//! given (its own property is C25) and `Rune::minimum_at_height` as given (C33).

use {
  bitcoin::{Block, Network, OutPoint, Transaction, Txid},
  ordinals::{Artifact, Edict, Height, Rune, RuneId, Runestone, Terms},
  std::collections::BTreeMap,
};

#[derive(Clone, Debug, PartialEq)]
pub struct RefRune {
  pub id: RuneId,
  pub rune: u128,
  pub spacers: u32,
  pub divisibility: u8,
  pub symbol: Option<char>,
  pub premine: u128,
  pub terms: Option<Terms>,
  pub turbo: bool,
  pub mints: u128,
  pub burned: u128,
  pub number: u64,
  pub etching: Txid,
  pub by_cenotaph: bool,
  pub reserved_name: bool,
}

#[derive(Clone, Debug, Default)]
pub struct RuneEvents {
  /// (height, txid, id)
  pub etched: Vec<(u32, Txid, RuneId)>,
  /// (height, txid, id, amount)
  pub minted: Vec<(u32, Txid, RuneId, u128)>,
}

#[derive(Clone, Default)]
pub struct RuneModel {
  pub entries: BTreeMap<RuneId, RefRune>,
  pub by_name: BTreeMap<u128, RuneId>,
  pub balances: BTreeMap<OutPoint, BTreeMap<RuneId, u128>>,
  pub reserved_runes: u64,
  pub blocks: u32,
  /// txid -> (height, transaction) of every transaction of the active chain
  pub chain: BTreeMap<Txid, (u32, Transaction)>,
  pub events: RuneEvents,
  /// number of mint attempts that had no effect, by reason (vacuity detection)
  pub mint_rejections: BTreeMap<&'static str, u64>,
  pub etch_rejections: BTreeMap<&'static str, u64>,
}

pub fn mintable(r: &RefRune, height: u64) -> Result<u128, &'static str> {
  let Some(terms) = r.terms else {
    return Err("no-terms");
  };
  let rel_start = terms.offset.0.map(|o| r.id.block.saturating_add(o));
  let start = match (rel_start, terms.height.0) {
    (Some(a), Some(b)) => Some(a.max(b)),
    (a, b) => a.or(b),
  };
  if let Some(s) = start
    && height < s
  {
    return Err("before-start");
  }
  let rel_end = terms.offset.1.map(|o| r.id.block.saturating_add(o));
  let end = match (rel_end, terms.height.1) {
    (Some(a), Some(b)) => Some(a.min(b)),
    (a, b) => a.or(b),
  };
  if let Some(e) = end
    && height >= e
  {
    return Err("at-or-after-end");
  }
  if r.mints >= terms.cap.unwrap_or(0) {
    return Err("cap-reached");
  }
  Ok(terms.amount.unwrap_or(0))
}

impl RuneModel {
  fn commits(&self, tx: &Transaction, rune: u128, height: u32) -> bool {
    let commitment = Rune(rune).commitment();
    for input in &tx.input {
      // taproot script path shape: at least two elements (ignoring an annex), second to last is the script
      let w: Vec<&[u8]> = input.witness.iter().collect();
      let mut n = w.len();
      if n >= 2 && w[n - 1].first() == Some(&0x50) {
        n -= 1;
      }
      if n < 2 {
        continue;
      }
      let script = bitcoin::Script::from_bytes(w[n - 2]);
      let mut found = false;
      for ins in script.instructions() {
        let Ok(ins) = ins else { break };
        if let Some(p) = ins.push_bytes()
          && p.as_bytes() == commitment.as_slice()
        {
          found = true;
          break;
        }
      }
      if !found {
        continue;
      }
      let Some((commit_height, prev)) = self.chain.get(&input.previous_output.txid) else {
        continue;
      };
      let Some(out) = prev.output.get(input.previous_output.vout as usize) else {
        continue;
      };
      if !out.script_pubkey.is_p2tr() {
        continue;
      }
      if height - commit_height + 1 >= 6 {
        return true;
      }
    }
    false
  }

  pub fn apply_block(&mut self, block: &Block, network: Network, first_rune_height: u32) {
    let height = self.blocks;
    for tx in &block.txdata {
      self.chain.insert(tx.compute_txid(), (height, tx.clone()));
    }
    if height >= first_rune_height {
      let minimum = Rune::minimum_at_height(network, Height(height)).0;
      let mut burned_block: BTreeMap<RuneId, u128> = BTreeMap::new();
      for (tx_index, tx) in block.txdata.iter().enumerate() {
        self.apply_tx(tx, tx_index as u32, height, minimum, &mut burned_block);
      }
      for (id, amount) in burned_block {
        let e = self.entries.get_mut(&id).expect("burned rune has an entry");
        e.burned = e.burned.checked_add(amount).expect("burned overflow");
      }
    }
    self.blocks += 1;
  }

  fn apply_tx(&mut self, tx: &Transaction, tx_index: u32, height: u32, minimum: u128, burned_block: &mut BTreeMap<RuneId, u128>) {
    let txid = tx.compute_txid();
    let artifact = Runestone::decipher(tx);

    let mut unallocated: BTreeMap<RuneId, u128> = BTreeMap::new();
    for input in &tx.input {
      if let Some(b) = self.balances.remove(&input.previous_output) {
        for (id, amount) in b {
          *unallocated.entry(id).or_default() += amount;
        }
      }
    }
    let mut allocated: Vec<BTreeMap<RuneId, u128>> = vec![BTreeMap::new(); tx.output.len()];

    let mut etched: Option<RuneId> = None;

    if let Some(artifact) = &artifact {
      // 1. mint
      if let Some(id) = artifact.mint() {
        match self.entries.get_mut(&id) {
          None => *self.mint_rejections.entry("unknown-or-not-yet-etched").or_default() += 1,
          Some(entry) => match mintable(entry, height.into()) {
            Ok(amount) => {
              entry.mints += 1;
              *unallocated.entry(id).or_default() += amount;
              self.events.minted.push((height, txid, id, amount));
            }
            Err(why) => *self.mint_rejections.entry(why).or_default() += 1,
          },
        }
      }
      // 2. etching
      let (wants_etch, name): (bool, Option<u128>) = match artifact {
        Artifact::Runestone(r) => (r.etching.is_some(), r.etching.and_then(|e| e.rune.map(|r| r.0))),
        Artifact::Cenotaph(c) => (c.etching.is_some(), c.etching.map(|r| r.0)),
      };
      let mut new_entry: Option<RefRune> = None;
      if wants_etch {
        let id = RuneId {
          block: height.into(),
          tx: tx_index,
        };
        let rune: Option<(u128, bool)> = match name {
          Some(n) => {
            if n < minimum {
              *self.etch_rejections.entry("below-minimum").or_default() += 1;
              None
            } else if n >= Rune::RESERVED {
              *self.etch_rejections.entry("reserved").or_default() += 1;
              None
            } else if self.by_name.contains_key(&n) {
              *self.etch_rejections.entry("taken").or_default() += 1;
              None
            } else if !self.commits(tx, n, height) {
              *self.etch_rejections.entry("no-valid-commitment").or_default() += 1;
              None
            } else {
              Some((n, false))
            }
          }
          None => {
            // only a runestone can carry an unnamed etching
            self.reserved_runes += 1;
            Some((Rune::RESERVED + ((u128::from(height) << 32) | u128::from(tx_index)), true))
          }
        };
        if let Some((rune, reserved_name)) = rune {
          etched = Some(id);
          let number = self.entries.len() as u64;
          new_entry = Some(match artifact {
            Artifact::Runestone(r) => {
              let e = r.etching.unwrap();
              RefRune {
                id,
                rune,
                spacers: e.spacers.unwrap_or(0),
                divisibility: e.divisibility.unwrap_or(0),
                symbol: e.symbol,
                premine: e.premine.unwrap_or(0),
                terms: e.terms,
                turbo: e.turbo,
                mints: 0,
                burned: 0,
                number,
                etching: txid,
                by_cenotaph: false,
                reserved_name,
              }
            }
            Artifact::Cenotaph(_) => RefRune {
              id,
              rune,
              spacers: 0,
              divisibility: 0,
              symbol: None,
              premine: 0,
              terms: None,
              turbo: false,
              mints: 0,
              burned: 0,
              number,
              etching: txid,
              by_cenotaph: true,
              reserved_name,
            },
          });
        }
      }
      // 3. runestone: premine and edicts
      if let Artifact::Runestone(r) = artifact {
        if let (Some(id), Some(entry)) = (etched, &new_entry) {
          *unallocated.entry(id).or_default() += entry.premine;
        }
        let eligible: Vec<usize> = tx
          .output
          .iter()
          .enumerate()
          .filter(|(_, o)| !o.script_pubkey.is_op_return())
          .map(|(i, _)| i)
          .collect();
        for Edict { id, amount, output } in r.edicts.iter().copied() {
          let id = if id == RuneId::default() {
            match etched {
              Some(id) => id,
              None => continue,
            }
          } else {
            id
          };
          let Some(balance) = unallocated.get_mut(&id) else {
            continue;
          };
          let output = output as usize;
          let mut give = |balance: &mut u128, amount: u128, out: usize| {
            if amount > 0 {
              *balance -= amount;
              *allocated[out].entry(id).or_default() += amount;
            }
          };
          if output == tx.output.len() {
            if eligible.is_empty() {
              continue;
            }
            if amount == 0 {
              let n = eligible.len() as u128;
              let share = *balance / n;
              let rem = (*balance % n) as usize;
              for (i, out) in eligible.iter().enumerate() {
                give(balance, if i < rem { share + 1 } else { share }, *out);
              }
            } else {
              for out in &eligible {
                let a = amount.min(*balance);
                give(balance, a, *out);
              }
            }
          } else {
            let a = if amount == 0 { *balance } else { amount.min(*balance) };
            give(balance, a, output);
          }
        }
      }
      if let Some(entry) = new_entry {
        self.by_name.insert(entry.rune, entry.id);
        self.events.etched.push((height, txid, entry.id));
        self.entries.insert(entry.id, entry);
      }
    }

    let mut burned: BTreeMap<RuneId, u128> = BTreeMap::new();
    match &artifact {
      Some(Artifact::Cenotaph(_)) => {
        for (id, amount) in unallocated {
          *burned.entry(id).or_default() += amount;
        }
      }
      other => {
        let pointer = match other {
          Some(Artifact::Runestone(r)) => r.pointer.map(|p| p as usize),
          _ => None,
        };
        let default = pointer.or_else(|| tx.output.iter().position(|o| !o.script_pubkey.is_op_return()));
        match default {
          Some(out) => {
            for (id, amount) in unallocated {
              if amount > 0 {
                *allocated[out].entry(id).or_default() += amount;
              }
            }
          }
          None => {
            for (id, amount) in unallocated {
              if amount > 0 {
                *burned.entry(id).or_default() += amount;
              }
            }
          }
        }
      }
    }

    for (vout, balances) in allocated.into_iter().enumerate() {
      if balances.is_empty() {
        continue;
      }
      if tx.output[vout].script_pubkey.is_op_return() {
        for (id, amount) in balances {
          *burned.entry(id).or_default() += amount;
        }
        continue;
      }
      let balances: BTreeMap<RuneId, u128> = balances.into_iter().filter(|(_, a)| *a > 0).collect();
      if !balances.is_empty() {
        self.balances.insert(
          OutPoint {
            txid,
            vout: vout as u32,
          },
          balances,
        );
      }
    }
    for (id, amount) in burned {
      *burned_block.entry(id).or_default() += amount;
    }
  }
}
