//! C36 (engine E8): settings follow flag > environment > config file > default.
//!
//! Every case is one call of `Settings::merge(options, env)` where `options`
//! comes from `Options::try_parse_from` (clap), `env` is the map of `ORD_`
//! variables with the prefix removed (what `Settings::load` builds), and the
//! config file is a generated YAML file.  The result is read by serialising the
//! returned `Settings` (it derives `Serialize`).
//!
//! Enumeration: for every setting key K, every non-empty subset of the sources
//! that can carry K (pairwise distinct values), alone and crossed with every
//! other key K2 supplied by each single source that can carry K2.  Expected
//! value of every supplied key: the first present of flag, env, config; boolean
//! switches: OR of the sources; hidden: union.  Keys nobody supplies must show
//! their documented default (`ord --help`: rpc limit 12, commit interval 5000,
//! savepoint interval 10, max savepoints 2, chain mainnet, switches off, the
//! rest unset); defaults that are derived from other settings (data dir,
//! cookie file, index path, rpc url, cache size) are only required not to be a
//! value that was supplied for a different key.

use {
  crate::{Ctx, evidence::Report, util},
  clap::Parser,
  ord::{Options, settings::Settings},
  serde_json::{Value, json},
  std::{
    collections::{BTreeMap, BTreeSet},
    path::{Path, PathBuf},
  },
};

type Viol = (String, String, Value);

#[derive(Clone, Copy, PartialEq, Debug)]
enum Kind {
  Str,
  Path,
  Num,
  Chain,
  Bool,
  Hidden,
  ConfigFile,
  ConfigDir,
}

#[derive(Clone, Copy, PartialEq, Debug)]
enum Dflt {
  Json(&'static str), // documented default, JSON text
  Derived,            // depends on other settings / machine
}

struct Key {
  name: &'static str,
  kind: Kind,
  flag: bool,
  env: bool,
  config: bool,
  default: Dflt,
}

const fn k(name: &'static str, kind: Kind, flag: bool, env: bool, config: bool, default: Dflt) -> Key {
  Key { name, kind, flag, env, config, default }
}

const KEYS: [Key; 27] = [
  k("bitcoin_data_dir", Kind::Path, true, true, true, Dflt::Derived),
  k("bitcoin_rpc_limit", Kind::Num, true, true, true, Dflt::Json("12")),
  k("bitcoin_rpc_password", Kind::Str, true, true, true, Dflt::Json("null")),
  k("bitcoin_rpc_url", Kind::Str, true, true, true, Dflt::Derived),
  k("bitcoin_rpc_username", Kind::Str, true, true, true, Dflt::Json("null")),
  k("chain", Kind::Chain, true, true, true, Dflt::Json("\"mainnet\"")),
  k("commit_interval", Kind::Num, true, true, true, Dflt::Json("5000")),
  k("config", Kind::ConfigFile, true, true, false, Dflt::Json("null")),
  k("config_dir", Kind::ConfigDir, true, true, false, Dflt::Json("null")),
  k("cookie_file", Kind::Path, true, true, true, Dflt::Derived),
  k("data_dir", Kind::Path, true, true, true, Dflt::Derived),
  k("height_limit", Kind::Num, true, true, true, Dflt::Json("null")),
  k("hidden", Kind::Hidden, false, true, true, Dflt::Json("[]")),
  k("http_port", Kind::Num, false, true, true, Dflt::Json("null")),
  k("index", Kind::Path, true, true, true, Dflt::Derived),
  k("index_addresses", Kind::Bool, true, true, true, Dflt::Json("false")),
  k("index_cache_size", Kind::Num, true, true, true, Dflt::Derived),
  k("index_runes", Kind::Bool, true, true, true, Dflt::Json("false")),
  k("index_sats", Kind::Bool, true, true, true, Dflt::Json("false")),
  k("index_transactions", Kind::Bool, true, true, true, Dflt::Json("false")),
  k("integration_test", Kind::Bool, true, true, true, Dflt::Json("false")),
  k("max_savepoints", Kind::Num, true, true, true, Dflt::Json("2")),
  k("no_index_inscriptions", Kind::Bool, true, true, true, Dflt::Json("false")),
  k("savepoint_interval", Kind::Num, true, true, true, Dflt::Json("10")),
  k("server_password", Kind::Str, true, true, true, Dflt::Json("null")),
  k("server_url", Kind::Str, false, true, true, Dflt::Json("null")),
  k("server_username", Kind::Str, true, true, true, Dflt::Json("null")),
];

const SRC: [&str; 3] = ["flag", "env", "config"];

const IDS: [&str; 3] = [
  "1111111111111111111111111111111111111111111111111111111111111111i1",
  "2222222222222222222222222222222222222222222222222222222222222222i2",
  "3333333333333333333333333333333333333333333333333333333333333333i3",
];

fn key_index(name: &str) -> usize {
  KEYS.iter().position(|k| k.name == name).expect("key")
}

fn sources(key: &Key) -> Vec<usize> {
  let mut v = Vec::new();
  if key.flag {
    v.push(0);
  }
  if key.env {
    v.push(1);
  }
  if key.config {
    v.push(2);
  }
  v
}

/// The value (as text) source `src` supplies for key `ki`: distinct across
/// sources and across keys.
fn value_text(ki: usize, src: usize) -> String {
  let key = &KEYS[ki];
  match key.kind {
    Kind::Str => format!("{}-{}", key.name, SRC[src]),
    Kind::Path => format!("/vr/{}-{}", key.name, SRC[src]),
    Kind::Num => (1000 + ki * 10 + src).to_string(),
    Kind::Chain => ["signet", "regtest", "testnet"][src].to_string(),
    Kind::Bool => "true".into(),
    Kind::Hidden => match src {
      1 => format!("{} {}", IDS[0], IDS[1]),
      _ => format!("{} {}", IDS[1], IDS[2]),
    },
    Kind::ConfigFile | Kind::ConfigDir => SRC[src].to_string(),
  }
}

#[derive(Clone, Debug, PartialEq)]
struct Entry {
  key: usize,
  src: usize,
  val: String,
  /// alternative command-line spelling (chain switches)
  spelling: Option<Vec<String>>,
}

fn entry(key: usize, src: usize) -> Entry {
  Entry { key, src, val: value_text(key, src), spelling: None }
}

fn entries_json(entries: &[Entry]) -> Value {
  json!(
    entries
      .iter()
      .map(|e| json!({"key": KEYS[e.key].name, "src": SRC[e.src], "val": e.val, "spelling": e.spelling}))
      .collect::<Vec<_>>()
  )
}

fn entries_from_json(v: &Value) -> Vec<Entry> {
  v.as_array()
    .expect("entries")
    .iter()
    .map(|e| Entry {
      key: key_index(e["key"].as_str().unwrap()),
      src: SRC.iter().position(|s| *s == e["src"].as_str().unwrap()).unwrap(),
      val: e["val"].as_str().unwrap().to_string(),
      spelling: e["spelling"]
        .as_array()
        .map(|a| a.iter().map(|s| s.as_str().unwrap().to_string()).collect()),
    })
    .collect()
}

fn yaml_line(key: &Key, val: &str) -> String {
  match key.kind {
    Kind::Hidden => {
      let mut s = format!("{}:\n", key.name);
      for id in val.split_whitespace() {
        s.push_str(&format!("- {id}\n"));
      }
      if val.trim().is_empty() {
        s = format!("{}: []\n", key.name);
      }
      s
    }
    _ => format!("{}: {}\n", key.name, val),
  }
}

fn chain_subdir(chain: &str) -> Option<&'static str> {
  match chain {
    "mainnet" => None,
    "testnet" => Some("testnet3"),
    "testnet4" => Some("testnet4"),
    "signet" => Some("signet"),
    "regtest" => Some("regtest"),
    _ => Some("?"),
  }
}

fn truthy(kind_src: usize, val: &str) -> bool {
  match kind_src {
    0 => true,             // flag present
    1 => !val.is_empty(),  // variable set to a non-empty string
    _ => val == "true",    // config
  }
}

/// Expected JSON value of every key that has at least one entry, plus the
/// marker expectation for config-file selection.
fn expected(entries: &[Entry]) -> BTreeMap<usize, Value> {
  let mut out = BTreeMap::new();
  let winner = |ki: usize| -> Option<&Entry> {
    (0..3).find_map(|s| entries.iter().find(|e| e.key == ki && e.src == s))
  };
  let chain = winner(key_index("chain")).map(|e| e.val.clone()).unwrap_or("mainnet".into());
  for (ki, key) in KEYS.iter().enumerate() {
    let mine: Vec<&Entry> = entries.iter().filter(|e| e.key == ki).collect();
    if mine.is_empty() {
      continue;
    }
    let w = winner(ki).unwrap();
    let v = match key.kind {
      Kind::Str => json!(w.val),
      Kind::Num => json!(w.val.parse::<u64>().unwrap()),
      Kind::Chain => json!(w.val),
      Kind::Path => {
        if key.name == "data_dir" {
          match chain_subdir(&chain) {
            None => json!(w.val),
            Some(sub) => json!(format!("{}/{}", w.val, sub)),
          }
        } else {
          json!(w.val)
        }
      }
      Kind::Bool => json!(mine.iter().any(|e| truthy(e.src, &e.val))),
      Kind::Hidden => {
        let set: BTreeSet<String> = mine
          .iter()
          .flat_map(|e| e.val.split_whitespace().map(|s| s.to_string()))
          .collect();
        json!(set.into_iter().collect::<Vec<_>>())
      }
      // the keys themselves are cleared by or_defaults; the selected file is
      // observed through the marker it contains
      Kind::ConfigFile | Kind::ConfigDir => Value::Null,
    };
    out.insert(ki, v);
  }
  out
}

fn normalise(key: &Key, v: &Value) -> Value {
  if key.kind == Kind::Hidden {
    let mut items: Vec<String> = v
      .as_array()
      .map(|a| a.iter().map(|x| x.as_str().unwrap_or("").to_string()).collect())
      .unwrap_or_default();
    items.sort();
    return json!(items);
  }
  v.clone()
}

#[derive(Default)]
struct Stats {
  merges: u64,
  merge_errors: u64,
  keys_compared: u64,
  by_winner: [u64; 4], // flag, env, config, default
  bool_on: u64,
  bool_off: u64,
  hidden_sizes: BTreeMap<usize, u64>,
  cases: BTreeSet<String>,
}

const MARKER_KEY: &str = "server_url";

fn run_case(dir: &Path, entries: &[Entry], stats: &mut Stats, viol: &mut Vec<Viol>) {
  stats.merges += 1;
  stats.cases.insert(entries_json(entries).to_string());
  let replay = json!({"entries": entries_json(entries)});

  // --- build the three sources
  let mut args: Vec<String> = vec!["ord".into()];
  let mut env: BTreeMap<String, String> = BTreeMap::new();
  let mut yaml = String::new();
  for e in entries.iter().filter(|e| e.src == 2) {
    yaml.push_str(&yaml_line(&KEYS[e.key], &e.val));
  }
  let cfg_entries: Vec<&Entry> = entries
    .iter()
    .filter(|e| matches!(KEYS[e.key].kind, Kind::ConfigFile | Kind::ConfigDir))
    .collect();
  let mut expected_marker: Option<String> = None;
  if cfg_entries.is_empty() {
    let f = dir.join("base.yaml");
    std::fs::write(&f, if yaml.is_empty() { "{}\n".to_string() } else { yaml.clone() }).expect("write yaml");
    args.push("--config".into());
    args.push(f.display().to_string());
  } else {
    // one file per source of the config / config_dir key, each with its own marker
    let kind = KEYS[cfg_entries[0].key].kind;
    let best = cfg_entries.iter().map(|e| e.src).min().unwrap();
    expected_marker = Some(format!("marker-{}", SRC[best]));
    for e in &cfg_entries {
      let content = format!("{yaml}{MARKER_KEY}: marker-{}\n", SRC[e.src]);
      let path: PathBuf = if kind == Kind::ConfigFile {
        let f = dir.join(format!("cfg-{}.yaml", SRC[e.src]));
        std::fs::write(&f, content).expect("write yaml");
        f
      } else {
        let d = dir.join(format!("cfgdir-{}", SRC[e.src]));
        std::fs::create_dir_all(&d).expect("mkdir");
        std::fs::write(d.join("ord.yaml"), content).expect("write yaml");
        d
      };
      let name = KEYS[e.key].name;
      if e.src == 0 {
        args.push(format!("--{}", name.replace('_', "-")));
        args.push(path.display().to_string());
      } else {
        env.insert(name.to_uppercase(), path.display().to_string());
      }
    }
  }
  for e in entries {
    let key = &KEYS[e.key];
    if matches!(key.kind, Kind::ConfigFile | Kind::ConfigDir) {
      continue;
    }
    match e.src {
      0 => {
        if let Some(sp) = &e.spelling {
          args.extend(sp.iter().cloned());
        } else if key.kind == Kind::Bool {
          args.push(format!("--{}", key.name.replace('_', "-")));
        } else {
          args.push(format!("--{}", key.name.replace('_', "-")));
          args.push(e.val.clone());
        }
      }
      1 => {
        env.insert(key.name.to_uppercase(), e.val.clone());
      }
      _ => {}
    }
  }

  // --- run ord
  let describe = || {
    format!(
      "args {:?}, env {:?}, config file entries {:?}",
      &args[1..],
      env,
      entries
        .iter()
        .filter(|e| e.src == 2)
        .map(|e| format!("{}={}", KEYS[e.key].name, e.val))
        .collect::<Vec<_>>()
    )
  };
  let result = util::catch(|| {
    let options = Options::try_parse_from(args.clone()).map_err(|e| format!("clap: {e}"))?;
    let settings = Settings::merge(options, env.clone()).map_err(|e| format!("merge: {e:#}"))?;
    serde_json::to_value(&settings).map_err(|e| format!("serialize: {e}"))
  });
  let got = match result {
    Err(p) => {
      viol.push(("merge/panic".into(), format!("Settings::merge panicked: {p}; {}", describe()), replay));
      return;
    }
    Ok(Err(e)) => {
      stats.merge_errors += 1;
      viol.push((
        "merge/error".into(),
        format!("valid sources rejected: {e}; {}", describe()),
        replay,
      ));
      return;
    }
    Ok(Ok(v)) => v,
  };

  // --- compare
  let mut exp = expected(entries);
  if let Some(m) = &expected_marker {
    exp.insert(key_index(MARKER_KEY), json!(m));
  }
  // all supplied raw values, to recognise cross-wiring
  let mut supplied: Vec<(usize, usize, Value)> = Vec::new();
  for e in entries {
    let single = expected(std::slice::from_ref(e));
    if let Some(v) = single.get(&e.key) {
      supplied.push((e.key, e.src, v.clone()));
    }
  }
  for (ki, key) in KEYS.iter().enumerate() {
    let g = normalise(key, &got[key.name]);
    stats.keys_compared += 1;
    match exp.get(&ki) {
      Some(want) => {
        let want = normalise(key, want);
        let srcs: Vec<usize> = entries.iter().filter(|e| e.key == ki).map(|e| e.src).collect();
        if let Some(best) = srcs.iter().min() {
          stats.by_winner[*best] += 1;
        }
        if key.kind == Kind::Bool {
          if want == json!(true) { stats.bool_on += 1 } else { stats.bool_off += 1 }
        }
        if key.kind == Kind::Hidden {
          *stats.hidden_sizes.entry(want.as_array().map(|a| a.len()).unwrap_or(0)).or_default() += 1;
        }
        if g != want {
          // which source's value did ord pick?
          let picked = entries
            .iter()
            .filter(|e| e.key == ki)
            .find(|e| expected(std::slice::from_ref(*e)).get(&ki).map(|v| normalise(key, v)) == Some(g.clone()));
          let other = supplied.iter().find(|(k2, _, v)| *k2 != ki && normalise(key, v) == g);
          let class = match key.kind {
            Kind::Bool => format!("boolean/{}/not-or-of-sources", key.name),
            Kind::Hidden => "hidden/not-union-of-sources".to_string(),
            _ => {
              if ki == key_index(MARKER_KEY) && expected_marker.is_some() {
                let which = KEYS[cfg_entries[0].key].name;
                format!("precedence/{which}/wrong-file-loaded")
              } else if let Some(p) = picked {
                format!(
                  "precedence/{}/{}-beats-{}",
                  key.name,
                  SRC[p.src],
                  SRC[*srcs.iter().min().unwrap()]
                )
              } else if let Some((k2, _, _)) = other {
                format!("crosswire/{}/takes-value-of-{}", key.name, KEYS[*k2].name)
              } else if g == serde_json::from_str::<Value>(match key.default { Dflt::Json(j) => j, _ => "null" }).unwrap() {
                format!("precedence/{}/default-beats-{}", key.name, SRC[*srcs.iter().min().unwrap()])
              } else {
                format!("precedence/{}/wrong-value", key.name)
              }
            }
          };
          viol.push((
            class,
            format!("{} = {g}, expected {want}; {}", key.name, describe()),
            replay.clone(),
          ));
        }
      }
      None => {
        stats.by_winner[3] += 1;
        match key.default {
          Dflt::Json(j) => {
            let want = normalise(key, &serde_json::from_str::<Value>(j).unwrap());
            // `hidden` may be an empty list or unset
            let g2 = if key.kind == Kind::Hidden && got[key.name].is_null() { json!([]) } else { g.clone() };
            if g2 != want {
              let other = supplied.iter().find(|(_, _, v)| normalise(key, v) == g);
              let class = match other {
                Some((k2, _, _)) => format!("crosswire/{}/takes-value-of-{}", key.name, KEYS[*k2].name),
                None => format!("default/{}", key.name),
              };
              viol.push((
                class,
                format!("{} = {g} although no source supplies it (default {want}); {}", key.name, describe()),
                replay.clone(),
              ));
            }
          }
          Dflt::Derived => {
            if let Some((k2, _, _)) = supplied.iter().find(|(k2, _, v)| *k2 != ki && *v == g) {
              viol.push((
                format!("crosswire/{}/takes-value-of-{}", key.name, KEYS[*k2].name),
                format!("{} = {g}, the value supplied for {}; {}", key.name, KEYS[*k2].name, describe()),
                replay.clone(),
              ));
            }
          }
        }
      }
    }
  }
}

/// Adds the partner of a username/password key (merge insists on pairs).
fn with_companions(mut entries: Vec<Entry>) -> Vec<Entry> {
  for (a, b) in [
    ("bitcoin_rpc_username", "bitcoin_rpc_password"),
    ("bitcoin_rpc_password", "bitcoin_rpc_username"),
    ("server_username", "server_password"),
    ("server_password", "server_username"),
  ] {
    let (ia, ib) = (key_index(a), key_index(b));
    if entries.iter().any(|e| e.key == ia) && !entries.iter().any(|e| e.key == ib) {
      entries.push(entry(ib, 2));
    }
  }
  entries
}

fn subsets(srcs: &[usize]) -> Vec<Vec<usize>> {
  let mut out = Vec::new();
  for mask in 1u32..(1 << srcs.len()) {
    out.push(
      srcs
        .iter()
        .enumerate()
        .filter(|(i, _)| mask & (1 << i) != 0)
        .map(|(_, s)| *s)
        .collect(),
    );
  }
  out
}

/// All cases whose key under test is KEYS[ki].
fn cases_for_key(ki: usize) -> Vec<Vec<Entry>> {
  let key = &KEYS[ki];
  let mut cases = Vec::new();
  for subset in subsets(&sources(key)) {
    let base: Vec<Entry> = subset.iter().map(|s| entry(ki, *s)).collect();
    cases.push(with_companions(base.clone()));
    for (k2, key2) in KEYS.iter().enumerate() {
      if k2 == ki || matches!(key2.kind, Kind::ConfigFile | Kind::ConfigDir) {
        continue;
      }
      // the marker key cannot be crossed with config-file selection
      if matches!(key.kind, Kind::ConfigFile | Kind::ConfigDir) && key2.name == MARKER_KEY {
        continue;
      }
      for s2 in sources(key2) {
        let mut c = base.clone();
        c.push(entry(k2, s2));
        cases.push(with_companions(c));
      }
    }
    // explicit "off" spellings of switches and alternative chain spellings
    if key.kind == Kind::Bool {
      for s in sources(key) {
        if s == 0 || subset.contains(&s) {
          continue;
        }
        let mut c = base.clone();
        c.push(Entry { key: ki, src: s, val: if s == 1 { "".into() } else { "false".into() }, spelling: None });
        cases.push(c);
      }
    }
    if key.kind == Kind::Chain && subset.contains(&0) {
      let spellings: [(&str, &[&str]); 9] = [
        ("signet", &["--signet"]),
        ("signet", &["-s"]),
        ("regtest", &["--regtest"]),
        ("regtest", &["-r"]),
        ("testnet", &["--testnet"]),
        ("testnet", &["-t"]),
        ("testnet4", &["--testnet4"]),
        ("testnet4", &["--chain", "testnet4"]),
        ("mainnet", &["--chain", "main"]),
      ];
      for (chain, sp) in spellings {
        let mut c: Vec<Entry> = Vec::new();
        let others = ["mainnet", "signet", "regtest", "testnet", "testnet4"];
        let mut pool = others.iter().filter(|o| **o != chain);
        for s in &subset {
          if *s == 0 {
            c.push(Entry {
              key: ki,
              src: 0,
              val: chain.into(),
              spelling: Some(sp.iter().map(|x| x.to_string()).collect()),
            });
          } else {
            c.push(Entry { key: ki, src: *s, val: pool.next().unwrap().to_string(), spelling: None });
          }
        }
        // data_dir from the config file shows the chain-dependent sub-directory
        c.push(entry(key_index("data_dir"), 2));
        cases.push(c);
      }
    }
  }
  // all-off switch
  if key.kind == Kind::Bool {
    cases.push(vec![
      Entry { key: ki, src: 1, val: "".into(), spelling: None },
      Entry { key: ki, src: 2, val: "false".into(), spelling: None },
    ]);
  }
  cases
}

pub fn run(ctx: &Ctx) -> Report {
  let mut report = Report::new("C36", &ctx.tier, "exploration");
  let scratch = util::Scratch::new("c36");

  if let Some(path) = &ctx.replay {
    let v: Value =
      serde_json::from_str(&std::fs::read_to_string(path).expect("read replay")).expect("json");
    let entries = entries_from_json(&v["replay"]["entries"]);
    let mut stats = Stats::default();
    let mut viol = Vec::new();
    run_case(&scratch.sub("replay"), &entries, &mut stats, &mut viol);
    for (c, w, rp) in viol {
      report.violation(c, w, rp);
    }
    report.set("evaluations", stats.merges);
    report.set("distinct_nontrivial", stats.keys_compared);
    report.set("rule", "replay of one recorded source assignment");
    return report;
  }

  let mut all_cases: Vec<Vec<Entry>> = Vec::new();
  let mut per_key = serde_json::Map::new();
  for ki in 0..KEYS.len() {
    let c = cases_for_key(ki);
    per_key.insert(KEYS[ki].name.into(), json!(c.len()));
    all_cases.extend(c);
  }
  // the empty assignment: every default
  all_cases.push(Vec::new());
  // thorough: additionally every key from its highest source at once, its lowest at once,
  // and all pairs of keys from all pairs of sources
  if ctx.thorough() {
    for a in 0..KEYS.len() {
      for b in (a + 1)..KEYS.len() {
        if matches!(KEYS[a].kind, Kind::ConfigFile | Kind::ConfigDir)
          || matches!(KEYS[b].kind, Kind::ConfigFile | Kind::ConfigDir)
        {
          continue;
        }
        for sa in subsets(&sources(&KEYS[a])) {
          for sb in subsets(&sources(&KEYS[b])) {
            if sa.len() < 2 || sb.len() < 2 {
              continue; // single-source crossings are already in the quick space
            }
            let mut c: Vec<Entry> = sa.iter().map(|s| entry(a, *s)).collect();
            c.extend(sb.iter().map(|s| entry(b, *s)));
            all_cases.push(with_companions(c));
          }
        }
      }
    }
    for pick in 0..3usize {
      // every key at once; pick = 0: every source, 1: env+config, 2: config only
      let mut c = Vec::new();
      for (ki, key) in KEYS.iter().enumerate() {
        if matches!(key.kind, Kind::ConfigFile | Kind::ConfigDir) {
          continue;
        }
        for s in sources(key) {
          if s >= pick {
            c.push(entry(ki, s));
          }
        }
      }
      all_cases.push(c);
    }
  }

  let per = 64usize;
  let chunks = all_cases.len().div_ceil(per);
  let (res, _) = util::par_map(
    chunks,
    None,
    |w| scratch.sub(&format!("w{w}")),
    |dir, i| {
      let mut stats = Stats::default();
      let mut viol = Vec::new();
      for case in &all_cases[i * per..((i + 1) * per).min(all_cases.len())] {
        run_case(dir.as_path(), case, &mut stats, &mut viol);
      }
      (stats, viol)
    },
  );
  let mut stats = Stats::default();
  let mut viols: Vec<Viol> = Vec::new();
  for r in res.into_iter().flatten() {
    let (st, vi) = r;
    stats.merges += st.merges;
    stats.merge_errors += st.merge_errors;
    stats.keys_compared += st.keys_compared;
    for i in 0..4 {
      stats.by_winner[i] += st.by_winner[i];
    }
    stats.bool_on += st.bool_on;
    stats.bool_off += st.bool_off;
    for (k, n) in st.hidden_sizes {
      *stats.hidden_sizes.entry(k).or_default() += n;
    }
    stats.cases.extend(st.cases);
    viols.extend(vi);
  }
  // smallest assignment first within each class
  viols.sort_by_key(|v| v.2["entries"].as_array().map(|a| a.len()).unwrap_or(0));
  for (c, w, rp) in viols {
    report.violation(c, w, rp);
  }

  report.set("evaluations", stats.merges);
  report.set("distinct_nontrivial", stats.cases.len() as u64 - 1);
  report.set(
    "rule",
    "one case = one source assignment (set of (key, source, value) triples) run through Settings::merge; \
     distinctness measured with a set of the serialised assignments; non-trivial = all but the empty assignment",
  );
  report.set("keys", KEYS.len() as u64);
  report.set("cases_per_key_under_test", Value::Object(per_key));
  report.set("merge_errors", stats.merge_errors);
  report.set("key_comparisons", stats.keys_compared);
  report.set(
    "comparisons_by_expected_winner",
    json!({"flag": stats.by_winner[0], "env": stats.by_winner[1], "config": stats.by_winner[2], "default": stats.by_winner[3]}),
  );
  report.set("switch_expected_on", stats.bool_on);
  report.set("switch_expected_off", stats.bool_off);
  report.set(
    "hidden_expected_union_sizes",
    json!(stats.hidden_sizes.iter().map(|(k, v)| (k.to_string(), *v)).collect::<BTreeMap<_, _>>()),
  );
  report.set("exhaustive", true);
  report.set(
    "space",
    "27 setting keys; for each key every non-empty subset of its sources (flag, ORD_ variable, config file) with \
     pairwise distinct values, alone and crossed with every other key from each single source; switches also \
     with explicit off spellings (empty variable, `false` in the file); chain also through --signet/-s/--regtest/\
     -r/--testnet/-t/--testnet4/--chain X; config and config_dir through the file that ends up loaded; \
     thorough adds all pairs of keys with all multi-source subsets and three all-keys assignments",
  );
  let ci = cases_for_key(key_index("commit_interval"));
  report.sample(json!({"case": entries_json(&ci[ci.len() - 2])}));
  report.sample(json!({"case": entries_json(cases_for_key(key_index("hidden")).last().unwrap())}));
  report.sample(json!({"case": entries_json(cases_for_key(key_index("config")).last().unwrap())}));
  report.assume(
    "Settings::merge receives the ORD_ variables as a map with the prefix removed, as Settings::load builds it; \
     the process environment itself is not modified",
  );
  report.assume("defaults derived from other settings or the machine (paths, rpc url, cache size) are not compared by value");
  report
}
