//! E7: explorer server checks (C18 JSON / recursive endpoints, C19 content).
//!
//! A "zoo" chain is built by the harness, indexed by a real `Index`, and a real
//! `ord server` (`Server::run`, in-process, `--no-sync`) is started over it;
//! every object x route is requested over loopback HTTP.

pub mod content;
pub mod json;

use {
  crate::{
    idx::{self, IndexCfg},
    refmodel::sats::subsidy,
    txkit::{self, Spk},
    util::Scratch,
    world::World,
  },
  bitcoin::{Network, OutPoint, ScriptBuf, Transaction, TxOut, Witness},
  clap::Parser,
  ord::{Index, InscriptionId, options::Options, settings::Settings},
  std::{
    collections::BTreeMap,
    net::SocketAddr,
    path::PathBuf,
    sync::Arc,
    time::Duration,
  },
};

pub const FUND: u64 = 10_000;

/// Chain builder: funding slices, queued transactions, blocks.
pub struct Zoo {
  pub world: World,
  pub funding: Vec<OutPoint>,
  pub next_fund: usize,
  pub pending: Vec<Transaction>,
  pub pending_fees: u64,
  /// value of every output the zoo created (for fee computation)
  pub values: BTreeMap<OutPoint, u64>,
}

impl Zoo {
  pub fn new(slices: usize) -> Self {
    let mut world = World::new(Network::Regtest);
    let cb = |h: u32| txkit::coinbase(h, 0, vec![txkit::txout(subsidy(h), Spk::A.script())]);
    world.push_block(vec![cb(1)]);
    world.push_block(vec![cb(2)]);
    let src = OutPoint { txid: world.blocks[1].txdata[0].compute_txid(), vout: 0 };
    let mut outs: Vec<TxOut> = (0..slices).map(|_| txkit::txout(FUND, Spk::A.script())).collect();
    outs.push(txkit::txout(5_000_000_000 - FUND * slices as u64, Spk::B.script()));
    let fan = txkit::tx(vec![txkit::txin(src, Witness::new())], outs);
    let txid = fan.compute_txid();
    let mut values = BTreeMap::new();
    let funding: Vec<OutPoint> = (0..slices as u32)
      .map(|v| {
        let op = OutPoint { txid, vout: v };
        values.insert(op, FUND);
        op
      })
      .collect();
    world.push_block(vec![cb(3), fan]);
    Self { world, funding, next_fund: 0, pending: Vec::new(), pending_fees: 0, values }
  }

  pub fn fund(&mut self) -> OutPoint {
    let op = self.funding[self.next_fund];
    self.next_fund += 1;
    op
  }

  /// Queues a transaction spending `inputs` (outpoint, witness script bytes or empty) into `outputs`.
  pub fn tx(&mut self, inputs: Vec<(OutPoint, Vec<u8>)>, outputs: Vec<(u64, ScriptBuf)>) -> Transaction {
    let total_in: u64 = inputs.iter().map(|(op, _)| self.values[op]).sum();
    let total_out: u64 = outputs.iter().map(|(v, _)| *v).sum();
    assert!(total_out <= total_in, "zoo transaction creates value");
    let tx = txkit::tx(
      inputs
        .iter()
        .map(|(op, script)| txkit::txin(*op, if script.is_empty() { Witness::new() } else { txkit::tapscript_witness(script) }))
        .collect(),
      outputs.iter().map(|(v, s)| txkit::txout(*v, s.clone())).collect(),
    );
    let txid = tx.compute_txid();
    for (i, (v, _)) in outputs.iter().enumerate() {
      self.values.insert(OutPoint { txid, vout: i as u32 }, *v);
    }
    self.pending_fees += total_in - total_out;
    self.pending.push(tx.clone());
    tx
  }

  /// Reveal of `envelopes` (script bytes each) on a fresh funding slice; returns the ids.
  pub fn reveal(&mut self, envelopes: &[Vec<u8>], script_out: ScriptBuf) -> (Transaction, Vec<InscriptionId>) {
    let op = self.fund();
    let script: Vec<u8> = envelopes.concat();
    let tx = self.tx(vec![(op, script)], vec![(FUND, script_out)]);
    let txid = tx.compute_txid();
    let ids = (0..envelopes.len() as u32).map(|i| InscriptionId { txid, index: i }).collect();
    (tx, ids)
  }

  pub fn mine(&mut self) {
    let h = self.world.height() + 1;
    let mut all = vec![txkit::coinbase(h, 0, vec![txkit::txout(subsidy(h) + self.pending_fees, Spk::A.script())])];
    all.append(&mut self.pending);
    self.pending_fees = 0;
    self.world.push_block(all);
  }
}

pub fn env(fields: &[(u8, Vec<u8>)], body: Option<&[u8]>) -> Vec<u8> {
  let f: Vec<(Vec<u8>, Vec<u8>)> = fields.iter().map(|(t, v)| (vec![*t], v.clone())).collect();
  txkit::envelope_script(&f, body).into_bytes()
}

pub fn id_value(id: InscriptionId) -> Vec<u8> {
  use bitcoin::hashes::Hash;
  let mut v = id.txid.to_byte_array().to_vec();
  let idx = id.index.to_le_bytes();
  let mut n = 4;
  while n > 0 && idx[n - 1] == 0 {
    n -= 1;
  }
  v.extend_from_slice(&idx[..n]);
  v
}

// ---------------------------------------------------------------------------

#[derive(Clone, Debug, Default)]
pub struct SrvCfg {
  pub csp_origin: Option<String>,
  pub decompress: bool,
  pub hidden: Vec<InscriptionId>,
  pub credentials: Option<(String, String)>,
  pub disable_json_api: bool,
}

impl SrvCfg {
  pub fn label(&self) -> String {
    format!(
      "csp_origin={:?} decompress={} hidden={} auth={} json_api={}",
      self.csp_origin,
      self.decompress,
      self.hidden.len(),
      self.credentials.is_some(),
      !self.disable_json_api
    )
  }
}

pub struct Srv {
  pub url: String,
  pub index: Arc<Index>,
  handle: axum_server::Handle<SocketAddr>,
  thread: Option<std::thread::JoinHandle<()>>,
}

impl Srv {
  /// Starts `ord server` over the index in `dir` (which must have been built with `icfg`).
  pub fn start(world: &World, dir: &std::path::Path, icfg: &IndexCfg, scfg: &SrvCfg) -> anyhow::Result<Srv> {
    let mut global = icfg.args(world, dir);
    global.push("--integration-test".into());
    if let Some((u, p)) = &scfg.credentials {
      global.extend(["--server-username".into(), u.clone(), "--server-password".into(), p.clone()]);
    }
    let mut server_args: Vec<String> = vec!["server".into(), "--address".into(), "127.0.0.1".into(), "--http-port".into(), "0".into(), "--no-sync".into()];
    if let Some(o) = &scfg.csp_origin {
      server_args.extend(["--csp-origin".into(), o.clone()]);
    }
    if scfg.decompress {
      server_args.push("--decompress".into());
    }
    if scfg.disable_json_api {
      server_args.push("--disable-json-api".into());
    }
    let all: Vec<String> = global.iter().cloned().chain(server_args).collect();
    let (_, server) = ord::parse_ord_server_args(&all.join(" "));
    let options = Options::try_parse_from(&global)?;
    let mut envmap: BTreeMap<String, String> = BTreeMap::new();
    envmap.insert("INTEGRATION_TEST".into(), "1".into());
    if !scfg.hidden.is_empty() {
      envmap.insert("HIDDEN".into(), scfg.hidden.iter().map(|i| i.to_string()).collect::<Vec<_>>().join(" "));
    }
    let settings = Settings::merge(options, envmap)?;
    ord::index::verif::knobs::set_first_inscription_height(None);
    let index = Arc::new(Index::open(&settings)?);
    let handle = axum_server::Handle::new();
    let (tx, rx) = std::sync::mpsc::channel();
    let (index2, handle2) = (index.clone(), handle.clone());
    let thread = std::thread::spawn(move || {
      let _ = server.run(settings, index2, handle2, Some(tx));
    });
    let port = rx.recv_timeout(Duration::from_secs(120)).map_err(|_| anyhow::anyhow!("server did not report its port"))?;
    Ok(Srv { url: format!("http://127.0.0.1:{port}"), index, handle, thread: Some(thread) })
  }
}

impl Drop for Srv {
  fn drop(&mut self) {
    self.handle.shutdown();
    if let Some(t) = self.thread.take() {
      let _ = t.join();
    }
    // stop the polling index thread (process-global flag) and wait until it released the index
    ord::shut_down();
    for _ in 0..100 {
      if Arc::strong_count(&self.index) <= 1 {
        break;
      }
      std::thread::sleep(Duration::from_millis(20));
    }
    ord::cancel_shutdown();
  }
}

pub struct Resp {
  pub status: u16,
  pub headers: Vec<(String, Vec<u8>)>,
  pub body: Vec<u8>,
}

impl Resp {
  pub fn header(&self, name: &str) -> Option<String> {
    self.headers.iter().find(|(k, _)| k.eq_ignore_ascii_case(name)).map(|(_, v)| String::from_utf8_lossy(v).to_string())
  }
  pub fn headers_named(&self, name: &str) -> Vec<String> {
    self.headers.iter().filter(|(k, _)| k.eq_ignore_ascii_case(name)).map(|(_, v)| String::from_utf8_lossy(v).to_string()).collect()
  }
  pub fn json(&self) -> Option<serde_json::Value> {
    serde_json::from_slice(&self.body).ok()
  }
}

pub struct Http {
  client: reqwest::blocking::Client,
}

impl Http {
  pub fn new() -> Self {
    Self {
      client: reqwest::blocking::Client::builder().no_brotli().no_gzip().no_proxy().redirect(reqwest::redirect::Policy::none()).timeout(Duration::from_secs(120)).build().unwrap(),
    }
  }

  pub fn get(&self, url: &str, headers: &[(&str, &str)]) -> Result<Resp, String> {
    let mut req = self.client.get(url);
    for (k, v) in headers {
      req = req.header(*k, *v);
    }
    let resp = req.send().map_err(|e| format!("request {url}: {e}"))?;
    let status = resp.status().as_u16();
    let headers = resp.headers().iter().map(|(k, v)| (k.as_str().to_string(), v.as_bytes().to_vec())).collect();
    let body = resp.bytes().map_err(|e| format!("body {url}: {e}"))?.to_vec();
    Ok(Resp { status, headers, body })
  }

  pub fn get_json(&self, url: &str) -> Result<Resp, String> {
    self.get(url, &[("accept", "application/json")])
  }
}

/// Indexes the zoo's chain with `icfg` in a sub-directory of `scratch`.
pub fn index_zoo(world: &World, scratch: &Scratch, name: &str, icfg: &IndexCfg) -> anyhow::Result<PathBuf> {
  let dir = scratch.sub(name);
  let index = idx::open(world, &dir, icfg)?;
  crate::util::watched(|| index.update())?;
  drop(index);
  Ok(dir)
}
