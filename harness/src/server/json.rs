//! C18: explorer JSON and recursive endpoints agree with the index (stub, filled in below).
