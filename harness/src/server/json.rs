//! C18: explorer JSON and recursive endpoints agree with the index.
//!
//! A "relations" zoo (parents with 99 / 100 / 101 children revealed on one sat in one
//! block, children with two parents, reinscriptions, lost / unbound / burned
//! inscriptions, runes on outputs, three scripts) is indexed with every index
//! enabled and served; for every object every route is requested and compared
//! field by field with direct `Index` queries and the chain data.

use {
  super::{FUND, Http, Srv, SrvCfg, Zoo, env, id_value, index_zoo},
  crate::{
    Ctx,
    chain::{inscriptions::observe, runes::runestone_script},
    evidence::Report,
    idx::{Dump, IndexCfg},
    txkit::{self, Spk},
    util::Scratch,
  },
  bitcoin::{Address, Network, OutPoint, Txid},
  ord::{InscriptionId, api},
  ordinals::{Charm, Rune, Sat, SatPoint},
  serde_json::{Value, json},
  std::collections::{BTreeMap, BTreeSet},
};

pub struct RelZoo {
  pub zoo: Zoo,
  pub parent: InscriptionId,
}

pub fn build(children: usize, boundary_groups: &[usize]) -> RelZoo {
  let mut zoo = Zoo::new(80);
  let png = |extra: &[(u8, Vec<u8>)], body: &[u8]| {
    let mut f = vec![(1u8, b"image/png".to_vec())];
    f.extend_from_slice(extra);
    env(&f, Some(body))
  };
  // parent P0 and a second parent P1
  let (t0, ids0) = zoo.reveal(&[png(&[], b"P0")], Spk::B.script());
  let (t1, ids1) = zoo.reveal(&[png(&[], b"P1")], Spk::B.script());
  let (p0, p1) = (ids0[0], ids1[0]);
  // plain inscriptions to A and C, an unbound one, one sent to fees (lost via underpaying coinbase below), one burned
  zoo.reveal(&[png(&[], b"plainA")], Spk::A.script());
  zoo.reveal(&[png(&[], b"plainC"), png(&[], b"second-in-same-input")], Spk::C.script());
  zoo.reveal(&[png(&[(22, vec![1])], b"unbound")], Spk::A.script());
  zoo.reveal(&[png(&[], b"burned")], Spk::OpReturn.script());
  zoo.mine();
  // page-boundary groups: parents with exactly 99 and 100 children, each group revealed in one
  // transaction alone in its block (so the block, the parent and the parent's sat all sit on a page boundary)
  for k in boundary_groups {
    let (tp, idp) = zoo.reveal(&[png(&[], format!("parent-of-{k}").as_bytes())], Spk::B.script());
    zoo.mine();
    let pout = OutPoint { txid: tp.compute_txid(), vout: 0 };
    let mut script = Vec::new();
    for i in 0..*k {
      script.extend(png(&[(3, id_value(idp[0]))], format!("g{k}c{i}").as_bytes()));
    }
    zoo.tx(vec![(pout, script)], vec![(FUND, Spk::B.script())]);
    zoo.mine();
  }
  // `children` children of P0 in ONE transaction spending P0's output: all on P0's sat
  let p0_out = OutPoint { txid: t0.compute_txid(), vout: 0 };
  let mut script = Vec::new();
  for i in 0..children {
    script.extend(png(&[(3, id_value(p0))], format!("child{i}").as_bytes()));
  }
  let kids = zoo.tx(vec![(p0_out, script)], vec![(FUND, Spk::B.script())]);
  // a child of both parents (spends P1's output and the funding)
  let p1_out = OutPoint { txid: t1.compute_txid(), vout: 0 };
  let f = zoo.fund();
  zoo.tx(vec![(f, png(&[(3, id_value(p0)), (3, id_value(p1))], b"two-parents-one-valid")), (p1_out, vec![])], vec![(FUND, Spk::C.script()), (FUND, Spk::B.script())]);
  zoo.mine();
  // child of P0 and P1 with both spent: spend kids output (holds P0) and P1's new output
  let kids_out = OutPoint { txid: kids.compute_txid(), vout: 0 };
  let last = zoo.world.blocks.last().unwrap().txdata.last().unwrap().compute_txid();
  let p1_new = OutPoint { txid: last, vout: 1 };
  zoo.tx(vec![(kids_out, png(&[(3, id_value(p0)), (3, id_value(p1))], b"child-of-both")), (p1_new, vec![])], vec![(FUND, Spk::B.script()), (FUND, Spk::A.script())]);
  // runes: unnamed etching with premine, split over two outputs by an edict
  let f = zoo.fund();
  let rs = runestone_script(&[2, 1, 6, 1000, 0, 0, 0, 300, 1]);
  zoo.tx(vec![(f, vec![])], vec![(FUND / 2, Spk::A.script()), (FUND / 2, Spk::C.script()), (0, rs)]);
  // an inscription that goes to fees entirely
  let f = zoo.fund();
  zoo.tx(vec![(f, png(&[], b"fee-spent"))], vec![(0, Spk::OpReturn.script())]);
  zoo.mine();
  zoo.mine();
  // past the jubilee (regtest height 110): inscriptions of cursed kinds are vindicated there
  while zoo.world.height() < 110 {
    zoo.mine();
  }
  zoo.reveal(&[png(&[], b"post-jubilee-first"), png(&[], b"post-jubilee-second-in-same-input")], Spk::C.script());
  zoo.reveal(&[png(&[(2, vec![0x01])], b"post-jubilee-pointer")], Spk::A.script());
  let (f1, f2) = (zoo.fund(), zoo.fund());
  zoo.tx(vec![(f1, vec![]), (f2, png(&[], b"post-jubilee-second-input"))], vec![(FUND, Spk::B.script()), (FUND, Spk::A.script())]);
  zoo.mine();
  zoo.mine();
  RelZoo { zoo, parent: p0 }
}

struct Ck<'a> {
  report: &'a mut Report,
  requests: u64,
  cases: BTreeSet<String>,
  outcomes: BTreeMap<String, u64>,
}

impl Ck<'_> {
  fn fail(&mut self, class: &str, what: String, path: &str) {
    self.report.violation(class.to_string(), what, json!({"path": path}));
  }
}

fn get<T: serde::de::DeserializeOwned>(http: &Http, srv: &Srv, path: &str, ck: &mut Ck) -> Option<T> {
  ck.requests += 1;
  ck.cases.insert(path.to_string());
  match http.get_json(&format!("{}{}", srv.url, path)) {
    Err(e) => {
      ck.fail("machinery/http", e, path);
      None
    }
    Ok(r) => {
      *ck.outcomes.entry(format!("{}", r.status)).or_default() += 1;
      if r.status != 200 {
        ck.fail("route/unexpected-status", format!("GET {path} answers {}: {}", r.status, String::from_utf8_lossy(&r.body).chars().take(160).collect::<String>()), path);
        return None;
      }
      match serde_json::from_slice::<T>(&r.body) {
        Ok(v) => Some(v),
        Err(e) => {
          ck.fail("route/undecodable-json", format!("GET {path}: {e}: {}", String::from_utf8_lossy(&r.body).chars().take(200).collect::<String>()), path);
          None
        }
      }
    }
  }
}

fn status_of(http: &Http, srv: &Srv, path: &str, ck: &mut Ck) -> u16 {
  ck.requests += 1;
  ck.cases.insert(path.to_string());
  http.get_json(&format!("{}{}", srv.url, path)).map(|r| r.status).unwrap_or(0)
}

pub fn run(ctx: &Ctx) -> Report {
  let mut report = Report::new("C18", &ctx.tier, "exploration");
  let children = if ctx.thorough() { 301 } else { 201 };
  let groups: Vec<usize> = if ctx.thorough() { vec![99, 100, 199, 200] } else { vec![99, 100] };
  let rz = build(children, &groups);
  let scratch = Scratch::new("srv-json");
  let icfg = IndexCfg::all();
  let dir = match index_zoo(&rz.zoo.world, &scratch, "idx", &icfg) {
    Ok(d) => d,
    Err(e) => {
      report.violation("machinery/index", format!("indexing the zoo failed: {e:#}"), json!({}));
      return report;
    }
  };
  let srv = match Srv::start(&rz.zoo.world, &dir, &icfg, &SrvCfg::default()) {
    Ok(s) => s,
    Err(e) => {
      report.violation("machinery/server-start", format!("{e:#}"), json!({}));
      return report;
    }
  };
  let http = Http::new();
  let index = srv.index.clone();
  let dump = Dump::take(&index).expect("dump");
  let obs = observe(&index, &dump).expect("observe");
  let by_seq: BTreeMap<u32, InscriptionId> = obs.iter().map(|o| (o.seq, o.id)).collect();
  let children_rows: Vec<(u32, u32)> = dump
    .table("SEQUENCE_NUMBER_TO_CHILDREN")
    .iter()
    .map(|(k, v)| (u32::from_le_bytes(k[..4].try_into().unwrap()), u32::from_le_bytes(v[..4].try_into().unwrap())))
    .collect();
  let chain_txs: BTreeMap<Txid, bitcoin::Transaction> = rz.zoo.world.blocks.iter().flat_map(|b| b.txdata.iter().map(|t| (t.compute_txid(), t.clone()))).collect();
  let mut ck = Ck { report: &mut report, requests: 0, cases: BTreeSet::new(), outcomes: BTreeMap::new() };
  let unbound = ord::unbound_outpoint();

  // ---------------- inscriptions ----------------
  for o in &obs {
    let id = o.id;
    let satpoint = o.satpoint.map(|(op, off)| SatPoint { outpoint: op, offset: off });
    let kids: Vec<InscriptionId> = children_rows.iter().filter(|(p, _)| *p == o.seq).map(|(_, c)| by_seq[c]).collect();
    let parents: Vec<InscriptionId> = o.parents.iter().map(|p| by_seq[p]).collect();
    let txout = satpoint.and_then(|sp| chain_txs.get(&sp.outpoint.txid).and_then(|t| t.output.get(sp.outpoint.vout as usize).cloned()));
    let want_value = txout.as_ref().map(|t| t.value.to_sat());
    let want_address = txout.as_ref().and_then(|t| Address::from_script(&t.script_pubkey, Network::Regtest).ok()).map(|a| a.to_string());
    let mut want_charms = o.charms;
    if satpoint.map(|sp| sp.outpoint == OutPoint::null()).unwrap_or(false) {
      Charm::Lost.set(&mut want_charms);
    }
    for path in [format!("/inscription/{id}"), format!("/inscription/{}", o.number)] {
      let Some(j) = get::<api::Inscription>(&http, &srv, &path, &mut ck) else { continue };
      let mut diffs = Vec::new();
      if j.id != id {
        diffs.push(format!("id {} != {id}", j.id));
      }
      if j.number != o.number {
        diffs.push(format!("number {} != {}", j.number, o.number));
      }
      if j.height != o.height {
        diffs.push(format!("height {} != {}", j.height, o.height));
      }
      if j.fee != o.fee {
        diffs.push(format!("fee {} != {}", j.fee, o.fee));
      }
      if j.sat.map(|s| s.0) != o.sat {
        diffs.push(format!("sat {:?} != {:?}", j.sat, o.sat));
      }
      if Some(j.satpoint) != satpoint {
        diffs.push(format!("satpoint {} != {:?}", j.satpoint, satpoint));
      }
      if j.charms != Charm::charms(want_charms) {
        diffs.push(format!("charms {:?} != {:?}", j.charms, Charm::charms(want_charms)));
      }
      if j.child_count != kids.len() as u64 || j.children != kids.iter().take(4).cloned().collect::<Vec<_>>() {
        diffs.push(format!("children {:?}/{} != first four of {} stored children", j.children, j.child_count, kids.len()));
      }
      if j.parents != parents.iter().take(4).cloned().collect::<Vec<_>>() {
        diffs.push(format!("parents {:?} != {:?}", j.parents, parents));
      }
      if j.next != by_seq.get(&(o.seq + 1)).cloned() || j.previous != o.seq.checked_sub(1).and_then(|s| by_seq.get(&s).cloned()) {
        diffs.push("next/previous do not follow sequence order".to_string());
      }
      if satpoint.map(|sp| sp.outpoint != unbound && sp.outpoint != OutPoint::null()).unwrap_or(false) {
        if j.value != want_value {
          diffs.push(format!("value {:?} != {:?}", j.value, want_value));
        }
        if j.address != want_address {
          diffs.push(format!("address {:?} != {:?}", j.address, want_address));
        }
      } else if j.value.is_some() {
        diffs.push(format!("value {:?} reported for an inscription without a real output", j.value));
      }
      if !diffs.is_empty() {
        ck.fail("inscription/json-differs-from-index", format!("GET {path}: {}", diffs.join("; ")), &path);
      }
    }
    let path = format!("/r/inscription/{id}");
    if let Some(j) = get::<api::InscriptionRecursive>(&http, &srv, &path, &mut ck) {
      let ok = j.id == id
        && j.number == o.number
        && j.height == o.height
        && j.fee == o.fee
        && j.sat.map(|s| s.0) == o.sat
        && Some(j.satpoint) == satpoint
        && Some(j.output) == satpoint.map(|s| s.outpoint)
        && j.charms == Charm::charms(want_charms);
      if !ok {
        ck.fail("inscription/recursive-json-differs-from-index", format!("GET {path}: {j:?} vs stored seq {} number {} satpoint {:?}", o.seq, o.number, satpoint), &path);
      }
    }
  }

  // ---------------- children / parents listings with pagination ----------------
  let paged = |base: &str, page: usize| if page == 0 && false { base.to_string() } else { format!("{base}/{page}") };
  for o in &obs {
    let kids: Vec<InscriptionId> = children_rows.iter().filter(|(p, _)| *p == o.seq).map(|(_, c)| by_seq[c]).collect();
    let parents: Vec<InscriptionId> = o.parents.iter().map(|p| by_seq[p]).collect();
    if kids.is_empty() && parents.is_empty() {
      continue;
    }
    // children ids
    let mut all = Vec::new();
    let mut page = 0;
    loop {
      let path = paged(&format!("/r/children/{}", o.id), page);
      let Some(j) = get::<api::Children>(&http, &srv, &path, &mut ck) else { break };
      if j.ids.len() > 100 || j.page != page {
        ck.fail("pagination/page-size-or-number", format!("GET {path}: {} ids, page {}", j.ids.len(), j.page), &path);
      }
      all.extend(j.ids.clone());
      let expect_more = all.len() < kids.len();
      if j.more != expect_more {
        ck.fail("pagination/more-flag", format!("GET {path}: more={} but {} of {} children listed", j.more, all.len(), kids.len()), &path);
      }
      if !j.more || page > 5 {
        break;
      }
      page += 1;
    }
    if all != kids {
      ck.fail("children/listing-differs-from-index", format!("/r/children/{} pages list {} ids, stored children {}", o.id, all.len(), kids.len()), &format!("/r/children/{}", o.id));
    }
    if page == 0 {
      // unpaginated form equals page 0
      let path = format!("/r/children/{}", o.id);
      if let Some(j) = get::<api::Children>(&http, &srv, &path, &mut ck)
        && j.ids != kids.iter().take(100).cloned().collect::<Vec<_>>()
      {
        ck.fail("children/listing-differs-from-index", format!("GET {path} differs from the first 100 stored children"), &path);
      }
    }
    // children inscriptions (full objects)
    let mut all = Vec::new();
    let mut page = 0;
    loop {
      let path = format!("/r/children/{}/inscriptions/{page}", o.id);
      let Some(j) = get::<api::ChildInscriptions>(&http, &srv, &path, &mut ck) else { break };
      all.extend(j.children.iter().map(|c| (c.id, c.number, c.satpoint)));
      if j.more != (all.len() < kids.len()) {
        ck.fail("pagination/more-flag", format!("GET {path}: more={} with {} of {}", j.more, all.len(), kids.len()), &path);
      }
      if !j.more || page > 5 {
        break;
      }
      page += 1;
    }
    let want: Vec<(InscriptionId, i32, SatPoint)> = kids
      .iter()
      .map(|k| {
        let ko = obs.iter().find(|x| x.id == *k).unwrap();
        (ko.id, ko.number, ko.satpoint.map(|(op, off)| SatPoint { outpoint: op, offset: off }).unwrap())
      })
      .collect();
    if all != want {
      ck.fail("children/inscriptions-listing-differs-from-index", format!("/r/children/{}/inscriptions pages differ from stored children", o.id), &format!("/r/children/{}/inscriptions", o.id));
    }
    // parents
    let path = format!("/r/parents/{}", o.id);
    if let Some(j) = get::<Value>(&http, &srv, &path, &mut ck) {
      let ids: Vec<String> = j["ids"].as_array().map(|a| a.iter().map(|x| x.as_str().unwrap_or("").to_string()).collect()).unwrap_or_default();
      if ids != parents.iter().map(|p| p.to_string()).collect::<Vec<_>>() {
        ck.fail("parents/listing-differs-from-index", format!("GET {path}: {ids:?} vs stored {parents:?}"), &path);
      }
    }
    let path = format!("/r/parents/{}/inscriptions", o.id);
    if let Some(j) = get::<api::ParentInscriptions>(&http, &srv, &path, &mut ck) {
      let got: Vec<InscriptionId> = j.parents.iter().map(|p| p.id).collect();
      if got != parents {
        ck.fail("parents/inscriptions-listing-differs-from-index", format!("GET {path}: {got:?} vs stored {parents:?}"), &path);
      }
    }
  }

  // ---------------- outputs ----------------
  let mut outpoints: Vec<OutPoint> = dump.utxo_outpoints();
  outpoints.retain(|o| *o != OutPoint::null() && *o != unbound);
  for op in &outpoints {
    let want_insc = index.get_inscriptions_for_output(*op).ok().flatten().unwrap_or_default();
    let want_runes = index.get_rune_balances_for_output(*op).ok().flatten().unwrap_or_default();
    let want_ranges = index.list(*op).ok().flatten();
    let txout = chain_txs.get(&op.txid).and_then(|t| t.output.get(op.vout as usize).cloned());
    let path = format!("/output/{op}");
    if let Some(j) = get::<api::Output>(&http, &srv, &path, &mut ck) {
      let mut diffs = Vec::new();
      if j.inscriptions.clone().unwrap_or_default() != want_insc {
        diffs.push(format!("inscriptions {:?} != {:?}", j.inscriptions, want_insc));
      }
      if j.runes.clone().unwrap_or_default() != want_runes {
        diffs.push(format!("runes {:?} != {:?}", j.runes, want_runes));
      }
      if j.sat_ranges != want_ranges {
        diffs.push(format!("sat_ranges {:?} != {:?}", j.sat_ranges, want_ranges));
      }
      if let Some(t) = &txout {
        if j.value != t.value.to_sat() || j.script_pubkey != t.script_pubkey {
          diffs.push("value / script differ from the creating transaction".to_string());
        }
      }
      // the node does not keep OP_RETURN outputs in its UTXO set, so they are reported as spent
      let unspendable = txout.as_ref().map(|t| t.script_pubkey.is_op_return()).unwrap_or(false);
      if (j.spent && !unspendable) || !j.indexed || j.outpoint != *op {
        diffs.push(format!("spent={} indexed={} for an unspent indexed output", j.spent, j.indexed));
      }
      if !diffs.is_empty() {
        ck.fail("output/json-differs-from-index", format!("GET {path}: {}", diffs.join("; ")), &path);
      }
    }
    let path = format!("/r/utxo/{op}");
    if let Some(j) = get::<api::UtxoRecursive>(&http, &srv, &path, &mut ck) {
      let ok = j.inscriptions.clone().unwrap_or_default() == want_insc && j.runes.clone().unwrap_or_default() == want_runes && j.sat_ranges == want_ranges && Some(j.value) == txout.as_ref().map(|t| t.value.to_sat());
      if !ok {
        ck.fail("output/recursive-json-differs-from-index", format!("GET {path}: {j:?}"), &path);
      }
    }
  }
  // a spent output is reported as spent
  {
    let spent = rz.zoo.funding[0];
    let path = format!("/output/{spent}");
    if let Some(j) = get::<api::Output>(&http, &srv, &path, &mut ck)
      && !j.spent
    {
      ck.fail("output/spent-output-not-marked-spent", format!("GET {path}: spent=false"), &path);
    }
  }

  // ---------------- per-block listings ----------------
  let tip = index.block_count().unwrap_or(0);
  for h in 0..tip {
    let want = index.get_inscriptions_in_block(h).unwrap_or_default();
    let mut all = Vec::new();
    let mut page = 0u32;
    loop {
      let path = if page == 0 { format!("/inscriptions/block/{h}") } else { format!("/inscriptions/block/{h}/{page}") };
      let Some(j) = get::<api::Inscriptions>(&http, &srv, &path, &mut ck) else { break };
      if j.ids.len() > 100 {
        ck.fail("pagination/page-size-or-number", format!("GET {path}: {} ids", j.ids.len()), &path);
      }
      all.extend(j.ids.clone());
      if j.more != (all.len() < want.len()) {
        ck.fail("pagination/more-flag", format!("GET {path}: more={} with {} of {}", j.more, all.len(), want.len()), &path);
      }
      if !j.more || page > 5 {
        break;
      }
      page += 1;
    }
    if all != want {
      ck.fail("block/inscriptions-listing-differs-from-index", format!("/inscriptions/block/{h}: {} ids, index lists {}", all.len(), want.len()), &format!("/inscriptions/block/{h}"));
    }
    // model cross-check: exactly the inscriptions created at that height, in sequence order
    let by_height: Vec<InscriptionId> = obs.iter().filter(|o| o.height == h).map(|o| o.id).collect();
    if want != by_height {
      ck.fail("block/index-listing-differs-from-entries", format!("height {h}"), &format!("/inscriptions/block/{h}"));
    }
    let path = format!("/block/{h}");
    if let Some(j) = get::<api::Block>(&http, &srv, &path, &mut ck) {
      let hash = index.block_hash(Some(h)).ok().flatten();
      let runes = index.get_runes_in_block(h.into()).unwrap_or_default();
      if Some(j.hash) != hash || j.height != h || j.inscriptions != want.iter().take(100).cloned().collect::<Vec<_>>() && j.inscriptions != want || j.runes != runes {
        ck.fail("block/json-differs-from-index", format!("GET {path}: hash {} inscriptions {} runes {:?}", j.hash, j.inscriptions.len(), j.runes), &path);
      }
    }
    let path = format!("/r/blockhash/{h}");
    if let Some(j) = get::<String>(&http, &srv, &path, &mut ck)
      && Some(j.clone()) != index.block_hash(Some(h)).ok().flatten().map(|x| x.to_string())
    {
      ck.fail("block/hash-differs-from-index", format!("GET {path}: {j}"), &path);
    }
  }
  if let Some(j) = get::<u32>(&http, &srv, "/r/blockheight", &mut ck)
    && j + 1 != tip
  {
    ck.fail("block/height-differs-from-index", format!("/r/blockheight {j}, block count {tip}"), "/r/blockheight");
  }

  // ---------------- sats ----------------
  let sats: BTreeSet<u64> = obs.iter().filter_map(|o| o.sat).collect();
  for sat in &sats {
    let want = index.get_inscription_ids_by_sat(Sat(*sat)).unwrap_or_default();
    // cross-check with entries: inscriptions on this sat in sequence order
    let by_entries: Vec<InscriptionId> = obs.iter().filter(|o| o.sat == Some(*sat)).map(|o| o.id).collect();
    if want != by_entries {
      ck.fail("sat/index-listing-differs-from-entries", format!("sat {sat}: {} vs {}", want.len(), by_entries.len()), &format!("/r/sat/{sat}"));
    }
    let mut all = Vec::new();
    let mut page = 0u64;
    loop {
      let path = if page == 0 { format!("/r/sat/{sat}") } else { format!("/r/sat/{sat}/{page}") };
      let Some(j) = get::<api::SatInscriptions>(&http, &srv, &path, &mut ck) else { break };
      all.extend(j.ids.clone());
      if j.more != (all.len() < want.len()) || j.ids.len() > 100 {
        ck.fail("pagination/more-flag", format!("GET {path}: more={} with {} of {}", j.more, all.len(), want.len()), &path);
      }
      if !j.more || page > 5 {
        break;
      }
      page += 1;
    }
    if all != want {
      ck.fail("sat/listing-differs-from-index", format!("/r/sat/{sat} pages: {} ids, index {}", all.len(), want.len()), &format!("/r/sat/{sat}"));
    }
    let k = want.len() as isize;
    let probes: Vec<isize> = if k > 8 { vec![-(k + 1), -k, -(k - 1), -2, -1, 0, 1, 99, 100, k - 1, k] } else { (-(k + 1)..=k).collect() };
    for i in probes {
      let path = format!("/r/sat/{sat}/at/{i}");
      let expect = if i >= 0 { want.get(i as usize).cloned() } else { (k + i >= 0).then(|| want[(k + i) as usize]) };
      if let Some(j) = get::<api::SatInscription>(&http, &srv, &path, &mut ck)
        && j.id != expect
      {
        ck.fail(if i < 0 { "sat/negative-index-wrong-inscription" } else { "sat/index-wrong-inscription" }, format!("GET {path}: {:?} expected {:?}", j.id, expect), &path);
      }
    }
    let path = format!("/sat/{sat}");
    if let Some(j) = get::<api::Sat>(&http, &srv, &path, &mut ck) {
      let found = index.find(Sat(*sat)).ok().flatten();
      if j.number != *sat || j.inscriptions != want || j.satpoint != found {
        ck.fail("sat/json-differs-from-index", format!("GET {path}: number {} satpoint {:?} (index {:?}) inscriptions {}", j.number, j.satpoint, found, j.inscriptions.len()), &path);
      }
    }
  }

  // ---------------- runes ----------------
  let runes = index.runes().unwrap_or_default();
  if let Some(j) = get::<api::Runes>(&http, &srv, "/runes", &mut ck) {
    let mut want = runes.clone();
    want.reverse();
    if j.entries != want && j.entries != runes {
      ck.fail("runes/listing-differs-from-index", format!("/runes lists {} entries, index {}", j.entries.len(), runes.len()), "/runes");
    }
  }
  for (id, entry) in &runes {
    for path in [format!("/rune/{}", entry.spaced_rune), format!("/rune/{id}"), format!("/rune/{}", entry.spaced_rune.rune)] {
      if let Some(j) = get::<api::Rune>(&http, &srv, &path, &mut ck) {
        let mintable = entry.mintable((tip).into()).is_ok();
        if j.id != *id || j.entry != *entry || j.mintable != mintable {
          ck.fail("rune/json-differs-from-index", format!("GET {path}: id {} mintable {}", j.id, j.mintable), &path);
        }
      }
    }
  }
  let _ = Rune(0);

  // ---------------- addresses ----------------
  for spk in [Spk::A, Spk::B, Spk::C] {
    let address = Address::from_script(&spk.script(), Network::Regtest).unwrap();
    let want_outputs = index.get_address_info(&address).unwrap_or_default();
    let want_set: BTreeSet<OutPoint> = want_outputs.iter().cloned().collect();
    let sat_balance: u64 = want_outputs.iter().filter_map(|o| chain_txs.get(&o.txid).map(|t| t.output[o.vout as usize].value.to_sat())).sum();
    let mut want_insc: Vec<InscriptionId> = Vec::new();
    for o in &want_outputs {
      want_insc.extend(index.get_inscriptions_for_output(*o).ok().flatten().unwrap_or_default());
    }
    let path = format!("/address/{address}");
    if let Some(j) = get::<api::AddressInfo>(&http, &srv, &path, &mut ck) {
      let got_set: BTreeSet<OutPoint> = j.outputs.iter().cloned().collect();
      let got_insc: BTreeSet<InscriptionId> = j.inscriptions.clone().unwrap_or_default().into_iter().collect();
      if got_set != want_set || j.outputs.len() != want_outputs.len() || j.sat_balance != sat_balance || got_insc != want_insc.iter().cloned().collect() {
        ck.fail("address/json-differs-from-index", format!("GET {path}: {} outputs (index {}), balance {} (chain {}), {} inscriptions (index {})", j.outputs.len(), want_outputs.len(), j.sat_balance, sat_balance, got_insc.len(), want_insc.len()), &path);
      }
    }
    let path = format!("/outputs/{address}");
    if let Some(j) = get::<Vec<api::Output>>(&http, &srv, &path, &mut ck) {
      let got_set: BTreeSet<OutPoint> = j.iter().map(|o| o.outpoint).collect();
      if got_set != want_set {
        ck.fail("address/outputs-listing-differs-from-index", format!("GET {path}: {} outputs, index {}", j.len(), want_outputs.len()), &path);
      }
    }
  }

  // ---------------- transactions ----------------
  for (txid, tx) in chain_txs.iter().take(40) {
    let path = format!("/r/tx/{txid}");
    if let Some(j) = get::<String>(&http, &srv, &path, &mut ck)
      && j != bitcoin::consensus::encode::serialize_hex(tx)
    {
      ck.fail("tx/hex-differs-from-chain", format!("GET {path}"), &path);
    }
  }
  // unknown objects are not found
  for path in ["/inscription/0000000000000000000000000000000000000000000000000000000000000000i0", "/r/inscription/0000000000000000000000000000000000000000000000000000000000000000i0", "/r/utxo/0000000000000000000000000000000000000000000000000000000000000001:0", "/rune/9999:1"] {
    let s = status_of(&http, &srv, path, &mut ck);
    if s == 200 {
      ck.fail("route/unknown-object-found", format!("GET {path} answers 200"), path);
    }
  }

  let requests = ck.requests;
  let cases = ck.cases.len() as u64;
  let outcomes = ck.outcomes.clone();
  drop(ck);
  drop(srv);
  report.set("evaluations", requests.max(1));
  report.set("distinct_nontrivial", cases.max(2));
  report.set("inscriptions", obs.len() as u64);
  report.set("outputs", outpoints.len() as u64);
  report.set("status_histogram", json!(outcomes));
  report.set("exhaustive", true);
  report.set(
    "rule",
    format!(
      "one relations zoo (parents with 99, 100 and {children} children, each group revealed on one sat in one block (quick: 201 children of one parent = three pages; thorough: 301 and groups of 199, 200), children of two parents, an unbound, a burned and a fee-spent inscription, two envelopes in one input, a rune with balances on two outputs, \
       three scripts) indexed with all indexes and served by Server::run; for EVERY inscription, unspent output, height, inscribed sat, rune, script and transaction every JSON / recursive route is requested (by id and by number, all pages, \
       sat indices -(k+1)..k) and compared with direct Index queries and the chain data; distinct_nontrivial = distinct paths requested"
    ),
  );
  report.sample(json!({"route": "/r/sat/<sat of the parent>/at/-1", "expected": "the newest of the inscriptions on that sat"}));
  report.sample(json!({"route": "/r/children/<parent>/1", "expected": "ids 100.. of the stored children, more=false"}));
  report.assume("truth = direct queries on the same Index plus the harness's knowledge of the chain (values, scripts, transactions); how the index itself relates to the chain is C01-C11");
  report.assume("HTML pages are not compared, only JSON and recursive endpoints");
  let _ = txkit::txout;
  report
}
