//! C19: inscription content is served faithfully and sandboxed.

use {
  super::{Http, Resp, Srv, SrvCfg, Zoo, env, id_value, index_zoo},
  crate::{Ctx, evidence::Report, idx::IndexCfg, txkit::Spk, util::Scratch},
  bitcoin::hashes::Hash,
  ord::InscriptionId,
  serde_json::json,
  std::collections::{BTreeMap, BTreeSet},
};

#[derive(Clone, Debug)]
pub struct Item {
  pub label: String,
  pub id: InscriptionId,
  pub content_type: Option<Vec<u8>>,
  pub content_encoding: Option<Vec<u8>>,
  pub body: Option<Vec<u8>>,
  pub delegate: Option<InscriptionId>,
  pub sat_slot: Option<(u64, isize)>,
}

fn brotli(data: &[u8]) -> Vec<u8> {
  use std::io::Write;
  let mut out = Vec::new();
  {
    let mut w = brotli::CompressorWriter::new(&mut out, 4096, 5, 20);
    w.write_all(data).unwrap();
  }
  out
}

fn unbrotli(data: &[u8]) -> Option<Vec<u8>> {
  use std::io::Read;
  let mut out = Vec::new();
  brotli::Decompressor::new(data, 4096).read_to_end(&mut out).ok()?;
  Some(out)
}

pub struct ContentZoo {
  pub zoo: Zoo,
  pub items: Vec<Item>,
  pub hidden: Vec<InscriptionId>,
}

const HIDDEN_TARGET_BODY: &[u8] = b"SECRET-DELEGATE-TARGET";
const HIDDEN_DIRECT_BODY: &[u8] = b"SECRET-DIRECTLY-HIDDEN";

pub fn build() -> ContentZoo {
  let mut zoo = Zoo::new(300);
  let mut items: Vec<Item> = Vec::new();
  let cts: Vec<(&str, Option<Vec<u8>>)> = vec![
    ("none", None),
    ("text", Some(b"text/plain;charset=utf-8".to_vec())),
    ("png", Some(b"image/png".to_vec())),
    ("html", Some(b"text/html".to_vec())),
    ("nonutf8", Some(vec![0xff, 0xfe, 0x41])),
    ("crlf", Some(b"text/html\r\nX-Evil: 1".to_vec())),
    ("empty", Some(Vec::new())),
  ];
  let ces: Vec<(&str, Option<Vec<u8>>)> = vec![("none", None), ("br", Some(b"br".to_vec())), ("gzip", Some(b"gzip".to_vec())), ("nonutf8", Some(vec![0xff]))];
  let plain = b"hello world".to_vec();
  let long: Vec<u8> = b"the quick brown fox jumps over the lazy dog. ".repeat(6);
  let bodies: Vec<(&str, Option<Vec<u8>>)> = vec![("none", None), ("empty", Some(Vec::new())), ("short", Some(plain.clone())), ("brstream", Some(brotli(b"decompressed payload"))), ("long", Some(long))];
  let mut add = |zoo: &mut Zoo, items: &mut Vec<Item>, label: String, ct: Option<Vec<u8>>, ce: Option<Vec<u8>>, body: Option<Vec<u8>>, delegate: Option<InscriptionId>| -> InscriptionId {
    let mut fields: Vec<(u8, Vec<u8>)> = Vec::new();
    if let Some(ct) = &ct {
      fields.push((1, ct.clone()));
    }
    if let Some(ce) = &ce {
      fields.push((9, ce.clone()));
    }
    if let Some(d) = delegate {
      fields.push((11, id_value(d)));
    }
    let (_, ids) = zoo.reveal(&[env(&fields, body.as_deref())], Spk::B.script());
    items.push(Item { label, id: ids[0], content_type: ct, content_encoding: ce, body, delegate, sat_slot: None });
    ids[0]
  };
  for (ctl, ct) in &cts {
    for (cel, ce) in &ces {
      for (bl, body) in &bodies {
        // empty-string push for content type / encoding is the body separator: skip empties that change the envelope shape
        if ct.as_ref().map(|c| c.is_empty()).unwrap_or(false) && *bl != "short" {
          continue;
        }
        add(&mut zoo, &mut items, format!("matrix:{ctl}:{cel}:{bl}"), ct.clone(), ce.clone(), body.clone(), None);
      }
    }
  }
  // one inscription per media kind ord distinguishes when it builds a preview page
  for ct in ["audio/mpeg", "video/mp4", "font/woff2", "model/gltf+json", "application/pdf", "text/markdown", "text/javascript", "application/json", "image/svg+xml", "text/css", "application/yaml"] {
    add(&mut zoo, &mut items, format!("media:{ct}"), Some(ct.as_bytes().to_vec()), None, Some(format!("body of {ct}").into_bytes()), None);
  }
  let p = add(&mut zoo, &mut items, "P".into(), Some(b"image/png".to_vec()), None, Some(b"PNG-TARGET-BODY".to_vec()), None);
  let pbr = add(&mut zoo, &mut items, "PBR".into(), Some(b"text/plain".to_vec()), Some(b"br".to_vec()), Some(brotli(b"brotli target body")), None);
  let h = add(&mut zoo, &mut items, "H".into(), Some(b"image/png".to_vec()), None, Some(HIDDEN_TARGET_BODY.to_vec()), None);
  let x = add(&mut zoo, &mut items, "X".into(), Some(b"image/png".to_vec()), None, Some(HIDDEN_DIRECT_BODY.to_vec()), None);
  zoo.mine();
  let d1 = add(&mut zoo, &mut items, "D1->P".into(), None, None, None, Some(p));
  add(&mut zoo, &mut items, "D1b->PBR".into(), None, None, None, Some(pbr));
  let missing = InscriptionId { txid: bitcoin::Txid::from_byte_array([0xee; 32]), index: 0 };
  add(&mut zoo, &mut items, "D2->missing".into(), Some(b"image/png".to_vec()), None, Some(b"own body of D2".to_vec()), Some(missing));
  add(&mut zoo, &mut items, "D4->H(hidden)".into(), None, None, None, Some(h));
  add(&mut zoo, &mut items, "D4b->H(hidden)+body".into(), Some(b"image/png".to_vec()), None, Some(b"own body D4b".to_vec()), Some(h));
  add(&mut zoo, &mut items, "D6->P+ownbody".into(), Some(b"text/plain".to_vec()), None, Some(b"OWN-BODY-D6".to_vec()), Some(p));
  add(&mut zoo, &mut items, "D7->X(hidden)".into(), None, None, None, Some(x));
  zoo.mine();
  add(&mut zoo, &mut items, "D3->D1".into(), None, None, None, Some(d1));
  // self delegate: the txid does not depend on the witness
  {
    let op = zoo.fund();
    let unsigned = crate::txkit::tx(vec![crate::txkit::txin(op, bitcoin::Witness::new())], vec![crate::txkit::txout(super::FUND, Spk::B.script())]);
    let me = InscriptionId { txid: unsigned.compute_txid(), index: 0 };
    let script = env(&[(1, b"image/png".to_vec()), (11, id_value(me))], Some(b"SELF-DELEGATE-BODY"));
    let tx = zoo.tx(vec![(op, script)], vec![(super::FUND, Spk::B.script())]);
    assert_eq!(tx.compute_txid(), me.txid);
    items.push(Item { label: "D5->self".into(), id: me, content_type: Some(b"image/png".to_vec()), content_encoding: None, body: Some(b"SELF-DELEGATE-BODY".to_vec()), delegate: Some(me), sat_slot: None });
  }
  // reinscriptions on one sat: R1 then R2 and R3 on the same output
  {
    let op = zoo.fund();
    let tx1 = zoo.tx(vec![(op, env(&[(1, b"text/plain".to_vec())], Some(b"first on sat")))], vec![(super::FUND, Spk::C.script())]);
    let r1 = InscriptionId { txid: tx1.compute_txid(), index: 0 };
    zoo.mine();
    let o1 = bitcoin::OutPoint { txid: tx1.compute_txid(), vout: 0 };
    let tx2 = zoo.tx(vec![(o1, env(&[(1, b"text/plain".to_vec())], Some(b"second on sat")))], vec![(super::FUND, Spk::C.script())]);
    let r2 = InscriptionId { txid: tx2.compute_txid(), index: 0 };
    zoo.mine();
    let o2 = bitcoin::OutPoint { txid: tx2.compute_txid(), vout: 0 };
    let tx3 = zoo.tx(vec![(o2, env(&[(1, b"text/plain".to_vec())], Some(b"third on sat")))], vec![(super::FUND, Spk::C.script())]);
    let r3 = InscriptionId { txid: tx3.compute_txid(), index: 0 };
    zoo.mine();
    for (k, (id, body)) in [(r1, &b"first on sat"[..]), (r2, b"second on sat"), (r3, b"third on sat")].into_iter().enumerate() {
      items.push(Item { label: format!("R{}", k + 1), id, content_type: Some(b"text/plain".to_vec()), content_encoding: None, body: Some(body.to_vec()), delegate: None, sat_slot: Some((0, k as isize)) });
    }
  }
  zoo.mine();
  ContentZoo { zoo, items, hidden: vec![h, x] }
}

const ALLOWED_KEYWORDS: &[&str] = &["'self'", "'unsafe-eval'", "'unsafe-inline'", "data:", "blob:"];
const RECURSIVE_PATHS: &[&str] = &["/content/", "/blockheight", "/blockhash", "/blockhash/", "/blocktime", "/r/"];

/// Checks the CSP headers of a *content* response.
fn check_content_csp(resp: &Resp, origin: &Option<String>) -> Result<(), String> {
  let policies = resp.headers_named("content-security-policy");
  if policies.is_empty() {
    return Err("no Content-Security-Policy header".into());
  }
  let mut restricts_to_origin = false;
  for p in &policies {
    for directive in p.split(';') {
      let mut parts = directive.split_whitespace();
      let Some(name) = parts.next() else { continue };
      if name != "default-src" {
        return Err(format!("content CSP has a directive other than default-src: `{directive}`"));
      }
      let mut all_local = true;
      for src in parts {
        if ALLOWED_KEYWORDS.contains(&src) {
          continue;
        }
        let mut ok = false;
        match origin {
          Some(o) => {
            for path in RECURSIVE_PATHS {
              if src == format!("{o}{path}") {
                ok = true;
              }
            }
          }
          None => {
            for path in RECURSIVE_PATHS {
              if src == format!("*:*{path}") {
                ok = true;
                all_local = false;
              }
            }
          }
        }
        if !ok {
          return Err(format!("content CSP allows source `{src}` which is neither same-origin/configured-origin content nor a recursive path"));
        }
      }
      if all_local {
        restricts_to_origin = true;
      }
    }
  }
  if !restricts_to_origin {
    return Err(format!("no CSP policy restricts content to the same / configured origin: {policies:?}"));
  }
  Ok(())
}

fn contains(hay: &[u8], needle: &[u8]) -> bool {
  !needle.is_empty() && hay.windows(needle.len()).any(|w| w == needle)
}

fn header_value_ok(v: &[u8]) -> bool {
  std::str::from_utf8(v).is_ok() && v.iter().all(|b| (*b >= 0x20 && *b != 0x7f) || *b == b'\t')
}

struct Stats {
  requests: u64,
  outcomes: BTreeMap<String, u64>,
  cases: BTreeSet<String>,
}

pub fn run(ctx: &Ctx) -> Report {
  let mut report = Report::new("C19", &ctx.tier, "exploration");
  let cz = build();
  let scratch = Scratch::new("srv-content");
  let icfg = IndexCfg { runes: false, ..IndexCfg::all() };
  let dir = match index_zoo(&cz.zoo.world, &scratch, "idx", &icfg) {
    Ok(d) => d,
    Err(e) => {
      report.violation("machinery/index", format!("indexing the content zoo failed: {e:#}"), json!({}));
      return report;
    }
  };
  let by_id: BTreeMap<InscriptionId, &Item> = cz.items.iter().map(|i| (i.id, i)).collect();
  let http = Http::new();
  let mut st = Stats { requests: 0, outcomes: BTreeMap::new(), cases: BTreeSet::new() };
  let cfgs = vec![
    SrvCfg { hidden: cz.hidden.clone(), ..Default::default() },
    SrvCfg { hidden: cz.hidden.clone(), csp_origin: Some("https://example.com".into()), decompress: true, ..Default::default() },
    SrvCfg { hidden: cz.hidden.clone(), credentials: Some(("user".into(), "pw".into())), ..Default::default() },
    SrvCfg { hidden: cz.hidden.clone(), disable_json_api: true, ..Default::default() },
  ];
  // (RFC 9110 allows optional whitespace around the coding and before its weight)
  let accept_encodings: Vec<Option<&str>> = vec![None, Some("br"), Some("gzip"), Some("deflate;q=0.5, gzip;q=1.0, br;q=0.8"), Some("gzip , br ;q=0.8"), Some(" br ; q=1")];
  // the sat of the reinscribed output (slot (0, k)) is looked up from the index
  for scfg in &cfgs {
    let srv = match Srv::start(&cz.zoo.world, &dir, &icfg, scfg) {
      Ok(s) => s,
      Err(e) => {
        report.violation("machinery/server-start", format!("{}: {e:#}", scfg.label()), json!({}));
        continue;
      }
    };
    let auth: Vec<(&str, &str)> = if scfg.credentials.is_some() { vec![("authorization", "Basic dXNlcjpwdw==")] } else { vec![] };
    let mut fail = |class: String, what: String, replay: serde_json::Value| report.violation(class, what, replay);

    // --- header clause on assorted routes, including errors and unauthenticated requests
    let mut misc: Vec<String> = vec![
      "/".into(), "/blocks".into(), "/status".into(), "/blockheight".into(), "/r/blockheight".into(), "/inscriptions".into(), "/runes".into(), "/static/index.css".into(),
      "/nonexistent".into(), "/inscription/0".into(), "/inscription/999999".into(), "/output/0000000000000000000000000000000000000000000000000000000000000000:0".into(),
      "/block/0".into(), "/block/99999".into(), "/sat/0".into(), "/sat/foo".into(), "/tx/0000000000000000000000000000000000000000000000000000000000000000".into(),
      "/content/0000000000000000000000000000000000000000000000000000000000000000i0".into(), "/preview/garbage".into(), "/r/sat/0/at/99/content".into(), "/search?query=0".into(),
      "/rare.txt".into(), "/feed.xml".into(), "/clock".into(), "/favicon.ico".into(), "/collections".into(), "/galleries".into(), "/bounties".into(), "/faq".into(),
    ];
    misc.push(format!("/inscription/{}", cz.items[0].id));
    for path in &misc {
      for with_auth in [true, false] {
        if !with_auth && scfg.credentials.is_none() {
          continue;
        }
        let hdrs: Vec<(&str, &str)> = if with_auth { auth.clone() } else { vec![] };
        st.requests += 1;
        match http.get(&format!("{}{}", srv.url, path), &hdrs) {
          Err(e) => fail("machinery/http".into(), e, json!({"path": path})),
          Ok(r) => {
            *st.outcomes.entry(format!("misc/{}", r.status)).or_default() += 1;
            if r.headers_named("content-security-policy").is_empty() {
              let class = if r.status == 401 { "csp-header-missing/unauthorized-response" } else if r.status >= 300 && r.status < 400 { "csp-header-missing/redirect" } else { "csp-header-missing/other" };
              fail(class.into(), format!("GET {path} ({}) answers {} without a Content-Security-Policy header", scfg.label(), r.status), json!({"path": path, "cfg": scfg.label(), "auth": with_auth}));
            }
            if r.status >= 500 {
              fail("server-error".into(), format!("GET {path} answers {}", r.status), json!({"path": path}));
            }
          }
        }
      }
    }

    // --- content routes
    let sat_of_reinscribed: Option<u64> = cz.items.iter().find(|i| i.label == "R1").and_then(|i| srv.index.get_inscription_entry(i.id).ok().flatten()).and_then(|e| e.sat.map(|s| s.0));
    for item in &cz.items {
      let mut routes: Vec<(String, &str, bool)> = vec![
        (format!("/content/{}", item.id), "content", true),
        (format!("/r/undelegated-content/{}", item.id), "undelegated", true),
        (format!("/preview/{}", item.id), "preview", true),
      ];
      if let (Some((_, k)), Some(sat)) = (item.sat_slot, sat_of_reinscribed) {
        routes.push((format!("/r/sat/{sat}/at/{k}/content"), "content", true));
        routes.push((format!("/r/sat/{sat}/at/{}/content", k - 3), "content", false));
      }
      for (path, kind, immutable_ok) in &routes {
        for ae in &accept_encodings {
          let mut hdrs = auth.clone();
          if let Some(ae) = ae {
            hdrs.push(("accept-encoding", ae));
          }
          st.requests += 1;
          let r = match http.get(&format!("{}{}", srv.url, path), &hdrs) {
            Ok(r) => r,
            Err(e) => {
              fail("machinery/http".into(), e, json!({"path": path}));
              continue;
            }
          };
          let replay = json!({"item": item.label, "path": path, "accept_encoding": ae, "cfg": scfg.label()});
          let case = format!("{}|{}|{:?}|{}", item.label, kind, ae, scfg.label());
          st.cases.insert(case);
          *st.outcomes.entry(format!("{kind}/{}", r.status)).or_default() += 1;
          if r.headers_named("content-security-policy").is_empty() {
            fail("csp-header-missing/content-route".into(), format!("GET {path} answers {} without a Content-Security-Policy header", r.status), replay.clone());
          }
          if r.status >= 500 {
            // a body that claims to be brotli but is not cannot be decompressed: an error answer is acceptable there
            let t0: Option<&Item> = if *kind == "undelegated" { Some(item) } else { match item.delegate { Some(d) => by_id.get(&d).copied(), None => Some(item) } };
            let undecodable = scfg.decompress
              && t0.map(|t| t.content_encoding.as_deref() == Some(b"br") && t.body.as_ref().map(|b| unbrotli(b).is_none()).unwrap_or(false)).unwrap_or(false);
            if !undecodable {
              fail(format!("server-error/{kind}"), format!("GET {path} ({}) answers {}: {}", item.label, r.status, String::from_utf8_lossy(&r.body).chars().take(200).collect::<String>()), replay.clone());
            } else {
              *st.outcomes.entry("undecodable-brotli-5xx-accepted".into()).or_default() += 1;
            }
            continue;
          }
          // decoded body for searching markers
          let layer_encoding = r.header("content-encoding");
          let decoded: Option<Vec<u8>> = match layer_encoding.as_deref() {
            None => Some(r.body.clone()),
            Some("br") => unbrotli(&r.body),
            _ => None,
          };
          // hidden content is never served
          let target: Option<&Item> = if *kind == "undelegated" { Some(item) } else { match item.delegate { Some(d) => by_id.get(&d).copied(), None => Some(item) } };
          for hid in &cz.hidden {
            let hbody = by_id[hid].body.clone().unwrap();
            let raw_hit = contains(&r.body, &hbody);
            let dec_hit = decoded.as_ref().map(|d| contains(d, &hbody)).unwrap_or(false);
            if raw_hit || dec_hit {
              let class = if item.id == *hid { "hidden-content-served/directly" } else { "hidden-content-served/through-delegate" };
              fail(class.into(), format!("GET {path} ({}) serves the bytes of hidden inscription {hid}", item.label), replay.clone());
            }
          }
          if cz.hidden.contains(&item.id) {
            continue;
          }
          if *kind == "preview" {
            continue; // previews wrap content in HTML; only the header, hidden and no-5xx clauses apply
          }
          // negative sat index: never immutable
          if !immutable_ok {
            if let Some(cc) = r.header("cache-control")
              && cc.contains("immutable")
              && r.status == 200
            {
              fail("cache/negative-index-marked-immutable".into(), format!("GET {path} is addressed relative to the newest inscription but carries cache-control `{cc}`"), replay.clone());
            }
          }
          // expected outcome
          let delegate_missing = *kind == "content" && item.delegate.is_some() && target.is_none();
          if delegate_missing {
            if r.status == 200 {
              fail("content/missing-delegate-served".into(), format!("GET {path}: delegate does not exist but the answer is 200"), replay.clone());
            }
            continue;
          }
          let Some(t) = target else { continue };
          if cz.hidden.contains(&t.id) {
            continue; // must not be served; checked above
          }
          // routes through a sat index address another inscription when out of range
          if path.contains("/at/") {
            let k: isize = path.split("/at/").nth(1).unwrap().split('/').next().unwrap().parse().unwrap();
            let n = 3isize;
            let want = if k >= 0 { k } else { n + k };
            if want < 0 || want >= n {
              if r.status == 200 {
                fail("content/sat-index-out-of-range-served".into(), format!("GET {path} answers 200"), replay.clone());
              }
              continue;
            }
            let expect = [&b"first on sat"[..], b"second on sat", b"third on sat"][want as usize];
            if r.status != 200 || decoded.as_deref() != Some(expect) {
              fail("content/sat-index-wrong-inscription".into(), format!("GET {path} answers {} {:?}, expected {:?}", r.status, String::from_utf8_lossy(&r.body), String::from_utf8_lossy(expect)), replay.clone());
            }
            continue;
          }
          let Some(body) = &t.body else {
            if r.status == 200 {
              fail("content/bodyless-served".into(), format!("GET {path} ({}) has no body but answers 200", item.label), replay.clone());
            }
            continue;
          };
          let enc = t.content_encoding.as_deref();
          let enc_known = matches!(enc, None | Some(b"br") | Some(b"gzip"));
          if !enc_known {
            continue; // undocumented encodings: only totality is required
          }
          let accepted = |e: &str| ae.map(|a| a.split(',').any(|v| v.split(';').next().unwrap_or("").trim() == e)).unwrap_or(false);
          let (want_status, want_body, want_ce): (u16, Option<Vec<u8>>, Option<&str>) = match enc {
            None => (200, Some(body.clone()), None),
            Some(e) => {
              let e = std::str::from_utf8(e).unwrap();
              if accepted(e) {
                (200, Some(body.clone()), Some(e))
              } else if scfg.decompress && e == "br" {
                match unbrotli(body) {
                  Some(d) => (200, Some(d), None),
                  None => (0, None, None), // not a brotli stream: refusal or error both acceptable
                }
              } else {
                (406, None, None)
              }
            }
          };
          if want_status == 0 {
            continue;
          }
          if r.status != want_status {
            fail(format!("content/status-{}-expected-{want_status}", r.status), format!("GET {path} ({}) with Accept-Encoding {ae:?}: status {} expected {want_status}", item.label, r.status), replay.clone());
            continue;
          }
          if want_status != 200 {
            continue;
          }
          // body
          let got_body: Option<Vec<u8>> = match (want_ce, layer_encoding.as_deref()) {
            (Some(w), Some(g)) if w == g => Some(r.body.clone()),
            (Some(_), _) => None,
            (None, None) => Some(r.body.clone()),
            (None, Some("br")) => unbrotli(&r.body),
            (None, Some(_)) => {
              *st.outcomes.entry("body-compare-skipped/gzip-by-compression-layer".into()).or_default() += 1;
              continue;
            }
          };
          if want_ce.is_some() && layer_encoding.as_deref() != want_ce {
            fail("content/encoding-header".into(), format!("GET {path} ({}): content-encoding {layer_encoding:?} expected {want_ce:?}", item.label), replay.clone());
            continue;
          }
          if got_body != want_body {
            fail(
              if item.delegate.is_some() && *kind == "content" { "content/body-mismatch/delegate".into() } else { "content/body-mismatch".into() },
              format!("GET {path} ({}): body {:?} expected {:?}", item.label, got_body.as_ref().map(|b| String::from_utf8_lossy(b).chars().take(60).collect::<String>()), want_body.as_ref().map(|b| String::from_utf8_lossy(b).chars().take(60).collect::<String>())),
              replay.clone(),
            );
          }
          // content type
          let got_ct = r.header("content-type").unwrap_or_default();
          let want_ct: Vec<String> = match &t.content_type {
            Some(ct) if header_value_ok(ct) && std::str::from_utf8(ct).is_ok() => {
              let s = String::from_utf8(ct.clone()).unwrap();
              if s.is_empty() { vec![s, "application/octet-stream".into()] } else { vec![s] }
            }
            _ => vec!["application/octet-stream".into()],
          };
          if !want_ct.contains(&got_ct) {
            fail("content/content-type".into(), format!("GET {path} ({}): content-type `{got_ct}` expected one of {want_ct:?}", item.label), replay.clone());
          }
          if let Some(e) = r.header("x-evil") {
            fail("content/header-injection".into(), format!("GET {path}: injected header x-evil: {e}"), replay.clone());
          }
          if let Err(msg) = check_content_csp(&r, &scfg.csp_origin) {
            fail("content/csp".into(), format!("GET {path} ({}): {msg}", item.label), replay.clone());
          }
        }
      }
    }
    drop(srv);
  }
  ord::shut_down();
  std::thread::sleep(std::time::Duration::from_millis(250));
  ord::cancel_shutdown();
  report.set("evaluations", st.requests.max(1));
  report.set("distinct_nontrivial", (st.cases.len() as u64).max(2));
  report.set("inscriptions", cz.items.len() as u64);
  report.set("server_configurations", json!(cfgs.iter().map(|c| c.label()).collect::<Vec<_>>()));
  report.set("outcomes", json!(st.outcomes));
  report.set("exhaustive", true);
  report.set(
    "rule",
    "complete product: inscriptions = content-type {absent, text, png, html, non-UTF-8, CR/LF injection, empty} x content-encoding {absent, br, gzip, non-UTF-8} x body {absent, empty, short, brotli stream, long}, \
     delegates {existing, existing brotli, missing, hidden-by-config, hidden + own body, existing + own body, directly hidden, delegator of a delegator, self}, three inscriptions on one sat; routes /content, \
     /r/undelegated-content, /preview, /r/sat/<n>/at/<i>/content (i >= 0 and i < 0); Accept-Encoding {none, br, gzip, list with q-values}; server configurations {default, csp-origin + decompress, basic auth, json api off} \
     all with a hidden list; plus ~30 other routes and error responses for the header clause; distinct_nontrivial = distinct (inscription, route kind, accept-encoding, configuration) cases",
  );
  report.sample(json!({"inscription": "matrix:png:br:brstream", "route": "/content/<id>", "accept_encoding": "gzip", "expected": "406 (not acceptable), or decompressed body when --decompress"}));
  report.sample(json!({"inscription": "D4->H(hidden)", "route": "/content/<id>", "expected": "the bytes of H never appear"}));
  report.assume("the CSP header text is judged against an allow-list grammar (same / configured origin content and recursive paths, data:, blob:, 'unsafe-eval', 'unsafe-inline'), not browser enforcement");
  report.assume("inscriptions with content encodings other than absent / br / gzip are only required not to produce 5xx answers");
  report.assume("gzip bodies produced by the server's own compression layer are not decoded; those comparisons are counted as skipped");
  report
}
