use {
  bitcoin::hashes::{Hash, sha256},
  std::{
    panic::{self, AssertUnwindSafe},
    path::{Path, PathBuf},
    sync::{
      Mutex,
      atomic::{AtomicBool, AtomicUsize, Ordering},
    },
    time::{Duration, Instant},
  },
};

pub fn sha256_hex(data: &[u8]) -> String {
  sha256::Hash::hash(data).to_string()
}

pub fn sha256_bytes(data: &[u8]) -> [u8; 32] {
  sha256::Hash::hash(data).to_byte_array()
}

/// Per-run scratch directory (tmpfs when available), removed on drop.
pub struct Scratch {
  pub path: PathBuf,
}

impl Scratch {
  pub fn new(tag: &str) -> Self {
    let base = if Path::new("/dev/shm").is_dir()
      && std::fs::metadata("/dev/shm")
        .map(|m| !m.permissions().readonly())
        .unwrap_or(false)
    {
      PathBuf::from("/dev/shm")
    } else {
      PathBuf::from("/var/tmp")
    };
    let path = base.join(format!("vcheck.{}.{}", tag, std::process::id()));
    let _ = std::fs::remove_dir_all(&path);
    std::fs::create_dir_all(&path).expect("create scratch");
    Self { path }
  }

  pub fn sub(&self, name: &str) -> PathBuf {
    let p = self.path.join(name);
    let _ = std::fs::remove_dir_all(&p);
    std::fs::create_dir_all(&p).expect("create scratch sub");
    p
  }
}

impl Drop for Scratch {
  fn drop(&mut self) {
    let _ = std::fs::remove_dir_all(&self.path);
  }
}

pub fn workers() -> usize {
  std::env::var("VCHECK_WORKERS")
    .ok()
    .and_then(|s| s.parse().ok())
    .unwrap_or_else(|| {
      std::thread::available_parallelism()
        .map(|n| n.get())
        .unwrap_or(4)
        .min(16)
    })
}

/// Wall-clock budget for one engine run.
#[derive(Clone, Copy)]
pub struct Budget {
  pub start: Instant,
  pub limit: Duration,
}

impl Budget {
  pub fn new(secs: u64) -> Self {
    Self {
      start: Instant::now(),
      limit: Duration::from_secs(secs),
    }
  }
  pub fn exhausted(&self) -> bool {
    self.start.elapsed() > self.limit
  }
}

/// Runs `f(worker_state, item_index)` for all items 0..n over `workers()` threads,
/// each with its own state from `init(worker_id)`. Results returned in item order.
/// Stops handing out items once `stop` is set or the budget is exhausted; the
/// number of completed items is returned alongside.
pub fn par_map<S, R: Send>(
  n: usize,
  budget: Option<Budget>,
  init: impl Fn(usize) -> S + Sync,
  f: impl Fn(&mut S, usize) -> R + Sync,
) -> (Vec<Option<R>>, bool) {
  let next = AtomicUsize::new(0);
  let capped = AtomicBool::new(false);
  let results: Mutex<Vec<Option<R>>> = Mutex::new((0..n).map(|_| None).collect());
  let nworkers = workers().min(n.max(1));
  std::thread::scope(|scope| {
    for w in 0..nworkers {
      let next = &next;
      let results = &results;
      let init = &init;
      let f = &f;
      let capped = &capped;
      std::thread::Builder::new()
        .stack_size(64 << 20)
        .spawn_scoped(scope, move || {
          let mut state = init(w);
          loop {
            if let Some(b) = budget
              && b.exhausted()
            {
              if next.load(Ordering::SeqCst) < n {
                capped.store(true, Ordering::SeqCst);
              }
              break;
            }
            let i = next.fetch_add(1, Ordering::SeqCst);
            if i >= n {
              break;
            }
            let r = f(&mut state, i);
            results.lock().unwrap()[i] = Some(r);
          }
        })
        .unwrap();
    }
  });
  (results.into_inner().unwrap(), capped.load(Ordering::SeqCst))
}

/// Runs a closure catching panics; returns Err(message) on panic.
pub fn catch<R>(f: impl FnOnce() -> R) -> Result<R, String> {
  match panic::catch_unwind(AssertUnwindSafe(f)) {
    Ok(r) => Ok(r),
    Err(e) => Err(
      if let Some(s) = e.downcast_ref::<&str>() {
        s.to_string()
      } else if let Some(s) = e.downcast_ref::<String>() {
        s.clone()
      } else {
        "panic (non-string payload)".into()
      },
    ),
  }
}

/// Silence panic messages from worker threads (panics inside ord are
/// outcomes that the harness records; printing them would flood stdout).
pub fn quiet_panics() {
  if std::env::var("VCHECK_LOUD").is_err() {
    panic::set_hook(Box::new(|_| {}));
  }
}

pub fn hex(b: &[u8]) -> String {
  hex::encode(b)
}


// ---------------------------------------------------------------------------
// watchdog: an `Index::update()` that does not return is a verdict, not a hang of the check

use std::sync::OnceLock;

struct WatchEntry {
  started: Option<std::time::Instant>,
  context: String,
}

static WATCH: OnceLock<Mutex<std::collections::HashMap<std::thread::ThreadId, WatchEntry>>> = OnceLock::new();
static WATCH_PROPERTY: OnceLock<String> = OnceLock::new();

/// longest time one guarded call may take before the run is ended with a violation
pub const WATCH_LIMIT_SECS: u64 = 240;

fn watch_map() -> &'static Mutex<std::collections::HashMap<std::thread::ThreadId, WatchEntry>> {
  WATCH.get_or_init(|| Mutex::new(std::collections::HashMap::new()))
}

/// Describes what the current thread is executing (used if a guarded call never returns).
pub fn set_context(context: String) {
  let mut m = watch_map().lock().unwrap();
  let e = m.entry(std::thread::current().id()).or_insert(WatchEntry { started: None, context: String::new() });
  e.context = context;
}

/// Starts the watchdog thread for `property`.
pub fn start_watchdog(property: &str) {
  if WATCH_PROPERTY.set(property.to_string()).is_err() {
    return;
  }
  std::thread::spawn(|| {
    loop {
      std::thread::sleep(std::time::Duration::from_secs(2));
      let stuck: Option<(u64, String)> = {
        let m = watch_map().lock().unwrap();
        m.values()
          .filter_map(|e| e.started.map(|s| (s.elapsed().as_secs(), e.context.clone())))
          .filter(|(secs, _)| *secs >= std::env::var("VERIF_WATCH_SECS").ok().and_then(|v| v.parse().ok()).unwrap_or(WATCH_LIMIT_SECS))
          .max_by_key(|(secs, _)| *secs)
      };
      if let Some((secs, context)) = stuck {
        let property = WATCH_PROPERTY.get().cloned().unwrap_or_default();
        let dir = std::path::PathBuf::from(crate::evidence::VERIF).join("replays").join(&property);
        let _ = std::fs::create_dir_all(&dir);
        let path = dir.join(format!("index-stuck_update_hang-{}.json", sha256_hex(context.as_bytes()).chars().take(12).collect::<String>()));
        let body = serde_json::json!({
          "property": property,
          "class": "index-stuck/update/hang",
          "what": format!("Index::update() did not return within {secs} s"),
          "replay": serde_json::from_str::<serde_json::Value>(&context).unwrap_or(serde_json::Value::String(context.clone())),
        });
        let _ = std::fs::write(&path, serde_json::to_string_pretty(&body).unwrap());
        println!("VIOLATION property={property} replay={}", path.display());
        println!("  class: index-stuck/update/hang");
        println!("  what:  Index::update() did not return within {secs} s while executing {context}");
        println!("FAIL property={property} (run ended by the watchdog; no evidence file written)");
        std::process::exit(1);
      }
    }
  });
}

/// Runs `f` (an `Index::update()` call) under the watchdog.
pub fn watched<R>(f: impl FnOnce() -> R) -> R {
  let id = std::thread::current().id();
  {
    let mut m = watch_map().lock().unwrap();
    let e = m.entry(id).or_insert(WatchEntry { started: None, context: String::new() });
    e.started = Some(std::time::Instant::now());
  }
  let r = f();
  if let Some(e) = watch_map().lock().unwrap().get_mut(&id) {
    e.started = None;
  }
  r
}
