//! C20: ordinal-aware sends never misdirect or burn inscriptions.
//!
//! Complete product over small wallet states x outgoing satpoints x other
//! inscriptions x runic/locked marks x recipients x targets x fee rates, driven
//! through the public `TransactionBuilder::new(..).build_transaction()`. The
//! result must be an error or a transaction satisfying every post-condition of
//! the property, recomputed independently here; a panic is a violation.

use {
  crate::{Ctx, evidence::Report, util},
  bitcoin::{Address, Amount, Network, OutPoint, ScriptBuf, Sequence, Transaction, TxIn, TxOut, Txid, Witness, absolute::LockTime, hashes::Hash, transaction::Version},
  ord::{FeeRate, InscriptionId, Target, TransactionBuilder},
  ordinals::SatPoint,
  serde_json::{Value, json},
  std::collections::{BTreeMap, BTreeSet},
};

fn outpoint(n: u8) -> OutPoint {
  OutPoint { txid: Txid::from_byte_array([n; 32]), vout: 0 }
}

fn p2tr(b: u8) -> ScriptBuf {
  ScriptBuf::from_bytes([vec![0x51, 0x20], vec![b; 32]].concat())
}

fn p2wpkh(b: u8) -> ScriptBuf {
  ScriptBuf::from_bytes([vec![0x00, 0x14], vec![b; 20]].concat())
}

fn addr(s: &ScriptBuf) -> Address {
  Address::from_script(s, Network::Regtest).unwrap()
}

fn iid(n: u8) -> InscriptionId {
  InscriptionId { txid: Txid::from_byte_array([0xa0 | n; 32]), index: 0 }
}

#[derive(Clone, Copy, Debug, PartialEq)]
enum Mark {
  Plain,
  Runic,
  Locked,
}

#[derive(Clone, Copy, Debug, PartialEq)]
enum Recipient {
  P2tr,
  P2wpkh,
  OpReturn,
  /// equal to the first change address (must be refused)
  Change0,
}

#[derive(Clone, Copy, Debug, PartialEq)]
enum Tgt {
  Postage,
  Exact(u64),
  Value(u64),
}

#[derive(Clone, Debug)]
struct Case {
  values: Vec<u64>,
  outgoing: (usize, u64),
  others: Vec<(usize, u64)>,
  marks: Vec<Mark>,
  recipient: Recipient,
  target: Tgt,
  fee_rate: f64,
}

impl Case {
  fn json(&self) -> Value {
    json!({
      "values": self.values, "outgoing": [self.outgoing.0, self.outgoing.1], "others": self.others.iter().map(|(a, b)| json!([a, b])).collect::<Vec<_>>(),
      "marks": self.marks.iter().map(|m| format!("{m:?}")).collect::<Vec<_>>(), "recipient": format!("{:?}", self.recipient),
      "target": match self.target { Tgt::Postage => json!("postage"), Tgt::Exact(p) => json!({"exact": p}), Tgt::Value(v) => json!({"value": v}) },
      "fee_rate": self.fee_rate,
    })
  }
  fn from_json(v: &Value) -> Case {
    let mark = |s: &str| match s { "Runic" => Mark::Runic, "Locked" => Mark::Locked, _ => Mark::Plain };
    Case {
      values: v["values"].as_array().unwrap().iter().map(|x| x.as_u64().unwrap()).collect(),
      outgoing: (v["outgoing"][0].as_u64().unwrap() as usize, v["outgoing"][1].as_u64().unwrap()),
      others: v["others"].as_array().unwrap().iter().map(|x| (x[0].as_u64().unwrap() as usize, x[1].as_u64().unwrap())).collect(),
      marks: v["marks"].as_array().unwrap().iter().map(|x| mark(x.as_str().unwrap())).collect(),
      recipient: match v["recipient"].as_str().unwrap() { "P2wpkh" => Recipient::P2wpkh, "OpReturn" => Recipient::OpReturn, "Change0" => Recipient::Change0, _ => Recipient::P2tr },
      target: if v["target"] == "postage" { Tgt::Postage } else if let Some(p) = v["target"]["exact"].as_u64() { Tgt::Exact(p) } else { Tgt::Value(v["target"]["value"].as_u64().unwrap()) },
      fee_rate: v["fee_rate"].as_f64().unwrap(),
    }
  }
}

fn dust(script: &ScriptBuf) -> u64 {
  script.minimal_non_dust().to_sat()
}

/// Runs one case; Err((class, what)) on a violation. Ok(outcome label).
fn check(c: &Case) -> Result<&'static str, (String, String)> {
  let change = [p2tr(0xc1), p2tr(0xc2)];
  let recipient = match c.recipient {
    Recipient::P2tr => p2tr(0xee),
    Recipient::P2wpkh => p2wpkh(0xee),
    Recipient::OpReturn => ScriptBuf::from_bytes(vec![0x6a]),
    Recipient::Change0 => change[0].clone(),
  };
  let amounts: BTreeMap<OutPoint, TxOut> = c
    .values
    .iter()
    .enumerate()
    .map(|(i, v)| (outpoint(i as u8 + 1), TxOut { value: Amount::from_sat(*v), script_pubkey: p2tr(0x10 + i as u8) }))
    .collect();
  let outgoing = SatPoint { outpoint: outpoint(c.outgoing.0 as u8 + 1), offset: c.outgoing.1 };
  let mut inscriptions: BTreeMap<SatPoint, Vec<InscriptionId>> = BTreeMap::new();
  inscriptions.insert(outgoing, vec![iid(0)]);
  for (k, (i, off)) in c.others.iter().enumerate() {
    inscriptions.entry(SatPoint { outpoint: outpoint(*i as u8 + 1), offset: *off }).or_default().push(iid(k as u8 + 1));
  }
  let runic: BTreeSet<OutPoint> = c.marks.iter().enumerate().filter(|(_, m)| **m == Mark::Runic).map(|(i, _)| outpoint(i as u8 + 1)).collect();
  let locked: BTreeSet<OutPoint> = c.marks.iter().enumerate().filter(|(_, m)| **m == Mark::Locked).map(|(i, _)| outpoint(i as u8 + 1)).collect();
  let fee_rate = FeeRate::try_from(c.fee_rate).map_err(|e| ("harness/bad-fee-rate".to_string(), e.to_string()))?;
  let target = match c.target {
    Tgt::Postage => Target::Postage,
    Tgt::Exact(p) => Target::ExactPostage(Amount::from_sat(p)),
    Tgt::Value(v) => Target::Value(Amount::from_sat(v)),
  };
  let builder = TransactionBuilder::new(
    outgoing,
    inscriptions.clone(),
    amounts.clone(),
    locked.clone(),
    runic.clone(),
    recipient.clone(),
    [addr(&change[0]), addr(&change[1])],
    fee_rate,
    target,
    Network::Regtest,
  );
  let result = match util::catch(|| builder.build_transaction()) {
    Ok(r) => r,
    Err(p) => {
      let site = if p.contains("invariant") {
        p.split(':').nth(1).unwrap_or("").trim().replace(' ', "-")
      } else if p.contains("Option::unwrap()") {
        "option-unwrap-none".into()
      } else {
        "other".into()
      };
      let tk = match c.target {
        Tgt::Postage => "postage",
        Tgt::Exact(_) => "exact-postage",
        Tgt::Value(_) => "value",
      };
      return Err((format!("panic/{}/{tk}", site.chars().take(60).collect::<String>()), format!("build_transaction panicked: {p}")));
    }
  };
  let tx: Transaction = match result {
    Err(_) => return Ok("error"),
    Ok(tx) => tx,
  };
  let fail = |class: &str, what: String| Err((class.to_string(), what));

  // inputs are distinct wallet outputs and include the outgoing one
  let mut seen = BTreeSet::new();
  for i in &tx.input {
    if !amounts.contains_key(&i.previous_output) {
      return fail("input/not-in-wallet", format!("spends {} which is not a wallet output", i.previous_output));
    }
    if !seen.insert(i.previous_output) {
      return fail("input/duplicate", format!("spends {} twice", i.previous_output));
    }
  }
  if !seen.contains(&outgoing.outpoint) {
    return fail("outgoing/not-spent", "the outgoing output is not an input".into());
  }
  // 3. no runic, locked or other inscribed output is spent besides the outgoing one
  let inscribed: BTreeSet<OutPoint> = inscriptions.keys().map(|s| s.outpoint).collect();
  for i in &tx.input {
    let op = i.previous_output;
    if op == outgoing.outpoint {
      continue;
    }
    if runic.contains(&op) {
      return fail("input/runic-output-spent", format!("spends runic output {op}"));
    }
    if locked.contains(&op) {
      return fail("input/locked-output-spent", format!("spends locked output {op}"));
    }
    if inscribed.contains(&op) {
      return fail("input/other-inscribed-output-spent", format!("spends inscribed output {op}"));
    }
  }
  // FIFO positions
  let mut starts: BTreeMap<OutPoint, u64> = BTreeMap::new();
  let mut acc = 0u64;
  for i in &tx.input {
    starts.insert(i.previous_output, acc);
    acc += amounts[&i.previous_output].value.to_sat();
  }
  let total_in = acc;
  let total_out: u64 = tx.output.iter().map(|o| o.value.to_sat()).sum();
  if total_out > total_in {
    return fail("value/outputs-exceed-inputs", format!("outputs {total_out} > inputs {total_in}"));
  }
  let locate = |pos: u64| -> Option<(usize, u64)> {
    let mut end = 0u64;
    for (k, o) in tx.output.iter().enumerate() {
      let start = end;
      end += o.value.to_sat();
      if pos < end {
        return Some((k, pos - start));
      }
    }
    None
  };
  // 1. outgoing sat is the first sat of the single recipient output
  let recipients: Vec<usize> = tx.output.iter().enumerate().filter(|(_, o)| o.script_pubkey == recipient).map(|(k, _)| k).collect();
  if recipients.len() != 1 {
    return fail("recipient/not-exactly-one-output", format!("{} outputs pay the recipient", recipients.len()));
  }
  let pos = starts[&outgoing.outpoint] + outgoing.offset;
  match locate(pos) {
    None => return fail("outgoing/sent-to-fees", "the outgoing sat is paid as fee".into()),
    Some((k, off)) => {
      if k != recipients[0] {
        return fail("outgoing/not-in-recipient-output", format!("the outgoing sat lands in output {k}, the recipient output is {}", recipients[0]));
      }
      if off != 0 {
        return fail("outgoing/not-first-sat-of-recipient-output", format!("the outgoing sat is at offset {off} of the recipient output"));
      }
    }
  }
  // 2. no other inscription goes to the recipient or into fees
  for (sp, ids) in &inscriptions {
    if *sp == outgoing {
      if ids.len() > 1 {
        continue;
      }
      continue;
    }
    if let Some(s) = starts.get(&sp.outpoint) {
      match locate(s + sp.offset) {
        None => return fail("other-inscription/sent-to-fees", format!("inscription at {sp} is paid as fee")),
        Some((k, _)) if k == recipients[0] => return fail("other-inscription/sent-to-recipient", format!("inscription at {sp} goes to the recipient")),
        _ => {}
      }
    }
  }
  // 4. every other output is wallet change
  for (k, o) in tx.output.iter().enumerate() {
    if k != recipients[0] && !change.contains(&o.script_pubkey) {
      return fail("output/not-change", format!("output {k} pays an unknown script"));
    }
  }
  // 5. no dust
  for (k, o) in tx.output.iter().enumerate() {
    if o.value.to_sat() < dust(&o.script_pubkey) {
      return fail("output/dust", format!("output {k} of {} sats is below the dust limit {}", o.value.to_sat(), dust(&o.script_pubkey)));
    }
  }
  // 7. fee = rate x estimated signed size
  let mut signed = tx.clone();
  for i in &mut signed.input {
    i.witness = Witness::from_slice(&[&[0u8; 64]]);
  }
  let vsize = signed.vsize();
  let expected_fee = (c.fee_rate * vsize as f64).round() as u64;
  if total_in - total_out != expected_fee {
    return fail("fee/not-rate-times-size", format!("fee {} but rate {} x vsize {vsize} = {expected_fee}", total_in - total_out, c.fee_rate));
  }
  // 6. value / postage bounds
  let rv = tx.output[recipients[0]].value.to_sat();
  let slop = (c.fee_rate * 43.0).round() as u64;
  match c.target {
    Tgt::Value(v) => {
      if rv < v {
        return fail("target/value-not-reached", format!("recipient receives {rv} < requested {v}"));
      }
    }
    Tgt::Postage => {
      if rv > 20_000 + slop {
        return fail("target/postage-cap-exceeded", format!("recipient receives {rv} > 20000 + {slop}"));
      }
    }
    Tgt::Exact(p) => {
      if rv > p + slop {
        return fail("target/postage-cap-exceeded", format!("recipient receives {rv} > {p} + {slop}"));
      }
    }
  }
  let _ = (TxIn::default(), Sequence::MAX, LockTime::ZERO, Version(2));
  Ok("built")
}

fn multisets(values: &[u64], n: usize) -> Vec<Vec<u64>> {
  fn rec(values: &[u64], n: usize, start: usize, cur: &mut Vec<u64>, out: &mut Vec<Vec<u64>>) {
    if cur.len() == n {
      out.push(cur.clone());
      return;
    }
    for i in start..values.len() {
      cur.push(values[i]);
      rec(values, n, i, cur, out);
      cur.pop();
    }
  }
  let mut out = Vec::new();
  rec(values, n, 0, &mut Vec::new(), &mut out);
  out
}

pub fn run(ctx: &Ctx) -> Report {
  let mut report = Report::new("C20", &ctx.tier, "exploration");

  if let Some(path) = &ctx.replay {
    let v: Value = serde_json::from_str(&std::fs::read_to_string(path).expect("read replay")).expect("json");
    let c = Case::from_json(&v["replay"]);
    match check(&c) {
      Ok(o) => println!("replay: {o}"),
      Err((class, what)) => {
        println!("replay: {class}: {what}");
        report.violation(class, what, v["replay"].clone());
      }
    }
    report.set("evaluations", 1u64);
    report.set("distinct_nontrivial", 2u64);
    report.set("rule", "replay of one recorded case");
    report.sample(c.json());
    return report;
  }

  let thorough = ctx.thorough();
  let values: Vec<u64> = if thorough {
    vec![294, 330, 546, 1000, 5000, 9999, 10_000, 10_001, 20_000, 20_001, 1_000_000, 5_000_000_000]
  } else {
    vec![330, 546, 1000, 10_000, 20_001, 1_000_000]
  };
  let max_n = if thorough { 4 } else { 3 };
  let fee_rates: Vec<f64> = if thorough { vec![0.0, 0.1, 1.0, 1.5, 100.0, 1e6, 1.8e19] } else { vec![0.0, 1.0, 1.5, 100.0, 1.8e19] };
  let recipients = [Recipient::P2tr, Recipient::P2wpkh, Recipient::OpReturn, Recipient::Change0];
  let mut wallets: Vec<Vec<u64>> = Vec::new();
  for n in 1..=max_n {
    wallets.extend(multisets(&values, n));
  }
  // work item = (wallet, outgoing output index)
  let items: Vec<(usize, usize)> = wallets.iter().enumerate().flat_map(|(wi, w)| (0..w.len()).map(move |i| (wi, i))).collect();
  let (results, capped) = util::par_map(
    items.len(),
    Some(util::Budget::new(if thorough { 1500 } else { 50 })),
    |_| (),
    |_, ii| {
      let (wi, oi) = items[ii];
      let w = &wallets[wi];
      let n = w.len();
      let ov = w[oi];
      let mut evals = 0u64;
      let mut outcomes: BTreeMap<&'static str, u64> = BTreeMap::new();
      let mut viol: BTreeMap<String, (String, Value)> = BTreeMap::new();
      let mut offs: Vec<u64> = vec![0, 1, 293, 294, 329, 330, 545, 546, ov / 2, ov.saturating_sub(547), ov.saturating_sub(1)];
      offs.retain(|o| *o < ov);
      offs.sort();
      offs.dedup();
      // other inscriptions: none; one at (j, off); two
      let mut other_sets: Vec<Vec<(usize, u64)>> = vec![vec![]];
      for j in 0..n {
        let v = w[j];
        let mut o2: Vec<u64> = vec![0, 293, 294, 546, v.saturating_sub(1)];
        o2.retain(|o| *o < v);
        o2.sort();
        o2.dedup();
        for off in o2 {
          other_sets.push(vec![(j, off)]);
          if thorough && j + 1 < n {
            other_sets.push(vec![(j, off), (j + 1, 0)]);
          }
        }
      }
      // pairs: an inscription in one output together with an inscribed output elsewhere (both orders of
      // the outpoints); explored with unmarked outputs only in the quick tier
      let first_pair = other_sets.len();
      for j in 0..n {
        let v = w[j];
        let mut o2: Vec<u64> = vec![0, 293, 294, 546, v.saturating_sub(1)];
        o2.retain(|o| *o < v);
        o2.sort();
        o2.dedup();
        for off in o2 {
          for k in 0..n {
            if k != j && !(thorough && k == j + 1) {
              other_sets.push(vec![(j, off), (k, 0)]);
            }
          }
        }
      }
      let mark_choices = [Mark::Plain, Mark::Runic, Mark::Locked];
      let n_marks = 3usize.pow(n as u32);
      let mut targets: Vec<Tgt> = vec![Tgt::Postage];
      for p in [329, 330, 546, 10_000] {
        targets.push(Tgt::Exact(p));
      }
      for v in [293, 294, 546, 1000, 10_000, ov.saturating_sub(1).max(1), ov, ov + 1, 25_000] {
        targets.push(Tgt::Value(v));
      }
      for off in &offs {
        for (si, others) in other_sets.iter().enumerate() {
          // an inscription on the outgoing satpoint itself is the outgoing one: skip duplicates
          if others.iter().any(|(j, o)| *j == oi && *o == *off) {
            continue;
          }
          for m in 0..n_marks {
            let marks: Vec<Mark> = (0..n).map(|k| mark_choices[(m / 3usize.pow(k as u32)) % 3]).collect();
            // keep the space small: at most one locked and the outgoing output never locked
            if marks[oi] == Mark::Locked || marks.iter().filter(|x| **x == Mark::Locked).count() > 1 {
              continue;
            }
            if !thorough && si >= first_pair && m != 0 {
              continue;
            }
            // the window in which "is the excess over the target enough for a non-dust change output" flips:
            // value - target = change dust limit + fee of one more output, for an unknown transaction size;
            // swept sat by sat for the plain single-inscription wallets at 0 and 1 sat/vB
            if n <= 2 && others.is_empty() && m == 0 && *off == 0 {
              for r in [Recipient::P2tr, Recipient::P2wpkh] {
                for fr in [0.0f64, 1.0] {
                  let lo = if fr == 0.0 { 290 } else { 330 + 100 };
                  let hi = if fr == 0.0 { 335 } else { 330 + 260 };
                  for gap in lo..=hi {
                    let Some(tv) = ov.checked_sub(gap) else { continue };
                    if tv == 0 {
                      continue;
                    }
                    for t in [Tgt::Value(tv), Tgt::Exact(tv)] {
                      let c = Case { values: w.clone(), outgoing: (oi, *off), others: others.clone(), marks: marks.clone(), recipient: r, target: t, fee_rate: fr };
                      evals += 1;
                      match check(&c) {
                        Ok(o) => *outcomes.entry(o).or_default() += 1,
                        Err((class, what)) => {
                          viol.entry(class).or_insert((what, c.json()));
                        }
                      }
                    }
                  }
                }
              }
            }
            for r in recipients {
              for t in &targets {
                for fr in &fee_rates {
                  // thin the product in the quick tier: non-p2tr recipients only with the first two fee rates
                  if !thorough && r != Recipient::P2tr && *fr > 1.0 && !(n <= 2 && *fr == 100.0) {
                    continue;
                  }
                  let c = Case { values: w.clone(), outgoing: (oi, *off), others: others.clone(), marks: marks.clone(), recipient: r, target: *t, fee_rate: *fr };
                  evals += 1;
                  match check(&c) {
                    Ok(o) => *outcomes.entry(o).or_default() += 1,
                    Err((class, what)) => {
                      viol.entry(class).or_insert((what, c.json()));
                    }
                  }
                }
              }
            }
          }
        }
      }
      (evals, outcomes, viol)
    },
  );
  let mut evals = 0u64;
  let mut outcomes: BTreeMap<&'static str, u64> = BTreeMap::new();
  let mut done = 0usize;
  for r in results.into_iter().flatten() {
    done += 1;
    evals += r.0;
    for (k, v) in r.1 {
      *outcomes.entry(k).or_default() += v;
    }
    for (class, (what, replay)) in r.2 {
      report.violation(class, what, replay);
    }
  }
  report.set("evaluations", evals.max(1));
  report.set("distinct_nontrivial", evals.max(2));
  report.set("transactions_built", outcomes.get("built").cloned().unwrap_or(0));
  report.set("errors_returned", outcomes.get("error").cloned().unwrap_or(0));
  report.set("wallets", wallets.len() as u64);
  report.set("work_items_done", done as u64);
  report.set("work_items", items.len() as u64);
  report.set("exhaustive", !capped);
  report.set("capped", capped);
  report.set(
    "rule",
    format!(
      "complete product: wallets = all multisets of 1..{max_n} outputs over values {values:?}; outgoing = every output x offsets {{0,1,293,294,329,330,545,546,half,value-547,value-1}}; other inscriptions = none / one at any output at \
       offsets {{0,293,294,546,value-1}}{}; marks = every assignment of plain/runic/locked (at most one locked, outgoing never locked); recipient = p2tr / p2wpkh / OP_RETURN / equal to a change address; \
       target = Postage, ExactPostage{{329,330,546,10000}}, Value{{293,294,546,1000,10000,v-1,v,v+1,25000}}; fee rate = {fee_rates:?}; cases are distinct by construction (nested loops); every case is non-trivial",
      if thorough { " / two" } else { "" }
    ),
  );
  report.sample(Case { values: vec![546, 10_000, 1_000_000], outgoing: (1, 294), others: vec![(2, 0)], marks: vec![Mark::Plain, Mark::Runic, Mark::Locked], recipient: Recipient::P2wpkh, target: Tgt::Value(10_000), fee_rate: 1.5 }.json());
  report.assume("TransactionBuilder is driven directly; how the wallet gathers utxos, inscriptions, runic and locked sets is the subject of C21-C23");
  report.assume("post-conditions are recomputed from the returned transaction and the case alone (FIFO positions over inputs, dust limits from rust-bitcoin, fee = round(rate x vsize with 64-byte witnesses))");
  report
}
