//! E6: wallet engines. `builder` drives `TransactionBuilder` directly (C20);
//! `runes` (C22, C23) runs real wallet commands against
//! mockcore's wallet emulation and a live ord server, in worker processes
//! (ord's server and CLI keep process-global state).
pub mod batch;
pub mod builder;
pub mod env;
pub mod offers;
pub mod runes;

use {
  crate::{Ctx, evidence::Report, util},
  serde_json::{Value, json},
  std::{
    collections::BTreeMap,
    io::{BufRead, BufReader},
    process::{Command, Stdio},
  },
};

/// Entry point of `vcheck --worker <engine> <property> <shard> <shards> <tier>`.
pub fn worker(args: &[String]) -> i32 {
  let engine = args[0].as_str();
  let property = args[1].as_str();
  let shard: usize = args[2].parse().unwrap();
  let shards: usize = args[3].parse().unwrap();
  let thorough = args[4] == "thorough";
  let only: Option<usize> = args.get(5).and_then(|s| s.parse().ok());
  match engine {
    "runes" => {
      let list = if property == "C22" { runes::scenarios_c22(thorough) } else { runes::scenarios_c23(thorough) };
      for (i, sc) in list.iter().enumerate() {
        if i % shards != shard || only.map(|o| o != i).unwrap_or(false) {
          continue;
        }
        let o = match util::catch(|| runes::run(sc, &format!("{property}-{shard}"))) {
          Ok(o) => o,
          Err(p) => runes::Outcome { violations: vec![("MACHINERY", "harness-panic".into(), p)], label: "harness-panic".into() },
        };
        let line = json!({"index": i, "scenario": sc.json(), "label": o.label, "violations": o.violations.iter().map(|(p, c, w)| json!([p, c, w])).collect::<Vec<_>>()});
        println!("RESULT {line}");
      }
      0
    }
    "batch" => {
      let list = batch::scenarios(thorough);
      for (i, sc) in list.iter().enumerate() {
        if i % shards != shard || only.map(|o| o != i).unwrap_or(false) {
          continue;
        }
        let o = match util::catch(|| batch::run(sc, &format!("{property}-{shard}"))) {
          Ok(o) => o,
          Err(p) => batch::Outcome { violations: vec![("MACHINERY", "harness-panic".into(), p)], label: "harness-panic".into() },
        };
        let line = json!({"index": i, "scenario": sc.json(), "label": o.label, "violations": o.violations.iter().map(|(p, c, w)| json!([p, c, w])).collect::<Vec<_>>()});
        println!("RESULT {line}");
      }
      0
    }
    "offers" => {
      let list = offers::offers(thorough);
      let world = match offers::build(&format!("C24-{shard}")) {
        Ok(w) => w,
        Err(e) => {
          for (i, o) in list.iter().enumerate() {
            if i % shards == shard {
              println!("RESULT {}", json!({"index": i, "scenario": o.json(), "label": "setup-failed", "violations": [["MACHINERY", "setup", e]]}));
            }
          }
          return 0;
        }
      };
      for (i, o) in list.iter().enumerate() {
        if i % shards != shard || only.map(|x| x != i).unwrap_or(false) {
          continue;
        }
        let r = match util::catch(|| offers::run(&world, o)) {
          Ok(r) => r,
          Err(p) => offers::Outcome { violations: vec![("MACHINERY", "harness-panic".into(), p)], label: "harness-panic".into() },
        };
        println!("RESULT {}", json!({"index": i, "scenario": o.json(), "label": r.label, "violations": r.violations.iter().map(|(p, c, w)| json!([p, c, w])).collect::<Vec<_>>()}));
      }
      0
    }
    _ => 2,
  }
}

/// Runs all scenarios of `engine`/`property` in worker processes and folds the results.
pub fn run_in_workers(ctx: &Ctx, engine: &str, property: &'static str, total: usize, rule: &str) -> Report {
  let mut report = Report::new(property, &ctx.tier, "exploration");
  let exe = std::env::current_exe().expect("current exe");
  let only: Option<String> = ctx.replay.as_ref().map(|path| {
    let v: Value = serde_json::from_str(&std::fs::read_to_string(path).expect("read replay")).expect("json");
    v["replay"]["index"].as_u64().unwrap().to_string()
  });
  let shards = if only.is_some() { 1 } else { util::workers().min(total.max(1)) };
  let mut children = Vec::new();
  for s in 0..shards {
    let mut cmd = Command::new(&exe);
    cmd.args(["--worker", engine, property, &s.to_string(), &shards.to_string(), &ctx.tier]);
    if let Some(o) = &only {
      cmd.arg(o);
    }
    cmd.stdout(Stdio::piped()).stderr(Stdio::null()).stdin(Stdio::null());
    match cmd.spawn() {
      Ok(c) => children.push(c),
      Err(e) => println!("MACHINERY: cannot spawn worker: {e}"),
    }
  }
  let mut done = 0u64;
  let mut labels: BTreeMap<String, u64> = BTreeMap::new();
  let mut machinery = 0u64;
  for mut c in children {
    let out = c.stdout.take().unwrap();
    for line in BufReader::new(out).lines().map_while(Result::ok) {
      let Some(rest) = line.strip_prefix("RESULT ") else { continue };
      let Ok(v) = serde_json::from_str::<Value>(rest) else { continue };
      done += 1;
      *labels.entry(v["label"].as_str().unwrap_or("").to_string()).or_default() += 1;
      if done % 17 == 1 {
        report.sample(v["scenario"].clone());
      }
      for viol in v["violations"].as_array().cloned().unwrap_or_default() {
        let (p, class, what) = (viol[0].as_str().unwrap_or(""), viol[1].as_str().unwrap_or(""), viol[2].as_str().unwrap_or(""));
        if p == property {
          report.violation(class.to_string(), format!("{what} [scenario {}]", v["scenario"]), json!({"index": v["index"], "scenario": v["scenario"]}));
        } else if p == "MACHINERY" {
          machinery += 1;
          println!("MACHINERY: scenario {} {}: {class}: {what}", v["index"], v["scenario"]);
        }
      }
    }
    let _ = c.wait();
  }
  if only.is_none() && done != total as u64 {
    println!("MACHINERY: {done} of {total} scenarios reported a result");
    report.violation("machinery/scenarios-missing", format!("{done} of {total} scenarios reported a result"), json!({}));
  }
  if machinery > 0 {
    report.violation("machinery/scenario-setup", format!("{machinery} scenarios could not be set up"), json!({}));
  }
  report.set("evaluations", done.max(1));
  report.set("distinct_nontrivial", done.max(2));
  report.set("outcomes", json!(labels));
  report.set("exhaustive", done == total as u64);
  report.set("rule", rule.to_string());
  report.assume("environment = mockcore's wallet emulation (fundrawtransaction adds the largest unlocked wallet outputs first; signatures are not validated) and a live in-process ord server; effects are read back from the index after mining");
  report
}

pub fn run_c21(ctx: &Ctx) -> Report {
  let n = batch::scenarios(ctx.thorough()).len();
  let mut r = run_in_workers(
    ctx,
    "batch",
    "C21",
    n,
    "complete product: batch files over mode {shared-output, separate-outputs, same-sat, satpoints} x entries {1,2(,3)} x parents {0,1(,2)} x postage {default(,546),20000} x first entry {plain, metadata+metaprotocol, delegate} x \
     etching {none, premine(, terms only, premine+terms)} plus designated targets (satpoint / sat of a cardinal, reinscription of a wallet inscription, a foreign destination); the wallet holds two parent inscriptions, a third \
     inscription, a runic output and cardinals; every file is run by the real `ord wallet batch`, commit and reveal are mined (commitments matured) and ids, locations, destinations, parents, entry attributes, parent ownership, \
     commit/reveal inputs and the etched rune with its premine output are read back from the index",
  );
  r.assume("refusals by the planner (printed in `outcomes`) are not violations; the property quantifies over batches the planner accepts");
  r
}

pub fn run_c22(ctx: &Ctx) -> Report {
  let n = runes::scenarios_c22(ctx.thorough()).len();
  run_in_workers(
    ctx,
    "runes",
    "C22",
    n,
    "complete product: rune inventories of the wallet (1-3 runic outputs holding subsets of two runes, an inscribed runic output, a small cardinal) x {send, burn} x amounts {0, 1, balance of the first output, +1, total, total+1} \
     plus split files (one output, two outputs, two runes, a zero amount); every command is run by the real `ord wallet` CLI, the broadcast transaction is mined and the recipient / wallet / burned amounts are read back from the \
     index; distinct by construction",
  )
}

pub fn run_c23(ctx: &Ctx) -> Report {
  let n = runes::scenarios_c23(ctx.thorough()).len();
  run_in_workers(
    ctx,
    "runes",
    "C23",
    n,
    "complete product: every assignment of {cardinal, inscribed, runic, inscribed+runic (, other rune)} to 2 (3) wallet outputs that are LARGER than the one cardinal able to fund the command (the mock node funds largest-first, so a \
     missing lock is forced to collide) x commands {send sats, mint, send rune, burn rune, split}; oracle: broadcast transactions spend no inscribed output and no runic output that does not hold the rune the command is about, and \
     every unspent non-cardinal output is in the node's lock set when funding happened",
  )
}

pub fn run_c24(ctx: &Ctx) -> Report {
  let n = offers::offers(ctx.thorough()).len();
  let mut r = run_in_workers(
    ctx,
    "offers",
    "C24",
    n,
    "complete product: PSBTs whose inputs are every sequence of 1..2 (all 1..3 in the thorough tier, plus a slice of triples around the inscription input in quick) distinct kinds out of {wallet output with the named inscription, \
     wallet output with another inscription, wallet cardinal, wallet runic output, wallet output the node reports as LOCKED, foreign finalized, foreign unsigned, foreign with script sig and witness, foreign finalized with another \
     witness} x payment to the wallet {amount-1, amount, amount+1} x inscription named on the command line {the first, the other}; each is offered to the real `ord wallet offer accept`; whenever the wallet signs and broadcasts, \
     every clause of the property is checked against the harness's knowledge of the wallet; the number of accepted offers is in `outcomes`",
  );
  r.assume("mainnet chain parameters with the integration-test switch (the mock node's simulaterawtransaction only recognises mainnet wallet addresses)");
  r.assume("the mock finalizer replaces every witness by a fixed 64-byte signature, so only offers whose foreign signatures equal that value can be accepted; rejecting a good offer is not a violation");
  r
}
