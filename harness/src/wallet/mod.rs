//! E6: wallet engines. `builder` drives `TransactionBuilder` directly (C20).
pub mod builder;
