//! Wallet test environment: mockcore (with its wallet emulation), an in-process
//! `ord server` that keeps the index in sync, and the `ord` command line run in
//! short-lived subprocesses (`vcheck --ord-cli ...` -> `ord::verif::run_cli`).

use {
  crate::{
    txkit,
    util::Scratch,
  },
  bitcoin::{Address, Amount, OutPoint, ScriptBuf, Transaction, Txid, Witness, script},
  mockcore::TransactionTemplate,
  ord::{Index, InscriptionId},
  ordinals::{Rune, RuneId},
  serde_json::Value,
  std::{
    collections::{BTreeMap, BTreeSet},
    net::SocketAddr,
    path::PathBuf,
    process::{Command, Stdio},
    sync::Arc,
    time::Duration,
  },
};

pub struct Cli {
  pub code: i32,
  pub stdout: String,
  pub stderr: String,
}

impl Cli {
  pub fn ok(&self) -> bool {
    self.code == 0
  }
  pub fn json(&self) -> Option<Value> {
    serde_json::from_str(&self.stdout).ok()
  }
}

pub struct Env {
  pub core: mockcore::Handle,
  pub scratch: Scratch,
  pub server_url: String,
  pub index: Arc<Index>,
  handle: axum_server::Handle<SocketAddr>,
  thread: Option<std::thread::JoinHandle<()>>,
  exe: PathBuf,
  pub cwd: PathBuf,
  http: reqwest::blocking::Client,
  pub chain: &'static str,
  pub network: bitcoin::Network,
}

impl Env {
  pub fn new(tag: &str, index_sats: bool) -> anyhow::Result<Env> {
    Self::new_on(tag, index_sats, "regtest")
  }

  pub fn new_on(tag: &str, index_sats: bool, chain: &'static str) -> anyhow::Result<Env> {
    let network = if chain == "mainnet" { bitcoin::Network::Bitcoin } else { bitcoin::Network::Regtest };
    let core = mockcore::builder().network(network).build();
    let scratch = Scratch::new(&format!("wallet-{tag}"));
    let srv_dir = scratch.sub("server");
    let cwd = scratch.sub("cli");
    let cookie = srv_dir.join("cookie");
    std::fs::write(&cookie, "username:password")?;
    let args = format!(
      "ord --chain {chain} --bitcoin-rpc-url {} --cookie-file {} --bitcoin-data-dir {} --datadir {} --index-cache-size 33554432 --index-runes {} server --http-port 0 --address 127.0.0.1 --polling-interval 100ms",
      core.url(),
      cookie.display(),
      srv_dir.display(),
      srv_dir.display(),
      if index_sats { "--index-sats" } else { "" },
    );
    let (settings, server) = ord::parse_ord_server_args(&args);
    let index = Arc::new(Index::open(&settings)?);
    let handle = axum_server::Handle::new();
    let (tx, rx) = std::sync::mpsc::channel();
    let (i2, h2) = (index.clone(), handle.clone());
    let thread = std::thread::spawn(move || {
      let _ = server.run(settings, i2, h2, Some(tx));
    });
    let port = rx.recv_timeout(Duration::from_secs(120)).map_err(|_| anyhow::anyhow!("ord server did not start"))?;
    Ok(Env {
      core,
      scratch,
      server_url: format!("http://127.0.0.1:{port}"),
      index,
      handle,
      thread: Some(thread),
      exe: std::env::current_exe()?,
      cwd,
      http: reqwest::blocking::Client::builder().no_proxy().timeout(Duration::from_secs(120)).build()?,
      chain,
      network,
    })
  }

  /// Runs `ord <global options> <args>`; `args` may contain `wallet`, after which `--server-url` is inserted.
  pub fn ord(&self, args: &[&str]) -> Cli {
    let cookie = self.core_cookie();
    let mut full: Vec<String> = vec![
      "--ord-cli".into(),
      "ord".into(),
      "--chain".into(),
      self.chain.into(),
      "--bitcoin-rpc-url".into(),
      self.core.url(),
      "--cookie-file".into(),
      cookie.display().to_string(),
      "--datadir".into(),
      self.cwd.display().to_string(),
      "--index-runes".into(),
    ];
    for a in args {
      full.push(a.to_string());
      if *a == "wallet" {
        full.push("--server-url".into());
        full.push(self.server_url.clone());
      }
    }
    let out = Command::new(&self.exe)
      .args(&full)
      .env("ORD_INTEGRATION_TEST", "1")
      .env("TOKIO_WORKER_THREADS", "1")
      .current_dir(&self.cwd)
      .stdin(Stdio::null())
      .output();
    match out {
      Ok(o) => Cli { code: o.status.code().unwrap_or(-1), stdout: String::from_utf8_lossy(&o.stdout).to_string(), stderr: String::from_utf8_lossy(&o.stderr).to_string() },
      Err(e) => Cli { code: -2, stdout: String::new(), stderr: format!("spawn failed: {e}") },
    }
  }

  /// Like `ord`, but while the command runs the harness mines whatever the command broadcasts
  /// (and, with `keep_mining`, further empty blocks so that a commitment can mature).
  /// Returns the result and the transactions mined meanwhile.
  pub fn ord_while_mining(&self, args: &[&str], keep_mining: bool) -> (Cli, Vec<Transaction>) {
    let cookie = self.core_cookie();
    let mut full: Vec<String> = vec![
      "--ord-cli".into(), "ord".into(), "--chain".into(), self.chain.into(), "--bitcoin-rpc-url".into(), self.core.url(),
      "--cookie-file".into(), cookie.display().to_string(), "--datadir".into(), self.cwd.display().to_string(), "--index-runes".into(),
    ];
    for a in args {
      full.push(a.to_string());
      if *a == "wallet" {
        full.push("--server-url".into());
        full.push(self.server_url.clone());
      }
    }
    let (so, se) = (self.cwd.join("stdout.txt"), self.cwd.join("stderr.txt"));
    let child = Command::new(&self.exe)
      .args(&full)
      .env("ORD_INTEGRATION_TEST", "1")
      .env("TOKIO_WORKER_THREADS", "1")
      .current_dir(&self.cwd)
      .stdin(Stdio::null())
      .stdout(std::fs::File::create(&so).expect("stdout file"))
      .stderr(std::fs::File::create(&se).expect("stderr file"))
      .spawn();
    let mut child = match child {
      Ok(c) => c,
      Err(e) => return (Cli { code: -2, stdout: String::new(), stderr: format!("spawn failed: {e}") }, Vec::new()),
    };
    let mut mined = Vec::new();
    let mut seen_broadcast = false;
    let mut blocks = 0;
    let mut code = -3;
    for _ in 0..3000 {
      if let Ok(Some(st)) = child.try_wait() {
        code = st.code().unwrap_or(-1);
        break;
      }
      let pool = self.mempool();
      if !pool.is_empty() {
        seen_broadcast = true;
      }
      if (!pool.is_empty() || (keep_mining && seen_broadcast)) && blocks < 12 {
        mined.extend(pool);
        self.mine(1, 0);
        blocks += 1;
        let _ = self.sync();
      }
      std::thread::sleep(Duration::from_millis(10));
    }
    if code == -3 {
      let _ = child.kill();
      let _ = child.wait();
    }
    let read = |p: &PathBuf| std::fs::read_to_string(p).unwrap_or_default();
    (Cli { code, stdout: read(&so), stderr: read(&se) }, mined)
  }

  fn core_cookie(&self) -> PathBuf {
    let p = self.scratch.path.join("core-cookie");
    if !p.exists() {
      let _ = std::fs::write(&p, "username:password");
    }
    p
  }

  pub fn write_file(&self, name: &str, contents: &[u8]) {
    std::fs::write(self.cwd.join(name), contents).expect("write file");
  }

  /// Makes the ord server index the node's tip.
  pub fn sync(&self) -> anyhow::Result<()> {
    let want = self.core.height() + 1;
    for _ in 0..3000 {
      let r = self.http.get(format!("{}/update", self.server_url)).send()?;
      let n: u64 = r.text()?.trim().parse().unwrap_or(0);
      if n >= want {
        return Ok(());
      }
      std::thread::sleep(Duration::from_millis(20));
    }
    anyhow::bail!("ord server did not reach height {want}")
  }

  pub fn mine(&self, n: u64, subsidy: u64) {
    self.core.mine_blocks_with_subsidy(n, subsidy);
  }

  pub fn wallet_address(&self) -> Address {
    self.core.state().new_address(false)
  }

  pub fn get_json(&self, path: &str) -> Option<Value> {
    let r = self.http.get(format!("{}{}", self.server_url, path)).header("accept", "application/json").send().ok()?;
    if !r.status().is_success() {
      return None;
    }
    r.json().ok()
  }

  /// rune balances of an output as reported by the server: name -> amount
  pub fn output_runes(&self, op: OutPoint) -> BTreeMap<String, u128> {
    let mut m = BTreeMap::new();
    if let Some(v) = self.get_json(&format!("/output/{op}"))
      && let Some(r) = v["runes"].as_object()
    {
      for (k, p) in r {
        m.insert(k.clone(), p["amount"].as_u64().map(u128::from).or_else(|| p["amount"].as_str().and_then(|s| s.parse().ok())).unwrap_or(0));
      }
    }
    m
  }

  pub fn output_inscriptions(&self, op: OutPoint) -> Vec<String> {
    self
      .get_json(&format!("/output/{op}"))
      .and_then(|v| v["inscriptions"].as_array().map(|a| a.iter().filter_map(|x| x.as_str().map(|s| s.to_string())).collect()))
      .unwrap_or_default()
  }

  pub fn mempool(&self) -> Vec<Transaction> {
    self.core.state().mempool.clone()
  }

  pub fn locked(&self) -> BTreeSet<OutPoint> {
    self.core.state().locked.clone()
  }

  pub fn utxos(&self) -> BTreeMap<OutPoint, Amount> {
    self.core.state().utxos.clone()
  }

  pub fn is_wallet_script(&self, script: &ScriptBuf) -> bool {
    match Address::from_script(script, self.network) {
      Ok(a) => self.core.state().is_wallet_address(&a),
      Err(_) => false,
    }
  }

  pub fn tx(&self, txid: Txid) -> Option<Transaction> {
    self.core.state().transactions.get(&txid).cloned()
  }

  /// Broadcasts a harness-crafted transaction (signatures are not validated by the mock node).
  pub fn broadcast(&self, inputs: &[(usize, usize, usize, Witness)], values: &[u64], recipient: &Address, op_return: Option<ScriptBuf>) -> Txid {
    // total input value
    let total: u64 = {
      let st = self.core.state();
      inputs
        .iter()
        .map(|(h, t, v, _)| {
          let hash = st.hashes[*h];
          st.blocks[&hash].txdata[*t].output[*v].value.to_sat()
        })
        .sum()
    };
    let out_total: u64 = values.iter().sum();
    let n = values.len();
    // the template insists on value_per_output * outputs + fee == total
    let per = out_total / n as u64;
    let fee = total - per * n as u64;
    self.core.broadcast_tx(TransactionTemplate {
      inputs,
      fee,
      outputs: n,
      output_values: values,
      recipient: Some(recipient.clone()),
      op_return,
      ..Default::default()
    })
  }
}

impl Drop for Env {
  fn drop(&mut self) {
    self.handle.shutdown();
    if let Some(t) = self.thread.take() {
      let _ = t.join();
    }
    ord::shut_down();
    for _ in 0..100 {
      if Arc::strong_count(&self.index) <= 1 {
        break;
      }
      std::thread::sleep(Duration::from_millis(20));
    }
    ord::cancel_shutdown();
  }
}

pub fn commit_witness(rune: Rune) -> Witness {
  let s = txkit::push(script::Builder::new(), &rune.commitment()).into_script().into_bytes();
  txkit::tapscript_witness(&s)
}

pub fn envelope_witness(body: &[u8]) -> Witness {
  let s = txkit::envelope_script(&[(vec![1u8], b"image/png".to_vec())], Some(body)).into_bytes();
  txkit::tapscript_witness(&s)
}

pub fn rune_name(r: Rune) -> String {
  r.to_string()
}

pub fn iid(txid: Txid, index: u32) -> InscriptionId {
  InscriptionId { txid, index }
}

pub fn rid(block: u64, tx: u32) -> RuneId {
  RuneId { block, tx }
}
