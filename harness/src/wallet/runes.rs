//! C22 (wallet rune sends, burns and splits move exactly the requested amounts)
//! and C23 (node-funded wallet transactions never spend inscribed or runic
//! outputs): real wallet commands against mockcore's wallet emulation and a live
//! ord server; effects are read back from the index after mining.

use {
  super::env::{Cli, Env, commit_witness, envelope_witness},
  crate::{
    chain::runes::runestone_script,
    txkit::{self, Spk},
  },
  bitcoin::{Address, OutPoint, Transaction, Witness},
  ordinals::{Height, Rune},
  serde_json::{Value, json},
  std::collections::{BTreeMap, BTreeSet},
};

#[derive(Clone, Copy, Debug, PartialEq)]
pub enum Kind {
  Cardinal,
  Inscribed,
  R0(u128),
  R1(u128),
  Both(u128, u128),
  InscribedR0(u128),
}

impl Kind {
  pub fn r0(&self) -> u128 {
    match self {
      Kind::R0(a) | Kind::Both(a, _) | Kind::InscribedR0(a) => *a,
      _ => 0,
    }
  }
  pub fn r1(&self) -> u128 {
    match self {
      Kind::R1(a) | Kind::Both(_, a) => *a,
      _ => 0,
    }
  }
  pub fn inscribed(&self) -> bool {
    matches!(self, Kind::Inscribed | Kind::InscribedR0(_))
  }
  pub fn cardinal(&self) -> bool {
    matches!(self, Kind::Cardinal)
  }
}

#[derive(Clone, Debug, PartialEq)]
pub enum Cmd {
  SendSats(u64),
  Mint,
  /// (rune index, amount) per split output (each to a fresh foreign address)
  Split(Vec<(usize, u128)>),
  SendRune(usize, u128),
  BurnRune(usize, u128),
}

#[derive(Clone, Debug)]
pub struct Scenario {
  pub outs: Vec<Kind>,
  pub cmd: Cmd,
}

impl Scenario {
  pub fn json(&self) -> Value {
    json!({"outs": self.outs.iter().map(|k| format!("{k:?}")).collect::<Vec<_>>(), "cmd": format!("{:?}", self.cmd)})
  }
}

pub struct Built {
  pub env: Env,
  /// current outpoint of each designated output
  pub ops: Vec<OutPoint>,
  pub values: Vec<u64>,
  pub runes: [Rune; 2],
  pub rune_names: [String; 2],
  pub foreign: Address,
}

fn value_of(k: &Kind, i: usize) -> u64 {
  if k.cardinal() { 100_000 + 1000 * i as u64 } else { 600_000 + 1000 * i as u64 }
}

/// Builds the wallet state of `sc` on a fresh environment.
pub fn build(sc: &Scenario, tag: &str) -> Result<Built, String> {
  let env = Env::new(tag, false).map_err(|e| format!("env: {e:#}"))?;
  let c = env.ord(&["wallet", "create"]);
  if !c.ok() {
    return Err(format!("wallet create failed: {}", c.stderr));
  }
  // blocks 1,2: 50 BTC coinbases to the wallet (commit outputs); blocks 3..7: zero subsidy
  env.mine(2, 5_000_000_000);
  env.mine(5, 0);
  let h = (env.core.height() + 1) as u32; // etch height (8)
  let min = Rune::minimum_at_height(bitcoin::Network::Regtest, Height(h)).0;
  let runes = [Rune(min + 1000), Rune(min + 2000)];
  let w = env.wallet_address();
  let cb = |height: usize| -> OutPoint {
    let st = env.core.state();
    let hash = st.hashes[height];
    OutPoint { txid: st.blocks[&hash].txdata[0].compute_txid(), vout: 0 }
  };
  let n = sc.outs.len();
  let values: Vec<u64> = sc.outs.iter().enumerate().map(|(i, k)| value_of(k, i)).collect();
  // etch R0: outputs = designated outputs (all of them, values as designated), then sink, then runestone
  let total0: u128 = sc.outs.iter().map(|k| k.r0()).sum();
  let mut ints: Vec<u128> = vec![2, 3, 4, runes[0].0, 6, total0, 10, 7, 8, 100];
  let mut edicts: Vec<u128> = Vec::new();
  for (i, k) in sc.outs.iter().enumerate() {
    if k.r0() > 0 {
      edicts.extend([0, 0, k.r0(), i as u128]);
    }
  }
  if !edicts.is_empty() {
    ints.push(0);
    ints.extend(edicts);
  }
  let mut outs: Vec<bitcoin::TxOut> = values.iter().map(|v| txkit::txout(*v, w.script_pubkey())).collect();
  let spent: u64 = values.iter().sum();
  outs.push(txkit::txout(5_000_000_000 - spent, Spk::A.script())); // sink to a foreign script
  outs.push(txkit::txout(0, runestone_script(&ints)));
  let etch0 = txkit::tx(vec![txkit::txin(cb(1), commit_witness(runes[0]))], outs);
  let etch0_id = etch0.compute_txid();
  // etch R1 with holder outputs for every designated output that needs R1
  let total1: u128 = sc.outs.iter().map(|k| k.r1()).sum();
  let mut ints: Vec<u128> = vec![2, 1, 4, runes[1].0, 6, total1.max(1)];
  let holders: Vec<usize> = sc.outs.iter().enumerate().filter(|(_, k)| k.r1() > 0).map(|(i, _)| i).collect();
  let mut edicts: Vec<u128> = Vec::new();
  for (j, i) in holders.iter().enumerate() {
    edicts.extend([0, 0, sc.outs[*i].r1(), j as u128]);
  }
  let mut outs: Vec<bitcoin::TxOut> = holders.iter().map(|_| txkit::txout(10_000, w.script_pubkey())).collect();
  let sink_index = outs.len();
  outs.push(txkit::txout(5_000_000_000 - 10_000 * holders.len() as u64, Spk::A.script()));
  if !edicts.is_empty() {
    ints.push(0);
    ints.extend(edicts);
  } else {
    // nobody needs R1: premine 1 goes to the foreign sink
    ints.extend([22, sink_index as u128]);
  }
  outs.push(txkit::txout(0, runestone_script(&ints)));
  let etch1 = txkit::tx(vec![txkit::txin(cb(2), commit_witness(runes[1]))], outs);
  let etch1_id = etch1.compute_txid();
  {
    let mut st = env.core.state();
    st.mempool.push(etch0);
    st.mempool.push(etch1);
  }
  env.mine(1, 0);
  let mut ops: Vec<OutPoint> = (0..n as u32).map(|v| OutPoint { txid: etch0_id, vout: v }).collect();
  // merges (R0/Cardinal output + R1 holder) and inscriptions
  let mut txs: Vec<Transaction> = Vec::new();
  for (i, k) in sc.outs.iter().enumerate() {
    let holder = holders.iter().position(|x| *x == i).map(|j| OutPoint { txid: etch1_id, vout: j as u32 });
    let needs_tx = holder.is_some() || k.inscribed();
    if !needs_tx {
      continue;
    }
    let mut ins = vec![txkit::txin(ops[i], if k.inscribed() { envelope_witness(format!("insc{i}").as_bytes()) } else { Witness::new() })];
    if let Some(hop) = holder {
      ins.push(txkit::txin(hop, Witness::new()));
    }
    // keep the designated value; the holder's 10k becomes fee. Every second such output sits at vout 1
    // behind an empty OP_RETURN, so that designated outputs are not all `<txid>:0`
    let (outs, vout) = if i % 2 == 1 {
      (vec![txkit::txout(0, Spk::OpReturnData.script()), txkit::txout(values[i], w.script_pubkey())], 1)
    } else {
      (vec![txkit::txout(values[i], w.script_pubkey())], 0)
    };
    let tx = txkit::tx(ins, outs);
    ops[i] = OutPoint { txid: tx.compute_txid(), vout };
    txs.push(tx);
  }
  if !txs.is_empty() {
    env.core.state().mempool.extend(txs);
    env.mine(1, 0);
  }
  env.mine(1, 0);
  env.sync().map_err(|e| format!("sync: {e:#}"))?;
  let rune_names = [runes[0].to_string(), runes[1].to_string()];
  let foreign: Address = "bcrt1pyrmadgg78e38ewfv0an8c6eppk2fttv5vnuvz04yza60qau5va0saknu8k".parse::<Address<bitcoin::address::NetworkUnchecked>>().unwrap().assume_checked();
  // sanity: the index sees the designed state
  for (i, k) in sc.outs.iter().enumerate() {
    let r = env.output_runes(ops[i]);
    let got0 = r.get(&rune_names[0]).cloned().unwrap_or(0);
    let got1 = r.get(&rune_names[1]).cloned().unwrap_or(0);
    let insc = env.output_inscriptions(ops[i]).len();
    if got0 != k.r0() || got1 != k.r1() || (insc > 0) != k.inscribed() {
      return Err(format!("setup mismatch for output {i} ({k:?}): runes {r:?} inscriptions {insc}"));
    }
  }
  Ok(Built { env, ops, values, runes, rune_names, foreign })
}

pub struct Outcome {
  pub violations: Vec<(&'static str, String, String)>,
  pub label: String,
}

fn run_cmd(b: &Built, cmd: &Cmd) -> Cli {
  let f = b.foreign.to_string();
  match cmd {
    Cmd::SendSats(n) => b.env.ord(&["wallet", "send", "--fee-rate", "1", &f, &format!("{n}sat")]),
    Cmd::Mint => b.env.ord(&["wallet", "mint", "--fee-rate", "1", "--rune", &b.rune_names[0]]),
    Cmd::SendRune(r, a) => b.env.ord(&["wallet", "send", "--fee-rate", "1", &f, &format!("{a}:{}", b.rune_names[*r])]),
    Cmd::BurnRune(r, a) => b.env.ord(&["wallet", "burn", "--fee-rate", "1", &format!("{a}:{}", b.rune_names[*r])]),
    Cmd::Split(outs) => {
      let mut y = String::from("outputs:\n");
      for (r, a) in outs {
        y.push_str(&format!("- address: {f}\n  runes:\n    {}: {a}\n", b.rune_names[*r]));
      }
      b.env.write_file("splits.yaml", y.as_bytes());
      b.env.ord(&["wallet", "split", "--fee-rate", "1", "--splits", "splits.yaml"])
    }
  }
}

/// Runs one scenario and evaluates the C22 and C23 oracles.
pub fn run(sc: &Scenario, tag: &str) -> Outcome {
  let mut v: Vec<(&'static str, String, String)> = Vec::new();
  let b = match build(sc, tag) {
    Ok(b) => b,
    Err(e) => {
      return Outcome { violations: vec![("MACHINERY", "setup".into(), e)], label: "setup-failed".into() };
    }
  };
  let burned_before: [u128; 2] = [burned(&b, 0), burned(&b, 1)];
  let cli = run_cmd(&b, &sc.cmd);
  let mempool = b.env.mempool();
  let locked = b.env.locked();
  let noncardinal: BTreeSet<OutPoint> = sc.outs.iter().enumerate().filter(|(_, k)| !k.cardinal()).map(|(i, _)| b.ops[i]).collect();
  let inscribed: BTreeSet<OutPoint> = sc.outs.iter().enumerate().filter(|(_, k)| k.inscribed()).map(|(i, _)| b.ops[i]).collect();
  let label;

  // ---------- C23: no inscribed / runic output other than the subject is spent ----------
  let subject_rune: Option<usize> = match &sc.cmd {
    Cmd::SendRune(r, _) | Cmd::BurnRune(r, _) => Some(*r),
    _ => None,
  };
  let split_runes: BTreeSet<usize> = if let Cmd::Split(o) = &sc.cmd { o.iter().map(|(r, _)| *r).collect() } else { BTreeSet::new() };
  for tx in &mempool {
    for i in &tx.input {
      let op = i.previous_output;
      let Some(k) = sc.outs.iter().enumerate().find(|(j, _)| b.ops[*j] == op).map(|(_, k)| *k) else { continue };
      if k.cardinal() {
        continue;
      }
      if inscribed.contains(&op) {
        v.push(("C23", "spent/inscribed-output".into(), format!("{:?} spends inscribed output {op} ({k:?})", sc.cmd)));
        continue;
      }
      // runic, not inscribed: allowed only if it holds the rune the command is about
      let holds_subject = match subject_rune {
        Some(0) => k.r0() > 0,
        Some(1) => k.r1() > 0,
        _ => split_runes.iter().any(|r| if *r == 0 { k.r0() > 0 } else { k.r1() > 0 }),
      };
      if !holds_subject {
        v.push(("C23", "spent/runic-output-not-subject".into(), format!("{:?} spends runic output {op} ({k:?}) which does not hold the rune the command is about", sc.cmd)));
      }
    }
  }
  if cli.ok() && !mempool.is_empty() {
    // every non-cardinal output that was not spent must have been locked before funding
    let spent: BTreeSet<OutPoint> = mempool.iter().flat_map(|t| t.input.iter().map(|i| i.previous_output)).collect();
    for op in &noncardinal {
      if !spent.contains(op) && !locked.contains(op) {
        v.push(("C23", "lock/non-cardinal-output-not-locked".into(), format!("{:?} funded a transaction while {op} (inscribed or runic) was not locked", sc.cmd)));
      }
    }
  }

  // ---------- C22: exact amounts ----------
  match &sc.cmd {
    Cmd::SendRune(r, a) | Cmd::BurnRune(r, a) if *a == 0 => {
      label = format!("zero-request/{}", if cli.ok() { "accepted" } else { "rejected" });
      if cli.ok() {
        let what = if matches!(sc.cmd, Cmd::SendRune(..)) { "send" } else { "burn" };
        v.push(("C22", format!("zero-amount-accepted/{what}"), format!("`wallet {what} 0:{}` was accepted and broadcast {} transaction(s)", b.rune_names[*r], mempool.len())));
      }
    }
    Cmd::Split(outs) if outs.iter().any(|(_, a)| *a == 0) => {
      label = format!("zero-request/{}", if cli.ok() { "accepted" } else { "rejected" });
      if cli.ok() {
        v.push(("C22", "zero-amount-accepted/split".into(), "a split file with a zero amount was accepted".into()));
      }
    }
    Cmd::SendRune(..) | Cmd::BurnRune(..) | Cmd::Split(..) => {
      if !cli.ok() {
        label = "command-refused".into();
      } else {
        label = "broadcast".into();
        // mine and read the effects back from the index
        let txs = mempool.clone();
        b.env.mine(1, 0);
        if let Err(e) = b.env.sync() {
          v.push(("MACHINERY", "sync".into(), format!("{e:#}")));
        }
        let total_in: [u128; 2] = {
          let mut t = [0u128; 2];
          for tx in &txs {
            for i in &tx.input {
              if let Some((_, k)) = sc.outs.iter().enumerate().find(|(j, _)| b.ops[*j] == i.previous_output) {
                t[0] += k.r0();
                t[1] += k.r1();
              }
            }
          }
          t
        };
        let mut to_foreign = [0u128; 2];
        let mut to_wallet = [0u128; 2];
        let mut per_foreign_output: Vec<[u128; 2]> = Vec::new();
        for tx in &txs {
          let txid = tx.compute_txid();
          for (vout, o) in tx.output.iter().enumerate() {
            let r = b.env.output_runes(OutPoint { txid, vout: vout as u32 });
            let a = [r.get(&b.rune_names[0]).cloned().unwrap_or(0), r.get(&b.rune_names[1]).cloned().unwrap_or(0)];
            if a == [0, 0] {
              continue;
            }
            if b.env.is_wallet_script(&o.script_pubkey) {
              to_wallet[0] += a[0];
              to_wallet[1] += a[1];
            } else {
              to_foreign[0] += a[0];
              to_foreign[1] += a[1];
              per_foreign_output.push(a);
            }
          }
        }
        let burned_now = [burned(&b, 0) - burned_before[0], burned(&b, 1) - burned_before[1]];
        let mut want_foreign = [0u128; 2];
        let mut want_burn = [0u128; 2];
        match &sc.cmd {
          Cmd::SendRune(r, a) => want_foreign[*r] = *a,
          Cmd::BurnRune(r, a) => want_burn[*r] = *a,
          Cmd::Split(outs) => {
            for (r, a) in outs {
              want_foreign[*r] += *a;
            }
          }
          _ => {}
        }
        for r in 0..2 {
          if to_foreign[r] != want_foreign[r] {
            v.push(("C22", "amount/recipient-got-wrong-amount".into(), format!("{:?}: recipients hold {} of rune {r}, requested {}", sc.cmd, to_foreign[r], want_foreign[r])));
          }
          if burned_now[r] != want_burn[r] {
            v.push(("C22", if want_burn[r] == 0 { "burn/unrequested-burn".into() } else { "burn/wrong-amount".into() }, format!("{:?}: burned {} of rune {r}, requested {}", sc.cmd, burned_now[r], want_burn[r])));
          }
          let want_wallet = total_in[r] - want_foreign[r].min(total_in[r]) - want_burn[r].min(total_in[r]);
          if to_wallet[r] != want_wallet {
            v.push(("C22", "change/other-balances-not-returned-to-wallet".into(), format!("{:?}: wallet outputs hold {} of rune {r} after the transaction, expected {want_wallet} (inputs held {})", sc.cmd, to_wallet[r], total_in[r])));
          }
        }
        if let Cmd::Split(outs) = &sc.cmd {
          let mut want: Vec<[u128; 2]> = outs.iter().map(|(r, a)| if *r == 0 { [*a, 0] } else { [0, *a] }).collect();
          let mut got = per_foreign_output.clone();
          want.sort();
          got.sort();
          if want != got {
            v.push(("C22", "amount/split-outputs-differ".into(), format!("split outputs hold {got:?}, requested {want:?}")));
          }
        }
      }
    }
    _ => {
      label = if cli.ok() { "broadcast".into() } else { "command-refused".into() };
    }
  }
  if cli.code == 101 || cli.stderr.contains("panicked") {
    v.push(("C22", "command-panicked".into(), format!("{:?} panicked: {}", sc.cmd, cli.stderr.lines().take(3).collect::<Vec<_>>().join(" | "))));
  }
  Outcome { violations: v, label }
}

fn burned(b: &Built, r: usize) -> u128 {
  b.env
    .get_json(&format!("/rune/{}", b.rune_names[r]))
    .and_then(|v| v["entry"]["burned"].as_u64().map(u128::from).or_else(|| v["entry"]["burned"].as_str().and_then(|s| s.parse().ok())))
    .unwrap_or(0)
}

/// The scenario lists of C22 and C23.
pub fn scenarios_c22(thorough: bool) -> Vec<Scenario> {
  let mut out = Vec::new();
  let inventories: Vec<Vec<Kind>> = vec![
    vec![Kind::R0(10), Kind::Cardinal],
    vec![Kind::R0(5), Kind::R0(10), Kind::Cardinal],
    vec![Kind::Both(5, 1), Kind::R0(10), Kind::Cardinal],
    vec![Kind::R0(1), Kind::R1(5), Kind::Both(10, 10), Kind::Cardinal],
    vec![Kind::InscribedR0(10), Kind::R0(5), Kind::Cardinal],
  ];
  for inv in inventories.iter().take(if thorough { 5 } else { 3 }) {
    let total0: u128 = inv.iter().filter(|k| !k.inscribed()).map(|k| k.r0()).sum();
    let first0 = inv.iter().filter(|k| !k.inscribed()).map(|k| k.r0()).find(|a| *a > 0).unwrap_or(0);
    let mut amounts: Vec<u128> = vec![0, 1, first0, first0 + 1, total0, total0 + 1];
    // every single output's balance and every sum of two outputs' balances (the amount at which
    // "inputs cover the request exactly" for some selection), and one more
    let singles: Vec<u128> = inv.iter().filter(|k| !k.inscribed()).map(|k| k.r0()).filter(|a| *a > 0).collect();
    for (i, a) in singles.iter().enumerate() {
      amounts.extend([*a, *a + 1]);
      for b in &singles[i + 1..] {
        amounts.extend([a + b, a + b + 1]);
      }
    }
    amounts.retain(|a| *a <= total0 + 1);
    amounts.sort();
    amounts.dedup();
    for a in amounts {
      out.push(Scenario { outs: inv.clone(), cmd: Cmd::SendRune(0, a) });
      out.push(Scenario { outs: inv.clone(), cmd: Cmd::BurnRune(0, a) });
    }
    out.push(Scenario { outs: inv.clone(), cmd: Cmd::Split(vec![(0, 1)]) });
    out.push(Scenario { outs: inv.clone(), cmd: Cmd::Split(vec![(0, 2), (0, 3)]) });
    out.push(Scenario { outs: inv.clone(), cmd: Cmd::Split(vec![(0, 0)]) });
    if inv.iter().any(|k| k.r1() > 0) {
      out.push(Scenario { outs: inv.clone(), cmd: Cmd::SendRune(1, 1) });
      out.push(Scenario { outs: inv.clone(), cmd: Cmd::Split(vec![(0, 1), (1, 1)]) });
      out.push(Scenario { outs: inv.clone(), cmd: Cmd::BurnRune(1, 1) });
    }
  }
  out
}

pub fn scenarios_c23(thorough: bool) -> Vec<Scenario> {
  let kinds: Vec<Kind> = if thorough { vec![Kind::Cardinal, Kind::Inscribed, Kind::R0(10), Kind::R1(5), Kind::InscribedR0(10)] } else { vec![Kind::Cardinal, Kind::Inscribed, Kind::R0(10), Kind::InscribedR0(10)] };
  let cmds = vec![Cmd::SendSats(5000), Cmd::Mint, Cmd::SendRune(0, 3), Cmd::BurnRune(0, 3), Cmd::Split(vec![(0, 2)])];
  let mut out = Vec::new();
  let n = if thorough { 3 } else { 2 };
  let mut idx = vec![0usize; n];
  loop {
    // designated outputs + one small cardinal that can fund the command
    let mut outs: Vec<Kind> = idx.iter().map(|i| kinds[*i]).collect();
    outs.push(Kind::Cardinal);
    for c in &cmds {
      out.push(Scenario { outs: outs.clone(), cmd: c.clone() });
    }
    let mut j = 0;
    loop {
      if j == n {
        return out;
      }
      idx[j] += 1;
      if idx[j] < kinds.len() {
        break;
      }
      idx[j] = 0;
      j += 1;
    }
  }
}
