//! C21 (batch inscribing produces exactly the inscriptions and locations it
//! reports): every batch description of a small product space is handed to the
//! real `ord wallet batch` command line against mockcore's wallet emulation and
//! a live ord server; commit and reveal are mined and every clause of the
//! property is read back from the index.

use {
  super::env::{Env, commit_witness, envelope_witness},
  crate::{
    chain::runes::runestone_script,
    txkit::{self, Spk},
  },
  bitcoin::{Address, OutPoint, Transaction, Txid, Witness},
  ord::InscriptionId,
  ordinals::{Height, Rune},
  serde_json::{Value, json},
  std::collections::BTreeSet,
};

#[derive(Clone, Copy, Debug, PartialEq)]
pub enum ModeK {
  Shared,
  Separate,
  SameSat,
  SatPoints,
}

impl ModeK {
  fn yaml(&self) -> &'static str {
    match self {
      ModeK::Shared => "shared-output",
      ModeK::Separate => "separate-outputs",
      ModeK::SameSat => "same-sat",
      ModeK::SatPoints => "satpoints",
    }
  }
}

#[derive(Clone, Copy, Debug, PartialEq)]
pub enum Extras {
  None,
  /// metadata and metaprotocol on the first entry
  Meta,
  /// the first entry is a delegate without a file
  Delegate,
}

#[derive(Clone, Copy, Debug, PartialEq)]
pub enum EtchK {
  None,
  Premine,
  TermsOnly,
  PremineAndTerms,
}

#[derive(Clone, Copy, Debug, PartialEq)]
pub enum Target {
  /// the planner picks the sat
  Default,
  /// `satpoint:` naming the first sat of a cardinal output (same-sat)
  SatpointCardinal,
  /// `sat:` naming the first sat of a cardinal output (same-sat, needs the sat index)
  Sat,
  /// reinscription on the sat of an existing wallet inscription
  Reinscribe,
}

#[derive(Clone, Debug)]
pub struct Scenario {
  pub mode: ModeK,
  pub n: usize,
  pub parents: usize,
  pub postage: Option<u64>,
  pub extras: Extras,
  pub etch: EtchK,
  pub target: Target,
  pub foreign_dest: bool,
}

impl Scenario {
  pub fn json(&self) -> Value {
    json!({
      "mode": self.mode.yaml(), "inscriptions": self.n, "parents": self.parents, "postage": self.postage,
      "extras": format!("{:?}", self.extras), "etching": format!("{:?}", self.etch), "target": format!("{:?}", self.target),
      "foreign_destination": self.foreign_dest,
    })
  }
}

pub fn scenarios(thorough: bool) -> Vec<Scenario> {
  let mut out = Vec::new();
  let modes = [ModeK::Shared, ModeK::Separate, ModeK::SameSat, ModeK::SatPoints];
  let ns: &[usize] = if thorough { &[1, 2, 3] } else { &[1, 2] };
  let parents: &[usize] = if thorough { &[0, 1, 2] } else { &[0, 1] };
  let postages: &[Option<u64>] = if thorough { &[None, Some(546), Some(20_000)] } else { &[None, Some(20_000)] };
  let extras = [Extras::None, Extras::Meta, Extras::Delegate];
  let etches: &[EtchK] = if thorough { &[EtchK::None, EtchK::Premine, EtchK::TermsOnly, EtchK::PremineAndTerms] } else { &[EtchK::None, EtchK::Premine] };
  for mode in modes {
    for &n in ns {
      for &p in parents {
        for &postage in postages {
          if mode == ModeK::SatPoints && postage.is_some() {
            continue;
          }
          for ex in extras {
            for &etch in etches {
              // quick tier: etchings only with plain entries, extras only without etching
              if !thorough && etch != EtchK::None && ex != Extras::None {
                continue;
              }
              if !thorough && ex == Extras::Delegate && (p > 0 || postage.is_some()) {
                continue;
              }
              out.push(Scenario { mode, n, parents: p, postage, extras: ex, etch, target: Target::Default, foreign_dest: false });
            }
          }
        }
      }
    }
  }
  // quick tier: two parents only in a thin slice (the thorough tier has them in the full product)
  if !thorough {
    for mode in modes {
      out.push(Scenario { mode, n: 2, parents: 2, postage: None, extras: Extras::None, etch: EtchK::None, target: Target::Default, foreign_dest: false });
      out.push(Scenario { mode, n: 1, parents: 2, postage: if mode == ModeK::SatPoints { None } else { Some(20_000) }, extras: Extras::Meta, etch: EtchK::Premine, target: Target::Default, foreign_dest: false });
    }
  }
  // targets, reinscriptions, foreign destinations
  for &n in ns {
    for &p in parents {
      out.push(Scenario { mode: ModeK::SameSat, n, parents: p, postage: None, extras: Extras::None, etch: EtchK::None, target: Target::SatpointCardinal, foreign_dest: false });
      out.push(Scenario { mode: ModeK::SameSat, n, parents: p, postage: Some(20_000), extras: Extras::None, etch: EtchK::None, target: Target::Reinscribe, foreign_dest: false });
      out.push(Scenario { mode: ModeK::SatPoints, n, parents: p, postage: None, extras: Extras::None, etch: EtchK::None, target: Target::Reinscribe, foreign_dest: false });
      out.push(Scenario { mode: ModeK::Separate, n, parents: p, postage: None, extras: Extras::None, etch: EtchK::None, target: Target::Default, foreign_dest: true });
      out.push(Scenario { mode: ModeK::SatPoints, n, parents: p, postage: None, extras: Extras::Meta, etch: EtchK::None, target: Target::Default, foreign_dest: true });
      if thorough {
        out.push(Scenario { mode: ModeK::SameSat, n, parents: p, postage: Some(546), extras: Extras::Meta, etch: EtchK::Premine, target: Target::Sat, foreign_dest: false });
        out.push(Scenario { mode: ModeK::SameSat, n, parents: p, postage: None, extras: Extras::None, etch: EtchK::None, target: Target::Sat, foreign_dest: false });
        out.push(Scenario { mode: ModeK::Separate, n, parents: p, postage: Some(546), extras: Extras::Delegate, etch: EtchK::PremineAndTerms, target: Target::Default, foreign_dest: true });
      }
    }
  }
  out
}

pub struct Built {
  pub env: Env,
  pub parent_ids: [InscriptionId; 2],
  pub parent_ops: [OutPoint; 2],
  pub d_id: InscriptionId,
  pub d_op: OutPoint,
  pub runic_op: OutPoint,
  pub cardinals: Vec<OutPoint>,
  pub existing_rune: String,
  pub foreign: Address,
}

const N_CARDINALS: usize = 4;

pub fn build(sc: &Scenario, tag: &str) -> Result<Built, String> {
  let env = Env::new(tag, sc.target == Target::Sat).map_err(|e| format!("env: {e:#}"))?;
  let c = env.ord(&["wallet", "create"]);
  if !c.ok() {
    return Err(format!("wallet create failed: {}", c.stderr));
  }
  env.mine(2, 5_000_000_000);
  env.mine(5, 0);
  let h = (env.core.height() + 1) as u32;
  let min = Rune::minimum_at_height(bitcoin::Network::Regtest, Height(h)).0;
  let r0 = Rune(min + 1000);
  let w = env.wallet_address();
  let cb1 = {
    let st = env.core.state();
    let hash = st.hashes[1];
    OutPoint { txid: st.blocks[&hash].txdata[0].compute_txid(), vout: 0 }
  };
  // fan-out that also etches R0 with its premine on output 3
  // the parents sit in outputs whose values differ from the default postage and from each other
  const EXISTING_VALUES: [u64; 3] = [20_000, 7_000, 10_000];
  let mut outs: Vec<bitcoin::TxOut> = vec![
    txkit::txout(EXISTING_VALUES[0], w.script_pubkey()),
    txkit::txout(EXISTING_VALUES[1], w.script_pubkey()),
    txkit::txout(EXISTING_VALUES[2], w.script_pubkey()),
    txkit::txout(600_000, w.script_pubkey()),
  ];
  for _ in 0..N_CARDINALS {
    outs.push(txkit::txout(2_000_000, w.script_pubkey()));
  }
  let spent: u64 = outs.iter().map(|o| o.value.to_sat()).sum();
  outs.push(txkit::txout(5_000_000_000 - spent, Spk::A.script()));
  outs.push(txkit::txout(0, runestone_script(&[2, 1, 4, r0.0, 6, 1000, 22, 3])));
  let fan = txkit::tx(vec![txkit::txin(cb1, commit_witness(r0))], outs);
  let fan_id = fan.compute_txid();
  env.core.state().mempool.push(fan);
  env.mine(1, 0);
  let mut txs: Vec<Transaction> = Vec::new();
  let mut ids = Vec::new();
  let mut ops = Vec::new();
  for i in 0..3u32 {
    let tx = txkit::tx(
      vec![txkit::txin(OutPoint { txid: fan_id, vout: i }, envelope_witness(format!("existing{i}").as_bytes()))],
      vec![txkit::txout(EXISTING_VALUES[i as usize], w.script_pubkey())],
    );
    ids.push(InscriptionId { txid: tx.compute_txid(), index: 0 });
    ops.push(OutPoint { txid: tx.compute_txid(), vout: 0 });
    txs.push(tx);
  }
  env.core.state().mempool.extend(txs);
  env.mine(1, 0);
  env.mine(1, 0);
  env.sync().map_err(|e| format!("sync: {e:#}"))?;
  let runic_op = OutPoint { txid: fan_id, vout: 3 };
  let existing_rune = r0.to_string();
  for (i, op) in ops.iter().enumerate() {
    if env.output_inscriptions(*op) != vec![ids[i].to_string()] {
      return Err(format!("setup mismatch: {op} does not hold {}", ids[i]));
    }
  }
  if env.output_runes(runic_op).get(&existing_rune) != Some(&1000) {
    return Err(format!("setup mismatch: {runic_op} does not hold the premine of {existing_rune}"));
  }
  let foreign: Address = "bcrt1pyrmadgg78e38ewfv0an8c6eppk2fttv5vnuvz04yza60qau5va0saknu8k".parse::<Address<bitcoin::address::NetworkUnchecked>>().unwrap().assume_checked();
  Ok(Built {
    env,
    parent_ids: [ids[0], ids[1]],
    parent_ops: [ops[0], ops[1]],
    d_id: ids[2],
    d_op: ops[2],
    runic_op,
    cardinals: (0..N_CARDINALS as u32).map(|i| OutPoint { txid: fan_id, vout: 4 + i }).collect(),
    existing_rune,
    foreign,
  })
}

pub struct Outcome {
  pub violations: Vec<(&'static str, String, String)>,
  pub label: String,
}

struct Etch {
  name: String,
  premine: u128,
  cap: u128,
  amount: u128,
}

fn etch_of(sc: &Scenario, height: u32) -> Option<Etch> {
  let min = Rune::minimum_at_height(bitcoin::Network::Regtest, Height(height)).0;
  let name = Rune(min + 7000).to_string();
  match sc.etch {
    EtchK::None => None,
    EtchK::Premine => Some(Etch { name, premine: 1000, cap: 0, amount: 0 }),
    EtchK::TermsOnly => Some(Etch { name, premine: 0, cap: 5, amount: 10 }),
    EtchK::PremineAndTerms => Some(Etch { name, premine: 77, cap: 5, amount: 10 }),
  }
}

/// The batch file of a scenario plus the satpoints the file designates.
fn batch_yaml(sc: &Scenario, b: &Built, etch: &Option<Etch>, first_sat_of_cardinal0: Option<u64>) -> Option<(String, BTreeSet<OutPoint>)> {
  let mut y = format!("mode: {}\n", sc.mode.yaml());
  let mut designated = BTreeSet::new();
  if sc.parents > 0 {
    y.push_str("parents:\n");
    for p in b.parent_ids.iter().take(sc.parents) {
      y.push_str(&format!("- {p}\n"));
    }
  }
  if let Some(p) = sc.postage {
    y.push_str(&format!("postage: {p}\n"));
  }
  // (in satpoints mode an entry may simply name the satpoint of an inscribed output; the flag is refused there)
  if sc.target == Target::Reinscribe && sc.mode != ModeK::SatPoints {
    y.push_str("reinscribe: true\n");
  }
  if sc.mode == ModeK::SameSat {
    match sc.target {
      Target::Default => {}
      Target::SatpointCardinal => {
        y.push_str(&format!("satpoint: {}:0\n", b.cardinals[0]));
        designated.insert(b.cardinals[0]);
      }
      Target::Sat => {
        y.push_str(&format!("sat: {}\n", first_sat_of_cardinal0?));
        designated.insert(b.cardinals[0]);
      }
      Target::Reinscribe => {
        y.push_str(&format!("satpoint: {}:0\n", b.d_op));
        designated.insert(b.d_op);
      }
    }
  }
  y.push_str("inscriptions:\n");
  for i in 0..sc.n {
    let mut lines: Vec<String> = Vec::new();
    if i == 0 && sc.extras == Extras::Delegate {
      lines.push(format!("delegate: {}", b.d_id));
    } else {
      lines.push(format!("file: f{i}.txt"));
      b.env.write_file(&format!("f{i}.txt"), format!("batch entry {i}").as_bytes());
    }
    if i == 0 && sc.extras == Extras::Meta {
      lines.push("metadata:\n    title: x".into());
      lines.push("metaprotocol: proto".into());
    }
    if sc.mode == ModeK::SatPoints {
      let op = if i == 0 && sc.target == Target::Reinscribe { b.d_op } else { *b.cardinals.get(i)? };
      lines.push(format!("satpoint: {op}:0"));
      designated.insert(op);
    }
    if i == 0 && sc.foreign_dest {
      lines.push(format!("destination: {}", b.foreign));
    }
    y.push_str(&format!("- {}\n", lines[0]));
    for l in &lines[1..] {
      y.push_str(&format!("  {l}\n"));
    }
  }
  if let Some(e) = etch {
    let supply = e.premine + e.cap * e.amount;
    y.push_str(&format!("etching:\n  rune: {}\n  divisibility: 0\n  premine: {}\n  supply: {}\n  symbol: $\n  turbo: false\n", e.name, e.premine, supply));
    if e.cap > 0 {
      y.push_str(&format!("  terms:\n    amount: {}\n    cap: {}\n", e.amount, e.cap));
    }
  }
  Some((y, designated))
}

fn inscription_count(env: &Env) -> u64 {
  env.get_json("/status").and_then(|v| v["inscriptions"].as_u64()).unwrap_or(0)
}

pub fn run(sc: &Scenario, tag: &str) -> Outcome {
  let mut v: Vec<(&'static str, String, String)> = Vec::new();
  let b = match build(sc, tag) {
    Ok(b) => b,
    Err(e) => return Outcome { violations: vec![("MACHINERY", "setup".into(), e)], label: "setup-failed".into() },
  };
  let env = &b.env;
  let etch = etch_of(sc, (env.core.height() + 1) as u32);
  let first_sat = if sc.target == Target::Sat {
    env.get_json(&format!("/output/{}", b.cardinals[0])).and_then(|v| v["sat_ranges"][0][0].as_u64())
  } else {
    None
  };
  let Some((yaml, designated)) = batch_yaml(sc, &b, &etch, first_sat) else {
    return Outcome { violations: vec![("MACHINERY", "setup".into(), "cannot render the batch file".into())], label: "setup-failed".into() };
  };
  env.write_file("batch.yaml", yaml.as_bytes());
  let before = inscription_count(env);
  let forbidden: BTreeSet<OutPoint> = [b.parent_ops[0], b.parent_ops[1], b.d_op, b.runic_op].into_iter().filter(|op| !designated.contains(op)).collect();

  // in satpoints mode the commit output only carries the reveal fee, which is below the dust limit at 1 sat/vB
  let fee_rate = if sc.mode == ModeK::SatPoints { "3" } else { "1" };
  let (cli, mined) = env.ord_while_mining(&["wallet", "batch", "--fee-rate", fee_rate, "--batch", "batch.yaml"], etch.is_some());
  if cli.code == 101 || cli.stderr.contains("panicked") {
    v.push(("C21", "command-panicked".into(), format!("`wallet batch` panicked: {}", cli.stderr.lines().filter(|l| l.contains("panicked") || l.contains("assert")).take(3).collect::<Vec<_>>().join(" | "))));
    return Outcome { violations: v, label: "panicked".into() };
  }
  if !cli.ok() {
    let why = cli.stderr.lines().find(|l| l.starts_with("error")).unwrap_or("").chars().take(60).collect::<String>();
    return Outcome { violations: v, label: format!("refused: {why}") };
  }
  let Some(out) = cli.json() else {
    v.push(("C21", "output/not-json".into(), format!("`wallet batch` succeeded but printed no JSON: {}", cli.stdout.chars().take(200).collect::<String>())));
    return Outcome { violations: v, label: "no-json".into() };
  };
  // everything broadcast gets mined
  let mut txs: Vec<Transaction> = mined;
  txs.extend(env.mempool());
  env.mine(1, 0);
  if let Err(e) = env.sync() {
    return Outcome { violations: vec![("MACHINERY", "sync".into(), format!("{e:#}"))], label: "sync-failed".into() };
  }
  let txid_of = |s: &Value| s.as_str().and_then(|x| x.parse::<Txid>().ok());
  let (Some(commit_id), Some(reveal_id)) = (txid_of(&out["commit"]), txid_of(&out["reveal"])) else {
    v.push(("C21", "output/malformed".into(), "commit / reveal txid missing".into()));
    return Outcome { violations: v, label: "malformed".into() };
  };
  let commit = txs.iter().find(|t| t.compute_txid() == commit_id);
  let reveal = txs.iter().find(|t| t.compute_txid() == reveal_id);
  let (Some(commit), Some(reveal)) = (commit, reveal) else {
    v.push(("C21", "broadcast/reported-transaction-not-broadcast".into(), format!("commit {commit_id} or reveal {reveal_id} was not broadcast (broadcast: {:?})", txs.iter().map(|t| t.compute_txid()).collect::<Vec<_>>())));
    return Outcome { violations: v, label: "not-broadcast".into() };
  };

  // ---- reported inscriptions are the indexed ones, at the reported locations ----
  let reported = out["inscriptions"].as_array().cloned().unwrap_or_default();
  if reported.len() != sc.n {
    v.push(("C21", "count/reported".into(), format!("{} inscriptions reported for {} entries", reported.len(), sc.n)));
  }
  let after = inscription_count(env);
  if after - before != sc.n as u64 {
    v.push(("C21", "count/indexed".into(), format!("the index gained {} inscriptions for a batch of {}", after - before, sc.n)));
  }
  let mut seen = BTreeSet::new();
  for (i, r) in reported.iter().enumerate() {
    let id = r["id"].as_str().unwrap_or("");
    if !seen.insert(id.to_string()) {
      v.push(("C21", "id/duplicate".into(), format!("inscription id {id} reported twice")));
    }
    let Some(ins) = env.get_json(&format!("/inscription/{id}")) else {
      v.push(("C21", "id/not-indexed".into(), format!("reported inscription {id} (entry {i}) does not exist in the index")));
      continue;
    };
    if ins["satpoint"].as_str() != r["location"].as_str() {
      v.push(("C21", "location/differs".into(), format!("entry {i}: reported location {} but the index places {id} at {}", r["location"], ins["satpoint"])));
    }
    if ins["address"].as_str() != r["destination"].as_str() {
      v.push(("C21", "destination/differs".into(), format!("entry {i}: reported destination {} but {id} sits at address {}", r["destination"], ins["address"])));
    }
    if i == 0 && sc.foreign_dest && r["destination"].as_str() != Some(&b.foreign.to_string()) {
      v.push(("C21", "destination/not-the-requested-one".into(), format!("entry 0 was to go to {} but is reported at {}", b.foreign, r["destination"])));
    }
    // parents
    let want_parents: Vec<String> = b.parent_ids.iter().take(sc.parents).map(|p| p.to_string()).collect();
    let got_parents: Vec<String> = ins["parents"].as_array().map(|a| a.iter().filter_map(|x| x.as_str().map(String::from)).collect()).unwrap_or_default();
    if got_parents != want_parents {
      v.push(("C21", "parents/differ".into(), format!("entry {i}: indexed parents {got_parents:?}, batch file names {want_parents:?}")));
    }
    // entry attributes
    if i == 0 && sc.extras == Extras::Meta {
      if ins["metaprotocol"].as_str() != Some("proto") {
        v.push(("C21", "entry/metaprotocol".into(), format!("entry 0: metaprotocol is {}", ins["metaprotocol"])));
      }
      let md = env.get_json(&format!("/r/metadata/{id}"));
      if md.as_ref().and_then(|m| m.as_str()) != Some("a1657469746c656178") {
        v.push(("C21", "entry/metadata".into(), format!("entry 0: metadata is {md:?}, expected CBOR of {{title: x}}")));
      }
    }
    if i == 0 && sc.extras == Extras::Delegate {
      let d = env.get_json(&format!("/r/inscription/{id}"));
      if d.as_ref().and_then(|m| m["delegate"].as_str()) != Some(&b.d_id.to_string()) {
        v.push(("C21", "entry/delegate".into(), format!("entry 0: delegate is {:?}, expected {}", d.map(|m| m["delegate"].clone()), b.d_id)));
      }
    }
    if i == 0 && etch.is_some() && ins["rune"].is_null() {
      // the first inscription of an etching batch carries the rune commitment; not part of the property
    }
  }
  // ---- parents return to the wallet ----
  for p in b.parent_ids.iter().take(sc.parents) {
    match env.get_json(&format!("/inscription/{p}")) {
      Some(ins) => {
        let addr = ins["address"].as_str().and_then(|a| a.parse::<Address<bitcoin::address::NetworkUnchecked>>().ok()).map(|a| a.assume_checked());
        let owned = addr.as_ref().map(|a| env.is_wallet_script(&a.script_pubkey())).unwrap_or(false);
        if !owned {
          v.push(("C21", "parents/not-returned-to-wallet".into(), format!("parent {p} is at {} ({}) after the batch, which is not a wallet address", ins["satpoint"], ins["address"])));
        }
      }
      None => v.push(("C21", "parents/vanished".into(), format!("parent {p} is not in the index after the batch"))),
    }
  }
  // ---- the commit spends no other inscribed or runic output ----
  for i in &commit.input {
    if forbidden.contains(&i.previous_output) {
      v.push(("C21", "commit/spends-inscribed-or-runic-output".into(), format!("commit transaction spends {} which holds an inscription or runes and is not named by the batch file", i.previous_output)));
    }
  }
  for i in &reveal.input {
    let op = i.previous_output;
    let is_parent = b.parent_ops.iter().take(sc.parents).any(|p| *p == op);
    if op.txid != commit_id && !is_parent && (forbidden.contains(&op) || op == b.runic_op) {
      v.push(("C21", "reveal/spends-inscribed-or-runic-output".into(), format!("reveal transaction spends {op} which holds an inscription or runes and is neither a parent nor a commit output")));
    }
  }
  // the pre-existing inscriptions and runes are where they were (unless designated or parents)
  if !designated.contains(&b.d_op) && env.output_inscriptions(b.d_op) != vec![b.d_id.to_string()] {
    v.push(("C21", "bystander/inscription-moved".into(), format!("inscription {} was moved by a batch that does not name it", b.d_id)));
  }
  if env.output_runes(b.runic_op).get(&b.existing_rune) != Some(&1000) {
    v.push(("C21", "bystander/runes-moved".into(), format!("the wallet's {} balance was moved by the batch", b.existing_rune)));
  }
  // ---- etching ----
  match (&etch, out["rune"].is_null()) {
    (None, false) => v.push(("C21", "rune/reported-without-etching".into(), format!("rune {} reported for a batch without etching", out["rune"]))),
    (Some(e), true) => v.push(("C21", "rune/not-reported".into(), format!("etching of {} not reported", e.name))),
    (Some(e), false) => {
      let r = &out["rune"];
      if r["rune"].as_str() != Some(&e.name) {
        v.push(("C21", "rune/name".into(), format!("reported rune {} but the file etches {}", r["rune"], e.name)));
      }
      match env.get_json(&format!("/rune/{}", e.name)) {
        None => v.push(("C21", "rune/not-etched".into(), format!("rune {} does not exist after commit and reveal were mined", e.name))),
        Some(entry) => {
          let num = |x: &Value| x.as_u64().map(u128::from).or_else(|| x.as_str().and_then(|s| s.parse().ok()));
          if num(&entry["entry"]["premine"]) != Some(e.premine) {
            v.push(("C21", "rune/premine".into(), format!("rune {} has premine {} instead of {}", e.name, entry["entry"]["premine"], e.premine)));
          }
          if entry["entry"]["etching"].as_str() != Some(&reveal_id.to_string()) {
            v.push(("C21", "rune/etching-txid".into(), format!("rune {} was etched by {} not by the reveal {reveal_id}", e.name, entry["entry"]["etching"])));
          }
          let (cap, amount) = (num(&entry["entry"]["terms"]["cap"]), num(&entry["entry"]["terms"]["amount"]));
          if e.cap > 0 && (cap != Some(e.cap) || amount != Some(e.amount)) {
            v.push(("C21", "rune/terms".into(), format!("rune {} has terms {} instead of cap {} amount {}", e.name, entry["entry"]["terms"], e.cap, e.amount)));
          }
          if e.cap == 0 && !entry["entry"]["terms"].is_null() {
            v.push(("C21", "rune/terms".into(), format!("rune {} has terms {} though the file has none", e.name, entry["entry"]["terms"])));
          }
        }
      }
      if e.premine > 0 {
        match r["location"].as_str().and_then(|s| s.parse::<OutPoint>().ok()) {
          None => v.push(("C21", "rune/premine-location-missing".into(), format!("premine of {} without a reported location", e.name))),
          Some(op) => {
            let held = env.output_runes(op).get(&e.name).cloned().unwrap_or(0);
            if held != e.premine {
              v.push(("C21", "rune/premine-not-at-reported-output".into(), format!("reported premine output {op} holds {held} of {} instead of {}", e.name, e.premine)));
            }
            let owned = reveal.output.get(op.vout as usize).map(|o| env.is_wallet_script(&o.script_pubkey)).unwrap_or(false);
            if op.txid != reveal_id || !owned {
              v.push(("C21", "rune/premine-output-not-in-wallet".into(), format!("reported premine output {op} is not a wallet output of the reveal")));
            }
          }
        }
      } else if !r["location"].is_null() {
        // a location without premine must at least hold nothing unexpected
        if let Some(op) = r["location"].as_str().and_then(|s| s.parse::<OutPoint>().ok())
          && !env.output_runes(op).is_empty()
        {
          v.push(("C21", "rune/unexpected-balance".into(), format!("output {op} holds runes though the premine is zero")));
        }
      }
    }
    (None, true) => {}
  }
  Outcome { violations: v, label: format!("inscribed/{}", sc.mode.yaml()) }
}
