//! C24: accepting an offer only signs the advertised trade.
//!
//! One wallet state (an output with the named inscription, an output with
//! another inscription, a cardinal, a runic output, a LOCKED wallet output,
//! foreign outputs) and every PSBT with 1..3 inputs drawn from eight input
//! kinds x payment {amount-1, amount, amount+1} x named inscription
//! {right, other} is offered to `ord wallet offer accept`. If the wallet signs
//! and broadcasts, every clause of the property must hold.

use {
  super::env::{Env, commit_witness, envelope_witness},
  crate::{
    chain::runes::runestone_script,
    txkit::{self, Spk},
  },
  bitcoin::{Amount, OutPoint, Psbt, ScriptBuf, Sequence, Transaction, TxIn, TxOut, Witness, absolute::LockTime, transaction::Version},
  ord::InscriptionId,
  ordinals::{Height, Rune},
  serde_json::{Value, json},
};

#[derive(Clone, Copy, Debug, PartialEq, Eq, PartialOrd, Ord)]
pub enum Inp {
  /// wallet output holding inscription I1
  Wi,
  /// wallet output holding inscription I2
  Wo,
  /// wallet cardinal
  Wc,
  /// wallet runic output
  Wr,
  /// wallet output that the node reports as locked
  Wl,
  /// foreign, finalized witness
  Fs,
  /// foreign, unsigned
  Fu,
  /// foreign, both script sig and witness
  Fb,
  /// foreign, finalized with a witness the mock finalizer will not reproduce
  Fx,
  /// wallet output that the node reports as locked, presented with a forged finalized witness
  Wls,
  /// wallet output holding inscription I3 AND runes
  Wir,
}

pub const KINDS: &[Inp] = &[Inp::Wi, Inp::Wo, Inp::Wc, Inp::Wr, Inp::Wl, Inp::Fs, Inp::Fu, Inp::Fb, Inp::Fx, Inp::Wls, Inp::Wir];
pub const AMOUNT: u64 = 5_000;

#[derive(Clone, Debug)]
pub struct Offer {
  pub inputs: Vec<Inp>,
  /// payment to the wallet relative to AMOUNT: -1, 0, +1
  pub delta: i64,
  /// inscription named on the command line: 1, 2 or 3
  pub named: u8,
}

impl Offer {
  pub fn json(&self) -> Value {
    json!({"inputs": self.inputs.iter().map(|i| format!("{i:?}")).collect::<Vec<_>>(), "payment_delta": self.delta, "named": format!("I{}", self.named)})
  }
}

pub fn offers(thorough: bool) -> Vec<Offer> {
  let mut seqs: Vec<Vec<Inp>> = Vec::new();
  for a in KINDS {
    seqs.push(vec![*a]);
    for b in KINDS {
      if a == b || (matches!(a, Inp::Wl | Inp::Wls) && matches!(b, Inp::Wl | Inp::Wls)) {
        continue;
      }
      if !thorough && *a != Inp::Wi && *b != Inp::Wi && !(*a == Inp::Wir && *b == Inp::Fs) && !(*a == Inp::Fs && *b == Inp::Wir) {
        continue;
      }
      seqs.push(vec![*a, *b]);
      if thorough {
        for c in KINDS {
          if c == a || c == b || (matches!(c, Inp::Wl | Inp::Wls) && (matches!(a, Inp::Wl | Inp::Wls) || matches!(b, Inp::Wl | Inp::Wls))) {
            continue;
          }
          seqs.push(vec![*a, *b, *c]);
        }
      }
    }
  }
  if !thorough {
    // a slice of the three-input space: the inscription input between a signed foreign input and every other kind
    for c in KINDS {
      if matches!(c, Inp::Wi | Inp::Fs) {
        continue;
      }
      seqs.push(vec![Inp::Fs, Inp::Wi, *c]);
    }
  }
  let mut out = Vec::new();
  for s in seqs {
    for delta in [-1i64, 0, 1] {
      for named in [1u8, 2, 3] {
        // naming I3 is only interesting when the runic inscribed output takes part
        if named == 3 && !s.contains(&Inp::Wir) {
          continue;
        }
        out.push(Offer { inputs: s.clone(), delta, named });
      }
    }
  }
  out
}

pub struct World {
  pub env: Env,
  pub ops: std::collections::BTreeMap<Inp, (OutPoint, u64)>,
  pub i1: InscriptionId,
  pub i2: InscriptionId,
  pub i3: InscriptionId,
}

pub fn build(tag: &str) -> Result<World, String> {
  let env = Env::new_on(tag, false, "mainnet").map_err(|e| format!("env: {e:#}"))?;
  let c = env.ord(&["wallet", "create"]);
  if !c.ok() {
    return Err(format!("wallet create failed: {}", c.stderr));
  }
  env.mine(1, 5_000_000_000);
  env.mine(6, 0);
  let h = (env.core.height() + 1) as u32;
  let rune = Rune(Rune::minimum_at_height(bitcoin::Network::Bitcoin, Height(h)).0 + 1000);
  let w = env.wallet_address();
  let cb1 = {
    let st = env.core.state();
    let hash = st.hashes[1];
    OutPoint { txid: st.blocks[&hash].txdata[0].compute_txid(), vout: 0 }
  };
  // outputs: 0 Wi, 1 Wo, 2 Wc, 3 Wr, 4 Wl, 5 Wir (wallet); 6 Fs, 7 Fu, 8 Fb, 9 Fx (foreign); 10 sink; 11 runestone
  let wallet_values = [10_000u64, 11_000, 50_000, 12_000, 70_000, 13_000];
  let foreign_values = [200_000u64, 210_000, 220_000, 230_000];
  let mut outs: Vec<TxOut> = wallet_values.iter().map(|v| txkit::txout(*v, w.script_pubkey())).collect();
  for v in foreign_values {
    outs.push(txkit::txout(v, Spk::A.script()));
  }
  let spent: u64 = wallet_values.iter().sum::<u64>() + foreign_values.iter().sum::<u64>();
  outs.push(txkit::txout(5_000_000_000 - spent, Spk::C.script()));
  outs.push(txkit::txout(0, runestone_script(&[2, 1, 4, rune.0, 6, 15, 0, 0, 0, 10, 3, 0, 0, 5, 5])));
  let setup = txkit::tx(vec![txkit::txin(cb1, commit_witness(rune))], outs);
  let sid = setup.compute_txid();
  env.core.state().mempool.push(setup);
  env.mine(1, 0);
  // inscribe outputs 0 and 1
  let t1 = txkit::tx(vec![txkit::txin(OutPoint { txid: sid, vout: 0 }, envelope_witness(b"I1"))], vec![txkit::txout(10_000, w.script_pubkey())]);
  let t2 = txkit::tx(vec![txkit::txin(OutPoint { txid: sid, vout: 1 }, envelope_witness(b"I2"))], vec![txkit::txout(11_000, w.script_pubkey())]);
  let t3 = txkit::tx(vec![txkit::txin(OutPoint { txid: sid, vout: 5 }, envelope_witness(b"I3"))], vec![txkit::txout(13_000, w.script_pubkey())]);
  let (id1, id2, id3) = (t1.compute_txid(), t2.compute_txid(), t3.compute_txid());
  {
    let mut st = env.core.state();
    st.mempool.push(t1);
    st.mempool.push(t2);
    st.mempool.push(t3);
  }
  env.mine(2, 0);
  env.sync().map_err(|e| format!("sync: {e:#}"))?;
  let mut ops = std::collections::BTreeMap::new();
  ops.insert(Inp::Wi, (OutPoint { txid: id1, vout: 0 }, 10_000));
  ops.insert(Inp::Wo, (OutPoint { txid: id2, vout: 0 }, 11_000));
  ops.insert(Inp::Wc, (OutPoint { txid: sid, vout: 2 }, 50_000));
  ops.insert(Inp::Wr, (OutPoint { txid: sid, vout: 3 }, 12_000));
  ops.insert(Inp::Wl, (OutPoint { txid: sid, vout: 4 }, 70_000));
  ops.insert(Inp::Fs, (OutPoint { txid: sid, vout: 6 }, 200_000));
  ops.insert(Inp::Fu, (OutPoint { txid: sid, vout: 7 }, 210_000));
  ops.insert(Inp::Fb, (OutPoint { txid: sid, vout: 8 }, 220_000));
  ops.insert(Inp::Fx, (OutPoint { txid: sid, vout: 9 }, 230_000));
  ops.insert(Inp::Wir, (OutPoint { txid: id3, vout: 0 }, 13_000));
  ops.insert(Inp::Wls, (OutPoint { txid: sid, vout: 4 }, 70_000));
  // the node reports Wl as locked
  env.core.state().locked.insert(ops[&Inp::Wl].0);
  // sanity
  if env.output_inscriptions(ops[&Inp::Wi].0).len() != 1 || env.output_inscriptions(ops[&Inp::Wo].0).len() != 1 || env.output_runes(ops[&Inp::Wr].0).is_empty() || env.output_runes(ops[&Inp::Wir].0).is_empty() || env.output_inscriptions(ops[&Inp::Wir].0).len() != 1 {
    return Err("offer setup mismatch".into());
  }
  Ok(World { env, ops, i1: InscriptionId { txid: id1, index: 0 }, i2: InscriptionId { txid: id2, index: 0 }, i3: InscriptionId { txid: id3, index: 0 } })
}

fn is_wallet(i: Inp) -> bool {
  matches!(i, Inp::Wi | Inp::Wo | Inp::Wc | Inp::Wr | Inp::Wl | Inp::Wls | Inp::Wir)
}

pub struct Outcome {
  pub violations: Vec<(&'static str, String, String)>,
  pub label: String,
}

pub fn run(w: &World, o: &Offer) -> Outcome {
  let mut v = Vec::new();
  // reset mempool from earlier offers
  w.env.core.state().mempool.clear();
  let wallet_in: u64 = o.inputs.iter().filter(|i| is_wallet(**i)).map(|i| w.ops[i].1).sum();
  let total_in: u64 = o.inputs.iter().map(|i| w.ops[i].1).sum();
  let pay_wallet = (wallet_in as i64 + AMOUNT as i64 + o.delta).max(0) as u64;
  if pay_wallet + 1000 > total_in {
    return Outcome { violations: v, label: "skipped/underfunded".into() };
  }
  let seller_address = w.env.wallet_address();
  let tx = Transaction {
    version: Version(2),
    lock_time: LockTime::ZERO,
    input: o.inputs.iter().map(|i| TxIn { previous_output: w.ops[i].0, script_sig: ScriptBuf::new(), sequence: Sequence::MAX, witness: Witness::new() }).collect(),
    output: vec![
      TxOut { value: Amount::from_sat(pay_wallet), script_pubkey: seller_address.script_pubkey() },
      TxOut { value: Amount::from_sat(total_in - pay_wallet - 1000), script_pubkey: Spk::A.script() },
    ],
  };
  let mut psbt = Psbt::from_unsigned_tx(tx.clone()).expect("psbt");
  let good_sig = Witness::from_slice(&[&[0u8; 64]]);
  let other_sig = Witness::from_slice(&[&[7u8; 64]]);
  for (k, i) in o.inputs.iter().enumerate() {
    match i {
      Inp::Fs | Inp::Wls => psbt.inputs[k].final_script_witness = Some(good_sig.clone()),
      Inp::Fx => psbt.inputs[k].final_script_witness = Some(other_sig.clone()),
      Inp::Fb => {
        psbt.inputs[k].final_script_witness = Some(good_sig.clone());
        psbt.inputs[k].final_script_sig = Some(ScriptBuf::from_bytes(vec![0x51]));
      }
      _ => {}
    }
  }
  let encoded = ord::base64_encode(&psbt.serialize());
  let named = match o.named { 1 => w.i1, 2 => w.i2, _ => w.i3 };
  let cli = w.env.ord(&["wallet", "offer", "accept", "--amount", &format!("{AMOUNT}sat"), "--inscription", &named.to_string(), "--psbt", &encoded]);
  let mempool = w.env.mempool();
  if std::env::var("VCHECK_TRACE").is_ok() {
    eprintln!("offer {:?}: code {} stderr {}", o.json(), cli.code, cli.stderr.lines().take(4).collect::<Vec<_>>().join(" | "));
  }
  if cli.stderr.contains("panicked") || cli.code == 101 {
    v.push(("C24", "command-panicked".to_string(), format!("offer accept panicked: {}", cli.stderr.lines().take(3).collect::<Vec<_>>().join(" | "))));
  }
  if !cli.ok() || mempool.is_empty() {
    if cli.ok() && mempool.is_empty() {
      v.push(("C24", "accepted-without-broadcast".to_string(), "the command succeeded but nothing was broadcast".into()));
    }
    return Outcome { violations: v, label: "rejected".into() };
  }
  // the wallet signed and broadcast: every clause must hold
  let wallet_inputs: Vec<Inp> = o.inputs.iter().cloned().filter(|i| is_wallet(*i)).collect();
  if wallet_inputs.len() != 1 {
    let locked = wallet_inputs.contains(&Inp::Wl) || wallet_inputs.contains(&Inp::Wls);
    v.push((
      "C24",
      if locked { "signed/more-than-one-wallet-input/locked-output".to_string() } else { "signed/not-exactly-one-wallet-input".to_string() },
      format!("the wallet signed an offer spending {} wallet outputs: {:?}", wallet_inputs.len(), wallet_inputs),
    ));
  }
  let seller = wallet_inputs.first().cloned();
  let holds_named = match seller {
    Some(Inp::Wi) => o.named == 1,
    Some(Inp::Wo) => o.named == 2,
    Some(Inp::Wir) => o.named == 3,
    _ => false,
  };
  if !holds_named {
    v.push(("C24", "signed/output-does-not-hold-exactly-the-named-inscription".to_string(), format!("the wallet signed although its input {seller:?} does not hold exactly the named inscription (I{})", o.named)));
  }
  if wallet_inputs.contains(&Inp::Wr) || wallet_inputs.contains(&Inp::Wir) {
    v.push(("C24", "signed/runic-output".to_string(), "the wallet signed an offer spending a runic wallet output".into()));
  }
  if pay_wallet as i64 - wallet_in as i64 != AMOUNT as i64 {
    v.push(("C24", "signed/balance-change-differs-from-amount".to_string(), format!("the wallet's balance changes by {} but the named amount is {AMOUNT}", pay_wallet as i64 - wallet_in as i64)));
  }
  for (k, i) in o.inputs.iter().enumerate() {
    if is_wallet(*i) {
      continue;
    }
    if matches!(i, Inp::Fu) {
      v.push(("C24", "signed/other-input-unsigned".to_string(), format!("input {k} ({i:?}) was not signed when the wallet signed")));
    }
  }
  // signatures of the other inputs are unchanged in the broadcast transaction
  if let Some(sent) = mempool.last() {
    for (k, i) in o.inputs.iter().enumerate() {
      if is_wallet(*i) {
        continue;
      }
      let offered = psbt.inputs[k].final_script_witness.clone().unwrap_or_default();
      if sent.input.get(k).map(|x| &x.witness) != Some(&offered) {
        v.push(("C24", "signed/other-signature-changed".to_string(), format!("the witness of input {k} ({i:?}) differs between the offer and the broadcast transaction")));
      }
    }
  }
  Outcome { violations: v, label: "accepted".into() }
}
