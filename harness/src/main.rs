//! vcheck — bounded exhaustive exploration checks for ordinals/ord.
//!
//! usage: vcheck <PROPERTY-ID> [--tier quick|thorough] [--replay <path>]

mod cfg;
mod chain;
mod codec;
mod evidence;
mod idx;
mod refmodel;
mod server;
mod txkit;
mod util;
mod wallet;
mod world;

use evidence::Report;

pub struct Ctx {
  pub tier: String,
  pub replay: Option<String>,
}

impl Ctx {
  pub fn thorough(&self) -> bool {
    self.tier == "thorough"
  }
}

fn main() {
  let args: Vec<String> = std::env::args().collect();
  if args.len() < 2 {
    eprintln!("usage: vcheck <ID> [--tier quick|thorough] [--replay path]");
    std::process::exit(2);
  }
  if args[1] == "--ord-cli" {
    std::process::exit(ord::verif::run_cli(args[2..].to_vec()));
  }
  if args[1] == "--worker" {
    util::quiet_panics();
    if std::env::var_os("TOKIO_WORKER_THREADS").is_none() {
      unsafe { std::env::set_var("TOKIO_WORKER_THREADS", "1") };
    }
    std::process::exit(wallet::worker(&args[2..]));
  }
  let id = args[1].clone();
  let mut tier = std::env::var("VERIF_TIER").unwrap_or_else(|_| "quick".into());
  let mut replay = None;
  let mut i = 2;
  while i < args.len() {
    match args[i].as_str() {
      "--tier" => {
        tier = args.get(i + 1).cloned().unwrap_or(tier);
        i += 2;
      }
      "--replay" => {
        replay = args.get(i + 1).cloned();
        i += 2;
      }
      _ => i += 1,
    }
  }
  if tier != "quick" && tier != "thorough" {
    tier = "quick".into();
  }
  let ctx = Ctx { tier, replay };
  util::start_watchdog(&id);
  sweep_stale_scratch();

  util::quiet_panics();
  // ord builds a fresh multi-thread tokio runtime (one worker per core) inside every
  // Index::update(); with 16 harness workers that is 256 threads per step. The runtime
  // only drives the output fetcher, so one worker thread is semantically equivalent.
  if std::env::var_os("TOKIO_WORKER_THREADS").is_none() {
    unsafe { std::env::set_var("TOKIO_WORKER_THREADS", "1") };
  }

  let run = || -> Option<Report> {
    match id.as_str() {
      "bench-rpc" => { chain::sats::bench_rpc(); std::process::exit(0) }
      "bench-sats" => { chain::sats::bench(); std::process::exit(0) }
      "C25" => Some(codec::runestone::run(&ctx)),
      "C26" => Some(codec::varint::run(&ctx)),
      "C27" => Some(codec::envelope::run(&ctx)),
      "C28" => Some(codec::properties::run(&ctx)),
      "C35" => Some(codec::storage::run(&ctx)),
      "C29" => Some(codec::satnum::run(&ctx)),
      "C30" => Some(codec::notation::run(&ctx)),
      "C31" => Some(codec::parsers::run(&ctx)),
      "C32" => Some(codec::runename::run(&ctx)),
      "C33" => Some(codec::unlock::run(&ctx)),
      "C34" => Some(codec::amounts::run(&ctx)),
      "C36" => Some(cfg::run(&ctx)),
      "C01" => Some(chain::sats::run(&ctx, "C01")),
      "C02" => Some(chain::sats::run(&ctx, "C02")),
      "C17" => Some(chain::sats::run(&ctx, "C17")),
      "C08" => Some(chain::runes::run(&ctx, "C08")),
      "C09" => Some(chain::runes::run(&ctx, "C09")),
      "C10" => Some(chain::runes::run(&ctx, "C10")),
      "C11" => Some(chain::runes::run(&ctx, "C11")),
      "C18" => Some(server::json::run(&ctx)),
      "C19" => Some(server::content::run(&ctx)),
      "C21" => Some(wallet::run_c21(&ctx)),
      "C22" => Some(wallet::run_c22(&ctx)),
      "C24" => Some(wallet::run_c24(&ctx)),
      "C23" => Some(wallet::run_c23(&ctx)),
      "C20" => Some(wallet::builder::run(&ctx)),
      "C16" => Some(chain::nofail::run(&ctx)),
      "C15" => Some(chain::configs::run(&ctx)),
      "C13" => Some(chain::crash::run(&ctx)),
      "C14" => Some(chain::reorg::run(&ctx)),
      "C12" => Some(chain::sched::run(&ctx)),
      "C37" => Some(chain::events::run(&ctx)),
      "C03" => Some(chain::inscriptions::run(&ctx, "C03")),
      "C04" => Some(chain::inscriptions::run(&ctx, "C04")),
      "C05" => Some(chain::inscriptions::run(&ctx, "C05")),
      "C06" => Some(chain::inscriptions::run(&ctx, "C06")),
      "C07" => Some(chain::inscriptions::run(&ctx, "C07")),
      _ => None,
    }
  };

  let code = match util::catch(run) {
    Ok(Some(report)) => report.finish(),
    Ok(None) => {
      println!("MACHINERY: unknown property id {id}");
      2
    }
    Err(msg) => {
      println!("MACHINERY: harness panicked: {msg}");
      2
    }
  };
  std::process::exit(code);
}


/// Removes scratch directories left behind by runs that were killed (their owning process is gone).
fn sweep_stale_scratch() {
  for root in ["/dev/shm", "/var/tmp"] {
    let Ok(rd) = std::fs::read_dir(root) else { continue };
    for entry in rd.flatten() {
      let name = entry.file_name().to_string_lossy().to_string();
      if !name.starts_with("vcheck.") {
        continue;
      }
      let Some(pid) = name.rsplit('.').next().and_then(|p| p.parse::<u32>().ok()) else { continue };
      if !std::path::Path::new(&format!("/proc/{pid}")).exists() {
        let _ = std::fs::remove_dir_all(entry.path());
      }
    }
  }
}
