//! Sat suite: C01 (FIFO assignment), C02 (partition and lookups), C17 (address
//! index), C16 (never fails) on `--index-sats --index-addresses`.

use {
  super::{Choices, Exec, RunSpec, Totals, fold_totals, run_histories},
  crate::{
    Ctx,
    evidence::Report,
    idx::{self, Dump, IndexCfg, coalesce},
    refmodel::sats::{SUPPLY, SatModel, first_sat, subsidy},
    txkit::{self, Spk},
    util::{self, Scratch},
    world::World,
  },
  bitcoin::{Address, Network, OutPoint, Transaction, TxOut, Witness},
  ord::Index,
  ordinals::Sat,
  serde_json::{Value, json},
  std::{
    collections::{BTreeMap, BTreeSet},
    path::PathBuf,
  },
};

pub const PREFIX_COINBASES: u32 = 6;
pub const SLOTS: usize = 2;
pub const FUND: u64 = 10_000;
pub const COIN50: u64 = 5_000_000_000;

#[derive(Clone, Copy, Debug)]
enum In {
  /// this position's own 10k funding slice
  Own,
  /// this position's own whole prefix coinbase (starts with an uncommon sat)
  Cb,
  /// output k of the most recent earlier deviation transaction
  Prev(usize),
  /// the coinbase that the duplicate-coinbase shape copies
  DupTarget,
}

#[derive(Clone, Copy, Debug)]
enum Val {
  Sats(u64),
  /// whatever remains of the inputs after the other outputs and the fee
  Rest,
}

struct Template {
  name: &'static str,
  inputs: &'static [In],
  outputs: &'static [(Val, Spk)],
  fee: Fee,
}

#[derive(Clone, Copy)]
enum Fee {
  Sats(u64),
  /// everything not assigned to outputs (outputs must all be `Val::Sats`)
  Remainder,
}

const TEMPLATES: &[Template] = &[
  Template { name: "1to1", inputs: &[In::Own], outputs: &[(Val::Rest, Spk::A)], fee: Fee::Sats(0) },
  Template { name: "split-uneven", inputs: &[In::Own], outputs: &[(Val::Sats(3000), Spk::A), (Val::Rest, Spk::B)], fee: Fee::Sats(0) },
  Template { name: "fee1000", inputs: &[In::Own], outputs: &[(Val::Rest, Spk::A)], fee: Fee::Sats(1000) },
  Template { name: "2to3-unaligned", inputs: &[In::Own, In::Cb], outputs: &[(Val::Sats(4000), Spk::A), (Val::Rest, Spk::B), (Val::Sats(4000), Spk::A)], fee: Fee::Sats(0) },
  Template { name: "cb-first-sat-off", inputs: &[In::Cb], outputs: &[(Val::Sats(1), Spk::C), (Val::Rest, Spk::B)], fee: Fee::Sats(0) },
  Template { name: "zero-first-output", inputs: &[In::Own], outputs: &[(Val::Sats(0), Spk::A), (Val::Rest, Spk::A)], fee: Fee::Sats(0) },
  Template { name: "opreturn-with-value", inputs: &[In::Own], outputs: &[(Val::Sats(2000), Spk::OpReturn), (Val::Rest, Spk::A)], fee: Fee::Sats(0) },
  Template { name: "opreturn-data-fee", inputs: &[In::Own], outputs: &[(Val::Sats(0), Spk::OpReturnData), (Val::Rest, Spk::A)], fee: Fee::Sats(500) },
  Template { name: "all-to-fee", inputs: &[In::Own], outputs: &[(Val::Sats(0), Spk::OpReturn)], fee: Fee::Remainder },
  Template { name: "cb-all-to-fee", inputs: &[In::Cb], outputs: &[(Val::Sats(0), Spk::A)], fee: Fee::Remainder },
  Template { name: "spend-prev0-fee", inputs: &[In::Prev(0)], outputs: &[(Val::Rest, Spk::B)], fee: Fee::Sats(300) },
  Template { name: "spend-prev1+own", inputs: &[In::Prev(1), In::Own], outputs: &[(Val::Sats(2500), Spk::A), (Val::Rest, Spk::B)], fee: Fee::Sats(0) },
  Template { name: "merge-prev0-prev1", inputs: &[In::Prev(0), In::Prev(1)], outputs: &[(Val::Rest, Spk::A)], fee: Fee::Sats(0) },
  Template { name: "cb+own-mostly-fee", inputs: &[In::Cb, In::Own], outputs: &[(Val::Sats(5000), Spk::A)], fee: Fee::Remainder },
  Template { name: "to-empty-script", inputs: &[In::Own], outputs: &[(Val::Rest, Spk::Empty)], fee: Fee::Sats(0) },
  Template { name: "spend-dup-target", inputs: &[In::DupTarget], outputs: &[(Val::Rest, Spk::A)], fee: Fee::Sats(0) },
  Template { name: "prev0-all-to-fee", inputs: &[In::Prev(0)], outputs: &[(Val::Sats(0), Spk::OpReturn)], fee: Fee::Remainder },
  Template { name: "own+prev0-swap-order", inputs: &[In::Own, In::Prev(0)], outputs: &[(Val::Sats(1), Spk::B), (Val::Rest, Spk::A)], fee: Fee::Sats(7) },
];

const COINBASE_SHAPES: &[&str] = &[
  "full",
  "split-two",
  "underpay-1",
  "underpay-fees-and-half",
  "zero-then-full",
  "claim-nothing",
  "to-opreturn",
  "duplicate-of-target",
  "three-way-1sat-first",
];

pub struct Worker {
  pub world: World,
  pub scratch: Scratch,
  pub prefix_blocks: Vec<bitcoin::Block>,
  pub snapshots: BTreeMap<String, PathBuf>,
  pub counter: u64,
}

#[derive(Clone)]
struct Placed {
  txid: bitcoin::Txid,
  outputs: Vec<(u64, Spk)>,
  spent: Vec<bool>,
}

pub struct Layout {
  pub l: usize,
}

impl Layout {
  pub fn alts(&self) -> Vec<usize> {
    let mut v = Vec::new();
    for _ in 0..self.l {
      for _ in 0..SLOTS {
        v.push(TEMPLATES.len());
      }
      v.push(COINBASE_SHAPES.len() - 1);
    }
    v
  }
}

fn default_coinbase(height: u32, total: u64) -> Transaction {
  txkit::coinbase(height, 0, vec![txkit::txout(total, Spk::A.script())])
}

/// Builds the deterministic setup prefix into `world` and returns the blocks.
fn build_prefix(world: &mut World, l: usize) -> Vec<bitcoin::Block> {
  world.reset();
  for h in 1..=PREFIX_COINBASES {
    world.push_block(vec![default_coinbase(h, subsidy(h))]);
  }
  // fan-out of coinbase 1 into funding slices
  let cb1 = world.blocks[1].txdata[0].compute_txid();
  let n = (l * SLOTS) as u64;
  let mut outs: Vec<TxOut> = (0..n).map(|_| txkit::txout(FUND, Spk::A.script())).collect();
  outs.push(txkit::txout(COIN50 - n * FUND, Spk::B.script()));
  let fan = txkit::tx(
    vec![txkit::txin(OutPoint { txid: cb1, vout: 0 }, Witness::new())],
    outs,
  );
  let h = PREFIX_COINBASES + 1;
  world.push_block(vec![default_coinbase(h, subsidy(h)), fan]);
  world.blocks.clone()
}

impl Worker {
  pub fn new(id: usize, l: usize) -> Self {
    let mut world = World::new(Network::Regtest);
    let prefix_blocks = build_prefix(&mut world, l);
    Self {
      world,
      scratch: Scratch::new(&format!("sats{id}")),
      prefix_blocks,
      snapshots: BTreeMap::new(),
      counter: 0,
    }
  }

  pub fn restore(&mut self) {
    self.restore_prefix()
  }

  pub fn fresh_dir(&mut self, cfg: &IndexCfg) -> anyhow::Result<PathBuf> {
    self.fresh_index_dir(cfg)
  }

  fn restore_prefix(&mut self) {
    self.world.reset();
    for b in self.prefix_blocks.iter().skip(1) {
      self.world.push_block(b.txdata.clone());
    }
    assert_eq!(self.world.tip_hash(), self.prefix_blocks.last().unwrap().block_hash());
  }

  /// Returns a fresh data dir holding an index that has indexed the prefix.
  fn fresh_index_dir(&mut self, cfg: &IndexCfg) -> anyhow::Result<PathBuf> {
    let label = cfg.label();
    if !self.snapshots.contains_key(&label) {
      let dir = self.scratch.sub(&format!("snap-{label}"));
      let index = idx::open(&self.world, &dir, cfg)?;
      util::watched(|| index.update())?;
      drop(index);
      self.snapshots.insert(label.clone(), dir);
    }
    let snap = self.snapshots[&label].clone();
    self.counter += 1;
    let dir = self.scratch.sub("exec");
    copy_dir(&snap, &dir)?;
    Ok(dir)
  }
}

pub fn copy_dir(from: &std::path::Path, to: &std::path::Path) -> anyhow::Result<()> {
  std::fs::create_dir_all(to)?;
  for entry in std::fs::read_dir(from)? {
    let entry = entry?;
    let p = entry.path();
    let dest = to.join(entry.file_name());
    if p.is_dir() {
      copy_dir(&p, &dest)?;
    } else {
      std::fs::copy(&p, &dest)?;
    }
  }
  Ok(())
}

fn resolve_input(
  input: In,
  q: usize,
  prefix: &[bitcoin::Block],
  prev: &mut Option<Placed>,
) -> Option<(OutPoint, u64)> {
  match input {
    In::Own => {
      let fan = prefix[(PREFIX_COINBASES + 1) as usize].txdata[1].compute_txid();
      Some((OutPoint { txid: fan, vout: q as u32 }, FUND))
    }
    In::Cb => {
      let h = 2 + q;
      if h as u32 >= PREFIX_COINBASES {
        return None;
      }
      let txid = prefix[h].txdata[0].compute_txid();
      Some((OutPoint { txid, vout: 0 }, COIN50))
    }
    In::DupTarget => {
      let txid = prefix[PREFIX_COINBASES as usize].txdata[0].compute_txid();
      Some((OutPoint { txid, vout: 0 }, COIN50))
    }
    In::Prev(k) => {
      let p = prev.as_mut()?;
      let (value, spk) = *p.outputs.get(k)?;
      if p.spent[k] || matches!(spk, Spk::OpReturn | Spk::OpReturnData) {
        return None;
      }
      p.spent[k] = true;
      Some((OutPoint { txid: p.txid, vout: k as u32 }, value))
    }
  }
}

struct BuiltTx {
  tx: Transaction,
  fee: u64,
  outputs: Vec<(u64, Spk)>,
}

fn build_template(
  t: &Template,
  q: usize,
  prefix: &[bitcoin::Block],
  prev: &mut Option<Placed>,
  spent_special: &mut BTreeSet<OutPoint>,
) -> Option<BuiltTx> {
  let mut ins = Vec::new();
  let mut total = 0u64;
  for &i in t.inputs {
    let (op, v) = resolve_input(i, q, prefix, prev)?;
    if !spent_special.insert(op) {
      return None; // already spent earlier in this history
    }
    total += v;
    ins.push(txkit::txin(op, Witness::new()));
  }
  let fixed: u64 = t
    .outputs
    .iter()
    .map(|(v, _)| match v {
      Val::Sats(n) => *n,
      Val::Rest => 0,
    })
    .sum();
  let fee = match t.fee {
    Fee::Sats(n) => n,
    Fee::Remainder => total.checked_sub(fixed)?,
  };
  let rest = total.checked_sub(fixed)?.checked_sub(fee)?;
  let mut outs = Vec::new();
  let mut outputs = Vec::new();
  let mut rest_used = false;
  for (v, spk) in t.outputs {
    let value = match v {
      Val::Sats(n) => *n,
      Val::Rest => {
        rest_used = true;
        rest
      }
    };
    outs.push(txkit::txout(value, spk.script()));
    outputs.push((value, *spk));
  }
  if !rest_used && rest != 0 {
    return None;
  }
  Some(BuiltTx {
    tx: txkit::tx(ins, outs),
    fee,
    outputs,
  })
}

fn build_coinbase(shape: usize, height: u32, fees: u64, prefix: &[bitcoin::Block], tag: u32) -> Option<Transaction> {
  let total = subsidy(height) + fees;
  let a = Spk::A.script();
  let b = Spk::B.script();
  Some(match COINBASE_SHAPES[shape] {
    "full" => txkit::coinbase(height, tag, vec![txkit::txout(total, a)]),
    "split-two" => txkit::coinbase(
      height,
      tag,
      vec![txkit::txout(total / 2 + 1, a), txkit::txout(total - total / 2 - 1, b)],
    ),
    "underpay-1" => txkit::coinbase(height, tag, vec![txkit::txout(total - 1, a)]),
    "underpay-fees-and-half" => txkit::coinbase(height, tag, vec![txkit::txout(subsidy(height) / 2, a)]),
    "zero-then-full" => txkit::coinbase(height, tag, vec![txkit::txout(0, a.clone()), txkit::txout(total, a)]),
    "claim-nothing" => txkit::coinbase(height, tag, vec![txkit::txout(0, a)]),
    "to-opreturn" => txkit::coinbase(height, tag, vec![txkit::txout(total, Spk::OpReturn.script())]),
    "duplicate-of-target" => {
      let t = prefix[PREFIX_COINBASES as usize].txdata[0].clone();
      let claimed: u64 = t.output.iter().map(|o| o.value.to_sat()).sum();
      if claimed > total {
        return None;
      }
      t
    }
    "three-way-1sat-first" => txkit::coinbase(
      height,
      tag,
      vec![
        txkit::txout(1, Spk::C.script()),
        txkit::txout(total - 2, a),
        txkit::txout(1, b),
      ],
    ),
    _ => unreachable!(),
  })
}

/// Executes one history under one configuration.
/// Builds the enumerated blocks of a history. None = disabled (a role cannot be resolved).
pub fn build_history(prefix: &[bitcoin::Block], l: usize, choices: &Choices) -> Option<(Vec<Vec<Transaction>>, Value)> {
  let mut prev: Option<Placed> = None;
  let mut spent: BTreeSet<OutPoint> = BTreeSet::new();
  let mut blocks: Vec<Vec<Transaction>> = Vec::new();
  let mut rendered = Vec::new();
  let base = PREFIX_COINBASES + 2;
  for b in 0..l {
    let height = base + b as u32;
    let mut txs = Vec::new();
    let mut fees = 0;
    let mut names = Vec::new();
    for s in 0..SLOTS {
      let c = choices[b * (SLOTS + 1) + s] as usize;
      if c == 0 {
        continue;
      }
      let t = &TEMPLATES[c - 1];
      let q = b * SLOTS + s;
      let built = build_template(t, q, prefix, &mut prev, &mut spent)?;
      fees += built.fee;
      names.push(t.name);
      prev = Some(Placed {
        txid: built.tx.compute_txid(),
        spent: vec![false; built.outputs.len()],
        outputs: built.outputs,
      });
      txs.push(built.tx);
    }
    let g = choices[b * (SLOTS + 1) + SLOTS] as usize;
    let cb = build_coinbase(g, height, fees, prefix, 0)?;
    if COINBASE_SHAPES[g] == "duplicate-of-target" {
      // the duplicate recreates the target's outpoint, which can be spent again
      spent.remove(&OutPoint { txid: cb.compute_txid(), vout: 0 });
    }
    rendered.push(json!({"height": height, "coinbase": COINBASE_SHAPES[g], "txs": names}));
    let mut all = vec![cb];
    all.extend(txs);
    blocks.push(all);
  }
  Some((blocks, Value::Array(rendered)))
}

pub fn exec(w: &mut Worker, cfg: &IndexCfg, l: usize, choices: &Choices) -> Exec {
  exec_mode(w, cfg, l, choices, false)
}

/// (slot 0, slot 1, coinbase shape) per block; "" = default
pub type DenseSpec = &'static [(&'static str, &'static str, &'static str)];

/// Hand-picked 3-block histories with many deviations; each runs with update() per block and
/// with one update() for all three blocks (one commit).
pub const DENSE: &[(&str, DenseSpec)] = &[
  ("dup-then-spend", &[("", "", "duplicate-of-target"), ("spend-dup-target", "", "full"), ("fee1000", "", "underpay-1")]),
  ("spend-then-dup-twice", &[("spend-dup-target", "fee1000", "duplicate-of-target"), ("all-to-fee", "", "duplicate-of-target"), ("spend-dup-target", "split-uneven", "claim-nothing")]),
  ("lost-in-every-block", &[("cb-first-sat-off", "fee1000", "underpay-1"), ("cb-all-to-fee", "opreturn-data-fee", "claim-nothing"), ("all-to-fee", "", "underpay-fees-and-half")]),
  ("one-sat-uncommon-range-lost", &[("cb-first-sat-off", "prev0-all-to-fee", "claim-nothing"), ("cb-first-sat-off", "prev0-all-to-fee", "underpay-fees-and-half"), ("", "", "full")]),
  ("dense-1", &[("cb-first-sat-off", "fee1000", "underpay-1"), ("spend-prev0-fee", "all-to-fee", "split-two"), ("split-uneven", "merge-prev0-prev1", "duplicate-of-target")]),
  ("dense-2", &[("spend-dup-target", "opreturn-with-value", "full"), ("cb+own-mostly-fee", "zero-first-output", "duplicate-of-target"), ("to-empty-script", "own+prev0-swap-order", "underpay-fees-and-half")]),
  ("dense-3", &[("2to3-unaligned", "merge-prev0-prev1", "three-way-1sat-first"), ("cb-all-to-fee", "", "claim-nothing"), ("opreturn-data-fee", "split-uneven", "zero-then-full")]),
];

pub fn dense_choices(spec: DenseSpec) -> Choices {
  let t = |n: &str| if n.is_empty() { 0 } else { (TEMPLATES.iter().position(|t| t.name == n).unwrap_or_else(|| panic!("unknown template {n}")) + 1) as u8 };
  let c = |n: &str| if n.is_empty() { 0 } else { COINBASE_SHAPES.iter().position(|s| *s == n).unwrap_or_else(|| panic!("unknown shape {n}")) as u8 };
  spec.iter().flat_map(|(a, b, g)| [t(a), t(b), c(g)]).collect()
}

fn run_dense(property: &'static str, cfgs: &[IndexCfg], report: &mut Report) -> (u64, BTreeSet<String>) {
  let mut jobs: Vec<(usize, usize, bool)> = Vec::new();
  for ci in 0..cfgs.len() {
    for di in 0..DENSE.len() {
      for batch in [false, true] {
        jobs.push((ci, di, batch));
      }
    }
  }
  let (results, _) = util::par_map(
    jobs.len(),
    None,
    |id| Worker::new(500 + id, 3),
    |w, i| {
      let (ci, di, batch) = jobs[i];
      util::catch(|| exec_mode(w, &cfgs[ci], 3, &dense_choices(DENSE[di].1), batch))
    },
  );
  let mut states = BTreeSet::new();
  let mut n = 0;
  let mut outcomes: BTreeMap<String, String> = BTreeMap::new();
  for (i, r) in results.into_iter().enumerate() {
    let (ci, di, batch) = jobs[i];
    let name = DENSE[di].0;
    let tag = format!("{name}@{}{}", cfgs[ci].label(), if batch { "/one-update" } else { "/per-block" });
    match r {
      Some(Ok(e)) if !e.disabled => {
        n += 1;
        states.extend(e.states.iter().cloned());
        outcomes.insert(tag.clone(), e.outcome.clone());
        for (prop, class, what) in e.violations {
          let (prop, class) = if prop == "C16" && class.starts_with("update/") && property != "C16" { (property.to_string(), format!("index-stuck/{class}")) } else { (prop, class) };
          if prop == property {
            report.violation(class, format!("[{tag}] {what}"), json!({"suite": "sats-dense", "dense": name, "cfg": cfgs[ci].label(), "batch": batch, "history": e.rendered}));
          }
        }
      }
      Some(Ok(_)) => {
        println!("MACHINERY: dense history {tag} is disabled");
        report.violation(format!("{property}/machinery-dense-disabled"), format!("dense history {tag} cannot be built"), json!({}));
      }
      Some(Err(p)) => {
        println!("MACHINERY: harness panic on dense history {tag}: {p}");
        report.violation(format!("{property}/machinery-panic"), format!("harness panicked on dense history {tag}: {p}"), json!({}));
      }
      None => {}
    }
  }
  report.set("sats.dense.executions", n);
  report.set("sats.dense.outcomes", json!(outcomes));
  (n, states)
}

/// `batch`: all enumerated blocks are indexed by ONE update() call, audited once at the end.
pub fn exec_mode(w: &mut Worker, cfg: &IndexCfg, l: usize, choices: &Choices, batch: bool) -> Exec {
  util::set_context(json!({"suite": "sats", "cfg": cfg.label(), "choices": choices, "one_update": batch}).to_string());
  let mut e = Exec::default();
  w.restore_prefix();
  let prefix = w.prefix_blocks.clone();
  let Some((blocks, rendered)) = build_history(&prefix, l, choices) else {
    e.disabled = true;
    return e;
  };
  e.rendered = rendered;

  // --- reference model over the prefix ---
  let mut model = SatModel::default();
  for b in &prefix {
    model.apply_block(b);
  }

  // --- real index ---
  let dir = match w.fresh_index_dir(cfg) {
    Ok(d) => d,
    Err(err) => {
      e.fail("C16", "open/error", format!("Index::open/update on the setup prefix failed: {err:#}"));
      return e;
    }
  };
  let index = match idx::open(&w.world, &dir, cfg) {
    Ok(i) => i,
    Err(err) => {
      e.fail("C16", "open/error", format!("Index::open failed: {err:#}"));
      return e;
    }
  };

  let mut feats: BTreeSet<&'static str> = BTreeSet::new();
  let nblocks = blocks.len();
  for (bi, txs) in blocks.into_iter().enumerate() {
    w.world.push_block(txs);
    let block = w.world.blocks.last().unwrap().clone();
    model.apply_block(&block);
    if batch && bi + 1 < nblocks {
      continue;
    }
    match util::catch(|| util::watched(|| index.update())) {
      Ok(Ok(())) => {}
      Ok(Err(err)) => {
        e.fail("C16", "update/error", format!("Index::update returned an error on a valid chain: {err:#}"));
        break;
      }
      Err(p) => {
        e.fail("C16", "update/panic", format!("Index::update panicked on a valid chain: {p}"));
        break;
      }
    }
    e.blocks += 1;
    if std::env::var("VDEBUG").is_ok() {
      println!("--- after height {}", model.blocks - 1);
      for (op, r) in &model.utxo {
        if r.iter().any(|(s, _)| *s >= 25_000_000_000) {
          println!("  model {op} {}", fmt_ranges(r));
        }
      }
      if let Ok(d) = Dump::take(&index) {
        for op in d.utxo_outpoints() {
          if let Some(r) = index.list(op).ok().flatten()
            && r.iter().any(|(s, _)| *s >= 25_000_000_000)
          {
            println!("  index {op} {}", fmt_ranges(&r));
          }
        }
      }
      println!("  rare {:?}", index.rare_sat_satpoints().unwrap_or_default().iter().filter(|(s, _)| s.0 >= 25_000_000_000).map(|(s, p)| format!("{}→{}", s.0, p)).collect::<Vec<_>>());
    }
    match util::catch(|| audit(&index, &model, cfg, &mut e, &mut feats)) {
      Ok(Some(hash)) => e.states.push(hash),
      Ok(None) => {}
      Err(p) => e.fail("C16", "query/panic", format!("an index query panicked during the audit: {p}")),
    }
  }
  drop(index);
  for f in &feats {
    e.hit(f);
  }
  e.outcome = feats.iter().cloned().collect::<Vec<_>>().join("|");
  e
}

fn fmt_ranges(r: &[(u64, u64)]) -> String {
  let v: Vec<String> = r.iter().take(8).map(|(s, e)| format!("[{s},{e})")).collect();
  format!("{}{}", v.join(","), if r.len() > 8 { ",…" } else { "" })
}

/// All oracles of the sat suite, evaluated on one indexed state.
fn audit(
  index: &Index,
  model: &SatModel,
  cfg: &IndexCfg,
  e: &mut Exec,
  feats: &mut BTreeSet<&'static str>,
) -> Option<String> {
  let dump = match Dump::take(index) {
    Ok(d) => d,
    Err(err) => {
      e.fail("C16", "dump/error", format!("dump failed: {err:#}"));
      return None;
    }
  };
  let hash = dump.content_hash();
  let height_next = model.blocks;

  let special = |op: &OutPoint| *op == OutPoint::null() || *op == ord::unbound_outpoint();
  let index_ops: BTreeSet<OutPoint> = dump.utxo_outpoints().into_iter().filter(|o| !special(o)).collect();
  let model_ops: BTreeSet<OutPoint> = model.utxo.keys().cloned().collect();

  if !model.destroyed.is_empty() {
    feats.insert("duplicate-txid-destroyed-sats");
  }
  if !model.lost.is_empty() {
    feats.insert("lost-sats");
  }

  // ---------------- C01 ----------------
  if cfg.sats {
    if index_ops != model_ops {
      let missing: Vec<_> = model_ops.difference(&index_ops).take(3).collect();
      let extra: Vec<_> = index_ops.difference(&model_ops).take(3).collect();
      // a spent output still listed, where that outpoint had been created twice by a duplicate txid
      let only_recreated = missing.is_empty() && index_ops.difference(&model_ops).all(|o| model.recreated.contains(o));
      e.fail(
        "C01",
        if only_recreated { "utxo-set/spent-output-of-duplicate-txid-still-listed" } else { "utxo-set/mismatch" },
        format!("set of outputs with sat ranges differs from the BIP model at height {}: missing {missing:?} extra {extra:?}", height_next - 1),
      );
    }
    for (op, ranges) in &model.utxo {
      let got = index.list(*op).ok().flatten();
      let want = coalesce(ranges);
      match got {
        None => {
          if index_ops.contains(op) {
            e.fail("C01", "list/none", format!("Index::list({op}) is None for an unspent output"));
          }
        }
        Some(got) => {
          if coalesce(&got) != want {
            let class = if model.destroyed.is_empty() { "list/mismatch" } else { "list/mismatch-after-duplicate-txid" };
            e.fail(
              "C01",
              class,
              format!("Index::list({op}) = {} but the BIP algorithm gives {}", fmt_ranges(&got), fmt_ranges(&want)),
            );
          }
        }
      }
      if ranges.len() > 1 {
        feats.insert("multi-range-output");
      }
    }
    let lost_got = index.list(OutPoint::null()).ok().flatten().unwrap_or_default();
    if coalesce(&lost_got) != coalesce(&model.lost) {
      e.fail(
        "C01",
        "lost/ranges-mismatch",
        format!("lost-sats pseudo-output lists {} but the BIP algorithm loses {}", fmt_ranges(&lost_got), fmt_ranges(&model.lost)),
      );
    }
    let stat = dump.statistic(idx::STAT_LOST_SATS);
    if stat != model.lost_total() {
      e.fail("C01", "lost/statistic", format!("lost sats statistic {stat} but {} sats were lost", model.lost_total()));
    }
  }

  // ---------------- C02 ----------------
  if cfg.sats {
    // partition as reported by the index itself
    let mut pieces: Vec<(u64, u64, OutPoint, u64)> = Vec::new(); // start,end,outpoint,offset of start
    for op in dump.utxo_outpoints() {
      let Some(ranges) = index.list(op).ok().flatten() else { continue };
      let mut off = 0;
      for (s, en) in &ranges {
        if en > s {
          pieces.push((*s, *en, op, off));
        }
        off += en - s;
      }
      if !special(&op)
        && let Some((value, _)) = model.meta.get(&op)
        && off != *value
      {
        e.fail("C02", "value/ranges-do-not-add-up", format!("ranges of {op} add up to {off} but the output's value is {value}"));
      }
    }
    pieces.sort();
    let mined_end = first_sat(height_next);
    let mut destroyed = coalesce(&{
      let mut d = model.destroyed.clone();
      d.sort();
      d
    });
    destroyed.sort();
    // walk: every sat in [0, mined_end) is in exactly one piece or destroyed
    let mut cursor = 0u64;
    let mut pi = 0;
    let mut di = 0;
    let mut bad = None;
    while cursor < mined_end {
      if pi < pieces.len() && pieces[pi].0 == cursor {
        cursor = pieces[pi].1;
        pi += 1;
      } else if di < destroyed.len() && destroyed[di].0 == cursor {
        cursor = destroyed[di].1;
        di += 1;
      } else if pi < pieces.len() && pieces[pi].0 < cursor {
        bad = Some(("partition/overlap", format!("sat {} is reported in two places (second: {} at {})", pieces[pi].0, pieces[pi].2, pieces[pi].3)));
        break;
      } else {
        bad = Some(("partition/gap", format!("sat {cursor} (mined before height {height_next}) is in no output, not lost and not destroyed")));
        break;
      }
    }
    if bad.is_none() && pi < pieces.len() {
      bad = Some(("partition/unmined-sat-listed", format!("sat {} listed in {} although not mined yet", pieces[pi].0, pieces[pi].2)));
    }
    if let Some((class, what)) = bad {
      e.fail("C02", class, what);
    } else {
      // lookups against the partition
      let locate = |sat: u64| -> Option<(OutPoint, u64)> {
        pieces
          .iter()
          .find(|(s, en, _, _)| *s <= sat && sat < *en)
          .map(|(s, _, op, off)| (*op, off + sat - s))
      };
      let mut probes: BTreeSet<u64> = BTreeSet::new();
      for (s, en, _, _) in &pieces {
        probes.insert(*s);
        probes.insert(s + 1);
        probes.insert(en - 1);
      }
      for (s, en) in &destroyed {
        probes.insert(*s);
        probes.insert(en - 1);
      }
      for h in 0..height_next {
        probes.insert(first_sat(h));
      }
      probes.retain(|s| *s < mined_end);
      for &sat in &probes {
        let want = locate(sat);
        let got = index.find(Sat(sat)).ok().flatten().map(|sp| (sp.outpoint, sp.offset));
        if got != want {
          let class = if want.is_none() { "find/destroyed-sat-found" } else { "find/mismatch" };
          e.fail("C02", class, format!("Index::find({sat}) = {got:?} but listing outputs puts it at {want:?}"));
          break;
        }
      }
      // find_range over consecutive probe boundaries
      let pv: Vec<u64> = probes.iter().cloned().collect();
      for win in pv.windows(2).take(40) {
        let (a, b) = (win[0], win[1]);
        let got = index.find_range(Sat(a), Sat(b)).ok().flatten();
        let Some(got) = got else {
          e.fail("C02", "find_range/none-for-mined-range", format!("Index::find_range({a},{b}) is None although the range is mined"));
          break;
        };
        let mut got_pieces: Vec<(u64, u64, OutPoint, u64)> = got
          .iter()
          .map(|o| (o.start, o.start + o.size, o.satpoint.outpoint, o.satpoint.offset))
          .collect();
        got_pieces.sort();
        let mut want: Vec<(u64, u64, OutPoint, u64)> = Vec::new();
        for (s, en, op, off) in &pieces {
          let os = (*s).max(a);
          let oe = (*en).min(b);
          if os < oe {
            want.push((os, oe, *op, off + os - s));
          }
        }
        want.sort();
        if got_pieces != want {
          e.fail("C02", "find_range/mismatch", format!("Index::find_range({a},{b}) = {got_pieces:?} but listing outputs gives {want:?}"));
          break;
        }
      }
      // rare sat table: first sat of every block mined so far that still exists
      let rare = index.rare_sat_satpoints().unwrap_or_default();
      let got: BTreeMap<u64, (OutPoint, u64)> = rare.iter().map(|(s, sp)| (s.0, (sp.outpoint, sp.offset))).collect();
      let mut want: BTreeMap<u64, (OutPoint, u64)> = BTreeMap::new();
      for h in 0..height_next {
        if subsidy(h) == 0 {
          continue;
        }
        let s = first_sat(h);
        if let Some(loc) = locate(s) {
          want.insert(s, loc);
        }
      }
      if got != want {
        let stale: Vec<_> = got.iter().filter(|(s, loc)| want.get(s) != Some(loc)).take(2).collect();
        let missing: Vec<_> = want.iter().filter(|(s, _)| !got.contains_key(s)).take(2).collect();
        let class = if !model.destroyed.is_empty() && missing.is_empty() && stale.iter().all(|(s, _)| locate(**s).is_none()) {
          "rare/stale-entry-for-destroyed-sat"
        } else {
          "rare/mismatch"
        };
        e.fail("C02", class, format!("rare-sat table disagrees with the partition: wrong/stale {stale:?}, missing {missing:?}"));
      }
      if rare.len() != got.len() {
        e.fail("C02", "rare/duplicate", "rare-sat table lists a sat twice".to_string());
      }
    }
    // unmined sats are not found
    for sat in [mined_end, mined_end + 1, SUPPLY - 1] {
      if let Ok(Some(sp)) = index.find(Sat(sat)) {
        e.fail("C02", "find/unmined-sat-found", format!("Index::find({sat}) = {sp} although block {height_next} is not indexed"));
      }
    }
    if let Ok(Some(r)) = index.find_range(Sat(mined_end), Sat(mined_end + 1)) {
      e.fail("C02", "find_range/unmined-found", format!("Index::find_range of an unmined sat returned {} pieces", r.len()));
    }
  }

  // ---------------- C17 ----------------
  if cfg.addresses {
    let mut got: BTreeSet<(Vec<u8>, OutPoint)> = BTreeSet::new();
    let rows = dump.table("SCRIPT_PUBKEY_TO_OUTPOINT");
    for (k, v) in rows {
      let op = idx::decode_outpoint(v);
      if special(&op) {
        continue;
      }
      if !got.insert((k.clone(), op)) {
        e.fail("C17", "multimap/duplicate-row", format!("address index lists {op} twice for one script"));
      }
    }
    let want: BTreeSet<(Vec<u8>, OutPoint)> = model.meta.iter().map(|(op, (_, s))| (s.clone(), *op)).collect();
    if got != want {
      let stale: Vec<_> = got.difference(&want).take(2).map(|(s, o)| format!("{}→{o}", hex::encode(s))).collect();
      let missing: Vec<_> = want.difference(&got).take(2).map(|(s, o)| format!("{}→{o}", hex::encode(s))).collect();
      let class = if !stale.is_empty() && missing.is_empty() && got.difference(&want).all(|(_, o)| model.recreated.contains(o)) {
        "address/spent-output-of-duplicate-txid-still-listed"
      } else if !stale.is_empty() && missing.is_empty() {
        "address/stale-spent-output-listed"
      } else if stale.is_empty() {
        "address/unspent-output-missing"
      } else {
        "address/mismatch"
      };
      e.fail("C17", class, format!("address index differs from the unspent outputs per script: stale {stale:?} missing {missing:?}"));
    }
    for spk in [Spk::A, Spk::B, Spk::C] {
      let script = spk.script();
      let address = Address::from_script(&script, Network::Regtest).unwrap();
      let got: Vec<OutPoint> = index.get_address_info(&address).unwrap_or_default();
      let got_set: BTreeSet<OutPoint> = got.iter().cloned().collect();
      let want: BTreeSet<OutPoint> = model
        .meta
        .iter()
        .filter(|(_, (_, s))| s == script.as_bytes())
        .map(|(o, _)| *o)
        .collect();
      if got_set != want || got.len() != got_set.len() {
        let only_recreated = got.len() == got_set.len() && want.is_subset(&got_set) && got_set.difference(&want).all(|o| model.recreated.contains(o));
        e.fail(
          "C17",
          if only_recreated { "address/spent-output-of-duplicate-txid-still-listed/get_address_info" } else { "address/get_address_info-mismatch" },
          format!("get_address_info({address}) lists {} outputs, {} are unspent and pay to it", got.len(), want.len()),
        );
      }
      if want.len() > 1 {
        feats.insert("script-reused");
      }
    }
    for (k, v) in dump.table("OUTPOINT_TO_UTXO_ENTRY") {
      let op = idx::decode_outpoint(k);
      if special(&op) {
        continue;
      }
      let dec = idx::decode_utxo_entry(v, cfg.sats, cfg.addresses, cfg.inscriptions);
      if let Some((value, script)) = model.meta.get(&op) {
        if dec.script.as_deref() != Some(script.as_slice()) {
          e.fail("C17", "entry/script-mismatch", format!("stored script of {op} differs from the creating transaction's"));
        }
        if dec.value != *value {
          e.fail("C17", "entry/value-mismatch", format!("stored value of {op} is {} but the creating transaction pays {value}", dec.value));
        }
      }
    }
  }
  if !cfg.sats && !cfg.addresses {
    // nothing sat-related to audit; still count the state
  }
  Some(hash)
}

fn k_and_budget(ctx: &Ctx) -> (usize, usize, u64) {
  // (enumerated blocks L, deviation bound K, wall budget seconds)
  if ctx.thorough() { (3, 3, 600) } else { (2, 2, 45) }
}

pub fn run(ctx: &Ctx, property: &'static str) -> Report {
  let mut report = Report::new(property, &ctx.tier, "model_checking");
  let (l, k, budget) = k_and_budget(ctx);
  let cfg = IndexCfg {
    runes: false,
    transactions: false,
    ..IndexCfg::all()
  };
  let layout = Layout { l };

  if let Some(path) = &ctx.replay {
    let v: Value = serde_json::from_str(&std::fs::read_to_string(path).expect("read replay")).expect("json");
    if let Some(name) = v["replay"]["dense"].as_str() {
      let spec = DENSE.iter().find(|(n, _)| *n == name).expect("unknown dense history").1;
      let rcfg = if v["replay"]["cfg"].as_str().is_some_and(|c| c.contains("-insc")) { IndexCfg { inscriptions: false, addresses: false, ..cfg.clone() } } else { cfg.clone() };
      let mut w = Worker::new(0, 3);
      let e = exec_mode(&mut w, &rcfg, 3, &dense_choices(spec), v["replay"]["batch"].as_bool().unwrap_or(false));
      println!("replay history: {}", e.rendered);
      for (p, c, what) in &e.violations {
        println!("  [{p}] {c}: {what}");
        if p == property {
          report.violation(c.clone(), what.clone(), v["replay"].clone());
        }
      }
      report.set("states", e.states.len().max(1) as u64);
      report.set("transitions", e.blocks.max(1));
      report.set("traces_validated_against_impl", 1u64);
      report.sample(e.rendered);
      return report;
    }
    let choices: Choices = v["replay"]["choices"].as_array().unwrap().iter().map(|x| x.as_u64().unwrap() as u8).collect();
    let l = choices.len() / (SLOTS + 1);
    let mut w = Worker::new(0, l);
    let cfg = if v["replay"]["cfg"].as_str().is_some_and(|c| c.contains("-insc")) {
      IndexCfg { inscriptions: false, addresses: false, ..cfg.clone() }
    } else {
      cfg.clone()
    };
    let e = exec_mode(&mut w, &cfg, l, &choices, v["replay"]["suite"] == "sats-one-update");
    println!("replay history: {}", e.rendered);
    for (p, c, what) in &e.violations {
      println!("  [{p}] {c}: {what}");
      if p == property {
        report.violation(c.clone(), what.clone(), v["replay"].clone());
      }
    }
    report.set("states", e.states.len().max(1) as u64);
    report.set("transitions", e.blocks.max(1));
    report.set("traces_validated_against_impl", 1u64);
    report.sample(e.rendered);
    return report;
  }

  let spec = RunSpec {
    property,
    suite: "sats",
    cfg_label: cfg.label(),
    alts: layout.alts(),
    k,
    k_min: 0,
    budget_secs: budget,
  };
  let mut totals: Totals = run_histories(&spec, &mut report, |id| Worker::new(id, l), |w, c| exec(w, &cfg, l, c));
  fold_totals(&mut report, "sats", &totals, k);
  if ctx.thorough() {
    // every history with 1..=2 deviations once more with ONE update() for all its blocks
    let specb = RunSpec { suite: "sats-one-update", k: 2, k_min: 1, cfg_label: cfg.label(), alts: layout.alts(), budget_secs: budget / 3, ..spec };
    let tb: Totals = run_histories(&specb, &mut report, |id| Worker::new(id + 200, l), |w, c| exec_mode(w, &cfg, l, c, true));
    fold_totals(&mut report, "sats_one_update", &tb, 2);
    totals.executions += tb.executions;
    totals.capped |= tb.capped;
    totals.states.extend(tb.states);
  }
  if property == "C17" {
    // the address index alone next to an inscription index that starts above the setup prefix (the knob
    // moves the first inscription height): every output below that height must still be listed
    let cfg3 = IndexCfg { sats: false, first_inscription_height: Some(PREFIX_COINBASES + 2), ..cfg.clone() };
    let spec3 = RunSpec { property, cfg_label: cfg3.label(), suite: "sats-addresses-late-inscriptions", budget_secs: budget, alts: layout.alts(), k, k_min: 0 };
    let t3: Totals = run_histories(&spec3, &mut report, |id| Worker::new(id + 300, l), |w, c| exec(w, &cfg3, l, c));
    fold_totals(&mut report, "sats_addresses_late_inscriptions", &t3, k);
    totals.executions += t3.executions;
    totals.capped |= t3.capped;
    totals.states.extend(t3.states);
  }
  if property != "C17" {
    // the sat index without the inscription index (its lost-sat bookkeeping is separate there)
    let cfg2 = IndexCfg { inscriptions: false, addresses: false, ..cfg.clone() };
    let spec2 = RunSpec { cfg_label: cfg2.label(), suite: "sats-no-inscriptions", budget_secs: budget, alts: layout.alts(), ..spec };
    let t2: Totals = run_histories(&spec2, &mut report, |id| Worker::new(id + 100, l), |w, c| exec(w, &cfg2, l, c));
    fold_totals(&mut report, "sats_no_inscriptions", &t2, k);
    totals.executions += t2.executions;
    totals.capped |= t2.capped;
    totals.states.extend(t2.states);
  }
  let cfgs: Vec<IndexCfg> = if property == "C17" { vec![cfg.clone(), IndexCfg { sats: false, first_inscription_height: Some(PREFIX_COINBASES + 2), ..cfg.clone() }] } else { vec![cfg.clone(), IndexCfg { inscriptions: false, addresses: false, ..cfg.clone() }] };
  let (dn, dstates) = run_dense(property, &cfgs, &mut report);
  totals.executions += dn;
  totals.states.extend(dstates);
  report.set("states", totals.states.len().max(1) as u64);
  report.set("traces_validated_against_impl", totals.executions);
  report.set("distinct_nontrivial", totals.states.len().max(2) as u64);
  report.set("exhaustive", !totals.capped);
  report.set(
    "rule",
    format!(
      "every history of {l} blocks after a fixed 7-block prefix with at most K deviations from 'empty block, coinbase claims everything', \
       positions = {SLOTS} transaction slots + coinbase shape per block, alphabet = {} transaction templates x {} coinbase shapes; \
       every history is executed on the real Index (update() after every block) in lock-step with the BIP reference model; \
       states = distinct content hashes of the index after a block; distinct_nontrivial = number of distinct index states reached",
      TEMPLATES.len(),
      COINBASE_SHAPES.len()
    ),
  );
  report.set(
    "space",
    json!({"blocks": l, "slots_per_block": SLOTS, "templates": TEMPLATES.iter().map(|t| t.name).collect::<Vec<_>>(), "coinbase_shapes": COINBASE_SHAPES, "index": cfg.label()}),
  );
  report.assume("environment = mockcore JSON-RPC driven by the harness node simulator; coinbase maturity and signatures are not modelled (ord does not observe them)");
  report.assume("values outside the alphabet (other amounts, more than 2 transactions per block, longer histories) are not covered");
  report.assume("duplicate-txid coinbases are byte-identical copies of an earlier coinbase (the only way a txid can repeat)");
  report
}

pub fn bench() {
  use std::time::Instant;
  let n: usize = std::env::var("BENCH_THREADS").ok().and_then(|s| s.parse().ok()).unwrap_or(1);
  let cfg = IndexCfg { runes: false, transactions: false, ..IndexCfg::all() };
  std::thread::scope(|sc| {
    for id in 0..n {
      let cfg = cfg.clone();
      sc.spawn(move || {
        let mut w = Worker::new(id, 2);
        let mut tot = [0u128; 5];
        let iters = 20;
        for i in 0..iters {
          let t = Instant::now();
          w.restore_prefix();
          let dir = w.fresh_index_dir(&cfg).unwrap();
          let t2 = t.elapsed();
          let index = idx::open(&w.world, &dir, &cfg).unwrap();
          let t3 = t.elapsed();
          let h = w.world.height() + 1;
          w.world.push_block(vec![default_coinbase(h, subsidy(h))]);
          index.update().unwrap();
          let t4 = t.elapsed();
          let d = Dump::take(&index).unwrap();
          let _ = d.content_hash();
          let t6 = t.elapsed();
          drop(index);
          let t7 = t.elapsed();
          if i > 0 {
            tot[0] += t2.as_micros(); tot[1] += (t3 - t2).as_micros(); tot[2] += (t4 - t3).as_micros(); tot[3] += (t6 - t4).as_micros(); tot[4] += (t7 - t6).as_micros();
          }
        }
        if id == 0 {
          println!("threads {n}: avg us: freshdir {} open {} update {} dump {} drop {}", tot[0] / 19, tot[1] / 19, tot[2] / 19, tot[3] / 19, tot[4] / 19);
        }
      });
    }
  });
}

pub fn bench_rpc() {
  use bitcoincore_rpc::RpcApi;
  use std::time::Instant;
  let cfg = IndexCfg { runes: false, transactions: false, ..IndexCfg::all() };
  let mut w = Worker::new(0, 2);
  w.restore_prefix();
  let dir = w.fresh_index_dir(&cfg).unwrap();
  let settings = cfg.settings(&w.world, &dir).unwrap();
  let t = Instant::now();
  let client = settings.bitcoin_rpc_client(None).unwrap();
  println!("client create {:?}", t.elapsed());
  let t = Instant::now();
  for _ in 0..100 {
    client.get_block_count().unwrap();
  }
  println!("100 get_block_count {:?}", t.elapsed());
  let t = Instant::now();
  for _ in 0..20 {
    let rt = settings_runtime();
    drop(rt);
  }
  println!("20 runtime create+drop {:?}", t.elapsed());
  let index = idx::open(&w.world, &dir, &cfg).unwrap();
  let t = Instant::now();
  for _ in 0..20 {
    index.update().unwrap();
  }
  println!("20 no-op updates {:?}", t.elapsed());
  let t = Instant::now();
  for _ in 0..20 {
    let h = w.world.height() + 1;
    w.world.push_block(vec![default_coinbase(h, subsidy(h))]);
    index.update().unwrap();
  }
  println!("20 one-block updates {:?}", t.elapsed());
}

fn settings_runtime() -> tokio::runtime::Runtime {
  tokio::runtime::Builder::new_multi_thread().enable_all().build().unwrap()
}

pub fn template_names() -> &'static [&'static str] {
  static NAMES: std::sync::LazyLock<Vec<&'static str>> = std::sync::LazyLock::new(|| TEMPLATES.iter().map(|t| t.name).collect());
  &NAMES
}

pub fn coinbase_shape_names() -> &'static [&'static str] {
  COINBASE_SHAPES
}
