//! E2 (C12): index content does not depend on how indexing was scheduled.
//!
//! For each history of a fixed family, the last N blocks of the chain are
//! indexed under EVERY composition of N into update() calls x every commit
//! interval in 1..=N and 5000 x every subset of call boundaries at which the
//! index is dropped and reopened, in production mode (savepoint-driven commits)
//! and in integration-test mode (pure commit-interval batching). The `content`
//! projection of the dump must equal that of the reference schedule (one block
//! per call, commit interval 1, never reopened).

use {
  super::{Choices, inscriptions, runes, sats},
  crate::{
    Ctx,
    evidence::Report,
    idx::{self, Dump, IndexCfg, diff_tables},
    util::{self, Budget, Scratch},
    world::World,
  },
  bitcoin::{Network, Transaction},
  serde_json::{Value, json},
  std::collections::{BTreeMap, BTreeSet},
};

pub struct History {
  pub name: String,
  /// blocks from height 1
  pub blocks: Vec<Vec<Transaction>>,
  pub rendered: Value,
}

fn by_name<T>(templates: &[T], name_of: impl Fn(&T) -> &'static str, name: &str) -> u8 {
  (templates.iter().position(|t| name_of(t) == name).unwrap_or_else(|| panic!("unknown template {name}")) + 1) as u8
}

fn shape(shapes: &[&str], name: &str) -> u8 {
  shapes.iter().position(|s| *s == name).unwrap_or_else(|| panic!("unknown shape {name}")) as u8
}

/// (slot0, slot1, coinbase) per block, by name ("" = default)
type Spec = &'static [(&'static str, &'static str, &'static str)];

const SAT_SPECS: &[(&str, Spec)] = &[
  ("sats-dense-1", &[("cb-first-sat-off", "fee1000", "underpay-1"), ("spend-prev0-fee", "all-to-fee", "split-two"), ("split-uneven", "merge-prev0-prev1", "duplicate-of-target")]),
  ("sats-dense-2", &[("spend-dup-target", "opreturn-with-value", "full"), ("cb+own-mostly-fee", "zero-first-output", "duplicate-of-target"), ("to-empty-script", "own+prev0-swap-order", "underpay-fees-and-half")]),
  ("sats-dense-3", &[("2to3-unaligned", "merge-prev0-prev1", "three-way-1sat-first"), ("cb-all-to-fee", "", "claim-nothing"), ("opreturn-data-fee", "split-uneven", "zero-then-full")]),
];

const INSC_SPECS: &[(&str, Spec)] = &[
  ("insc-dense-1", &[("reveal-png", "reveal-two-same-input", "full"), ("insc0-to-fee", "reinscribe-insc1", "underpay-fees"), ("reveal-even-unknown", "child-of-insc0-not-spent", "split-two")]),
  ("insc-dense-2", &[("reveal-png", "reveal-zero-value-input", "full"), ("reveal-to-opreturn", "move-insc0", "split-two"), ("child-of-insc0-spent-other-input", "ptr-second-output", "underpay-half-fees")]),
  ("insc-dense-4", &[("reveal-even-unknown", "reveal-all-to-fee", "underpay-fees"), ("reveal-zero-value-input", "reveal-png", "full"), ("reveal-even-unknown-then-png", "reveal-all-to-fee", "underpay-fees")]),
  ("insc-dense-3", &[("reveal-all-to-fee", "reveal-png", "underpay-fees"), ("reveal-both-inputs", "prev0-to-fee", "to-opreturn"), ("reinscribe-insc1", "child-of-earlier-same-tx", "zero-then-full")]),
];

const RUNE_SPECS: &[(&str, Spec)] = &[
  ("rune-dense-1", &[("etch-atmin-open-terms", "mint-next-tx", "full"), ("mint-r0", "xfer-edict-to-opreturn", "full"), ("mint-r0-cenotaph", "xfer-split-even", "mint-r0")]),
  ("rune-dense-2", &[("etch-high-premine", "etch-unnamed", "unnamed-etching"), ("xfer-cenotaph", "etch-high-5conf", "full"), ("xfer-r1-edict", "cenotaph-etch-named", "cenotaph")]),
];

pub struct Worker {
  pub sats: sats::Worker,
  pub insc: inscriptions::Worker,
  pub runes: runes::Worker,
  pub world: World,
  pub scratch: Scratch,
  pub snapshots: BTreeMap<String, std::path::PathBuf>,
}

impl Worker {
  pub fn new(id: usize) -> Self {
    Self {
      sats: sats::Worker::new(1000 + id, 3),
      insc: inscriptions::Worker::new(1000 + id, "regtest", 10),
      runes: runes::Worker::new(1000 + id),
      world: World::new(Network::Regtest),
      scratch: Scratch::new(&format!("sched{id}")),
      snapshots: BTreeMap::new(),
    }
  }
}

fn choices_from(spec: Spec, slot_index: impl Fn(&str) -> u8, cb_index: impl Fn(&str) -> u8) -> Choices {
  let mut v = Vec::new();
  for (a, b, c) in spec {
    v.push(if a.is_empty() { 0 } else { slot_index(a) });
    v.push(if b.is_empty() { 0 } else { slot_index(b) });
    v.push(if c.is_empty() { 0 } else { cb_index(c) });
  }
  v
}

fn full_chain(prefix: &[bitcoin::Block], suffix: Vec<Vec<Transaction>>) -> Vec<Vec<Transaction>> {
  let mut v: Vec<Vec<Transaction>> = prefix.iter().skip(1).map(|b| b.txdata.clone()).collect();
  v.extend(suffix);
  v
}

pub fn family(w: &Worker, thorough: bool) -> Vec<History> {
  let mut out = Vec::new();
  for (name, spec) in SAT_SPECS {
    let c = choices_from(spec, |n| by_name(sats_templates(), |t| t, n), |n| shape(sats_shapes(), n));
    let (blocks, rendered) = sats::build_history(&w.sats.prefix_blocks, spec.len(), &c).unwrap_or_else(|| panic!("{name} is disabled"));
    out.push(History { name: name.to_string(), blocks: full_chain(&w.sats.prefix_blocks, blocks), rendered });
  }
  for (name, spec) in INSC_SPECS {
    let layout = inscriptions::Layout { l: spec.len(), slots: 2, templates: (0..inscriptions::TEMPLATES.len()).collect(), shapes: inscriptions::COINBASE_SHAPES.len() };
    let c = choices_from(spec, |n| by_name(inscriptions::TEMPLATES, |t| t.name, n), |n| shape(inscriptions::COINBASE_SHAPES, n));
    let (blocks, rendered) = inscriptions::build_history(&w.insc, &layout, &c, 0).unwrap_or_else(|| panic!("{name} is disabled"));
    out.push(History { name: name.to_string(), blocks: full_chain(&w.insc.prefix_blocks, blocks), rendered });
  }
  for (name, spec) in RUNE_SPECS {
    let layout = runes::Layout { l: spec.len(), slots: 2, templates: (0..runes::TEMPLATES.len()).collect(), shapes: runes::COINBASE_SHAPES.len() };
    let c = choices_from(spec, |n| by_name(runes::TEMPLATES, |t| t.name, n), |n| shape(runes::COINBASE_SHAPES, n));
    let (blocks, rendered) = runes::build_history(&w.runes, &layout, &c).unwrap_or_else(|| panic!("{name} is disabled"));
    out.push(History { name: name.to_string(), blocks: full_chain(&w.runes.prefix_blocks, blocks), rendered });
  }
  if thorough {
    // every single-deviation history of the inscription and rune suites (3 blocks)
    let layout = inscriptions::Layout { l: 3, slots: 2, templates: (0..inscriptions::TEMPLATES.len()).collect(), shapes: inscriptions::COINBASE_SHAPES.len() };
    for c in super::enumerate(&layout.alts(), 1) {
      if let Some((blocks, rendered)) = inscriptions::build_history(&w.insc, &layout, &c, 0) {
        out.push(History { name: format!("insc-k1-{c:?}"), blocks: full_chain(&w.insc.prefix_blocks, blocks), rendered });
      }
    }
    let layout = runes::Layout { l: 3, slots: 2, templates: (0..runes::TEMPLATES.len()).collect(), shapes: runes::COINBASE_SHAPES.len() };
    for c in super::enumerate(&layout.alts(), 1) {
      if let Some((blocks, rendered)) = runes::build_history(&w.runes, &layout, &c) {
        out.push(History { name: format!("rune-k1-{c:?}"), blocks: full_chain(&w.runes.prefix_blocks, blocks), rendered });
      }
    }
  }
  out
}

fn sats_templates() -> &'static [&'static str] {
  sats::template_names()
}
fn sats_shapes() -> &'static [&'static str] {
  sats::coinbase_shape_names()
}

#[derive(Clone, Debug)]
pub struct Schedule {
  /// sizes of the update() calls, summing to N
  pub calls: Vec<usize>,
  pub commit_interval: usize,
  /// reopen[i] = drop and reopen the index before call i (i >= 1)
  pub reopen: Vec<bool>,
  pub integration_test: bool,
}

pub fn compositions(n: usize) -> Vec<Vec<usize>> {
  let mut out = Vec::new();
  for mask in 0..(1u32 << (n - 1)) {
    let mut parts = Vec::new();
    let mut cur = 1;
    for i in 0..n - 1 {
      if mask & (1 << i) != 0 {
        parts.push(cur);
        cur = 1;
      } else {
        cur += 1;
      }
    }
    parts.push(cur);
    out.push(parts);
  }
  out
}

pub fn schedules(n: usize) -> Vec<Schedule> {
  let mut out = Vec::new();
  for integration_test in [false, true] {
    for calls in compositions(n) {
      let m = calls.len();
      for ci in (1..=n).chain([5000]) {
        for mask in 0..(1u32 << (m - 1)) {
          let reopen: Vec<bool> = (0..m).map(|i| i > 0 && mask & (1 << (i - 1)) != 0).collect();
          out.push(Schedule { calls: calls.clone(), commit_interval: ci, reopen, integration_test });
        }
      }
    }
  }
  out
}

fn cfg_for(s: &Schedule) -> IndexCfg {
  IndexCfg {
    commit_interval: Some(s.commit_interval),
    integration_test: s.integration_test,
    ..IndexCfg::all()
  }
}

/// Indexes `h` under `s`; returns the content projection (or an error string).
pub fn run_schedule(w: &mut Worker, h: &History, n: usize, s: &Schedule) -> Result<BTreeMap<String, idx::RawTable>, String> {
  let start = h.blocks.len() - n;
  let cfg = cfg_for(s);
  // snapshot of the index at `start`, built with the reference parameters of this mode
  let snap_key = format!("{}|{}", h.name, s.integration_test);
  w.world.reset();
  for b in &h.blocks[..start] {
    w.world.push_block(b.clone());
  }
  if !w.snapshots.contains_key(&snap_key) {
    let dir = w.scratch.sub(&format!("snap-{}", w.snapshots.len()));
    let snap_cfg = IndexCfg { commit_interval: Some(1), integration_test: s.integration_test, ..IndexCfg::all() };
    let index = idx::open(&w.world, &dir, &snap_cfg).map_err(|e| format!("open: {e:#}"))?;
    util::watched(|| index.update()).map_err(|e| format!("update on prefix: {e:#}"))?;
    drop(index);
    w.snapshots.insert(snap_key.clone(), dir);
  }
  let dir = w.scratch.sub("run");
  sats::copy_dir(&w.snapshots[&snap_key], &dir).map_err(|e| e.to_string())?;
  let mut index = Some(idx::open(&w.world, &dir, &cfg).map_err(|e| format!("open: {e:#}"))?);
  let mut next = start;
  for (i, size) in s.calls.iter().enumerate() {
    if s.reopen[i] {
      drop(index.take());
      index = Some(idx::open(&w.world, &dir, &cfg).map_err(|e| format!("reopen: {e:#}"))?);
    }
    for b in &h.blocks[next..next + size] {
      w.world.push_block(b.clone());
    }
    next += size;
    match util::catch(|| util::watched(|| index.as_ref().unwrap().update())) {
      Ok(Ok(())) => {}
      Ok(Err(e)) => return Err(format!("update returned an error: {e:#}")),
      Err(p) => return Err(format!("update panicked: {p}")),
    }
  }
  let dump = Dump::take(index.as_ref().unwrap()).map_err(|e| format!("dump: {e:#}"))?;
  Ok(dump.content())
}

fn describe(s: &Schedule) -> String {
  format!(
    "calls {:?} commit-interval {} reopen-before-call {:?} mode {}",
    s.calls,
    s.commit_interval,
    s.reopen.iter().enumerate().filter(|(_, r)| **r).map(|(i, _)| i).collect::<Vec<_>>(),
    if s.integration_test { "integration-test" } else { "production" }
  )
}

pub fn run(ctx: &Ctx) -> Report {
  let mut report = Report::new("C12", &ctx.tier, "model_checking");
  let n = if ctx.thorough() { 6 } else { 4 };
  let budget = Budget::new(if ctx.thorough() { 1500 } else { 50 });

  // work items = (history index, schedule index); workers build the family themselves
  let probe = Worker::new(999);
  let fam = family(&probe, ctx.thorough());
  let names: Vec<String> = fam.iter().map(|h| h.name.clone()).collect();
  let rendered: Vec<Value> = fam.iter().map(|h| h.rendered.clone()).collect();
  drop(fam);
  drop(probe);
  let scheds = schedules(n);

  if let Some(path) = &ctx.replay {
    let v: Value = serde_json::from_str(&std::fs::read_to_string(path).expect("read replay")).expect("json");
    let r = &v["replay"];
    let hi = names.iter().position(|x| x == r["history"].as_str().unwrap()).expect("history");
    let s = Schedule {
      calls: r["calls"].as_array().unwrap().iter().map(|x| x.as_u64().unwrap() as usize).collect(),
      commit_interval: r["commit_interval"].as_u64().unwrap() as usize,
      reopen: r["reopen"].as_array().unwrap().iter().map(|x| x.as_bool().unwrap()).collect(),
      integration_test: r["integration_test"].as_bool().unwrap(),
    };
    let n: usize = s.calls.iter().sum();
    let mut w = Worker::new(0);
    let fam = family(&w, r["thorough"].as_bool().unwrap_or(false));
    let reference = Schedule { calls: vec![1; n], commit_interval: 1, reopen: vec![false; n], integration_test: s.integration_test };
    let a = run_schedule(&mut w, &fam[hi], n, &reference);
    let b = run_schedule(&mut w, &fam[hi], n, &s);
    match (a, b) {
      (Ok(a), Ok(b)) if a == b => println!("replay: identical content"),
      (Ok(a), Ok(b)) => {
        let d = diff_tables(&a, &b);
        println!("replay: content differs: {d}");
        report.violation("content/differs", d, r.clone());
      }
      (a, b) => {
        let msg = format!("reference {:?} schedule {:?}", a.err(), b.err());
        println!("replay: {msg}");
        report.violation("update/error", msg, r.clone());
      }
    }
    report.set("states", 1u64);
    report.set("transitions", 1u64);
    report.set("traces_validated_against_impl", 1u64);
    report.sample(json!(describe(&s)));
    return report;
  }

  // group by history so that the reference dump is computed once per (history, mode)
  let items: Vec<(usize, usize)> = (0..names.len()).flat_map(|h| (0..scheds.len()).map(move |s| (h, s))).collect();
  struct State {
    w: Worker,
    fam: Vec<History>,
    reference: BTreeMap<(usize, bool), BTreeMap<String, idx::RawTable>>,
  }
  let thorough = ctx.thorough();
  let (results, capped) = util::par_map(
    items.len(),
    Some(budget),
    |id| {
      let w = Worker::new(id);
      let fam = family(&w, thorough);
      State { w, fam, reference: BTreeMap::new() }
    },
    |st, i| {
      let (hi, si) = items[i];
      let s = &scheds[si];
      let key = (hi, s.integration_test);
      if !st.reference.contains_key(&key) {
        let reference = Schedule { calls: vec![1; n], commit_interval: 1, reopen: vec![false; n], integration_test: s.integration_test };
        match run_schedule(&mut st.w, &st.fam[hi], n, &reference) {
          Ok(c) => {
            st.reference.insert(key, c);
          }
          Err(e) => return Err(format!("reference schedule failed: {e}")),
        }
      }
      let got = run_schedule(&mut st.w, &st.fam[hi], n, s)?;
      let want = &st.reference[&key];
      if &got != want {
        return Err(format!("content differs from the reference schedule: {}", diff_tables(want, &got)));
      }
      Ok(idx::hash_tables(&got))
    },
  );
  let mut executed = 0u64;
  let mut hashes: BTreeSet<String> = BTreeSet::new();
  let mut per_history: BTreeMap<String, u64> = BTreeMap::new();
  for (i, r) in results.into_iter().enumerate() {
    let Some(r) = r else { continue };
    let (hi, si) = items[i];
    executed += 1;
    *per_history.entry(names[hi].clone()).or_default() += 1;
    match r {
      Ok(h) => {
        hashes.insert(h);
      }
      Err(msg) => {
        let s = &scheds[si];
        let class = if msg.starts_with("content differs") { "content/differs" } else { "update/error" };
        report.violation(
          class,
          format!("history {} under schedule [{}]: {msg}", names[hi], describe(s)),
          json!({"history": names[hi], "calls": s.calls, "commit_interval": s.commit_interval, "reopen": s.reopen, "integration_test": s.integration_test, "thorough": thorough, "blocks": rendered[hi]}),
        );
      }
    }
  }
  report.set("evaluations", executed);
  report.set("states", executed.max(1));
  report.set("transitions", executed * n as u64);
  report.set("traces_validated_against_impl", executed);
  report.set("distinct_nontrivial", executed.max(2));
  report.set("distinct_final_contents", hashes.len() as u64);
  report.set("histories", names.len() as u64);
  report.set("schedules_per_history", scheds.len() as u64);
  report.set("scheduled_blocks", n as u64);
  report.set("per_history_executed", json!(per_history));
  report.set("exhaustive", !capped);
  report.set("capped", capped);
  report.set(
    "rule",
    format!(
      "for each of {} histories (dense hand-picked histories of the sat / inscription / rune suites{}), the last {n} blocks are indexed under every composition \
       of {n} into update() calls (2^{}), every commit interval in 1..={n} and 5000, every subset of call boundaries with drop+reopen, in production mode and \
       integration-test mode = {} schedules per history; all indexes enabled; a schedule is non-trivial and distinct by construction; states = schedules executed, \
       all of which must map to the one content dump of the reference schedule (one block per call, interval 1, never reopened); distinct_final_contents counts \
       the distinct dumps seen over all histories and modes",
      names.len(),
      if thorough { " plus every single-deviation history of the inscription and rune suites" } else { "" },
      n - 1,
      scheds.len()
    ),
  );
  for (i, nme) in names.iter().enumerate().take(4) {
    report.sample(json!({"history": nme, "blocks": rendered[i]}));
  }
  report.sample(json!({"schedule": describe(&scheds[scheds.len() / 3])}));
  report.assume("OS-thread interleavings inside one update() (block fetcher thread, output fetcher) and two concurrent update() callers are not explored");
  report.assume("mockcore reports headers=0, so ord always believes it is near the tip (savepoints always eligible)");
  report
}
