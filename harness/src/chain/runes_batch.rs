//! Batched-case scenarios for the rune suite: many *independent* transactions
//! (each spending its own prepared output) packed into few blocks, so that one
//! execution decides thousands of single-transaction cases against the
//! reference model.
//!
//! * `allocation_product` (C09, C08): full product of input-balance pattern x
//!   output layout x edict list x pointer.
//! * `mint_matrix` (C10, C08): every subset of the six terms fields with values
//!   placed on window edges x a mint attempt at each of the following heights.

use {
  super::{
    Exec,
    runes::{Msg, audit, runestone_script},
  },
  crate::{
    idx::{self, IndexCfg},
    refmodel::{
      runes::RuneModel,
      sats::{SatModel, subsidy},
    },
    txkit::{self, Spk},
    util::{self, Scratch},
    world::World,
  },
  bitcoin::{Network, OutPoint, Transaction, TxOut, Witness, script},
  ordinals::{Height, Rune, RuneId},
  std::collections::BTreeSet,
};

const T_FLAGS: u128 = 2;
const T_RUNE: u128 = 4;
const T_PREMINE: u128 = 6;
const T_CAP: u128 = 8;
const T_AMOUNT: u128 = 10;
const T_HSTART: u128 = 12;
const T_HEND: u128 = 14;
const T_OSTART: u128 = 16;
const T_OEND: u128 = 18;
const T_MINT: u128 = 20;
const T_POINTER: u128 = 22;

fn cb(height: u32, fees: u64) -> Transaction {
  txkit::coinbase(height, 0, vec![txkit::txout(subsidy(height) + fees, Spk::A.script())])
}

fn commit_witness(rune: u128) -> Witness {
  let s = txkit::push(script::Builder::new(), &Rune(rune).commitment()).into_script().into_bytes();
  txkit::tapscript_witness(&s)
}

pub struct Scenario {
  /// blocks from height 1
  pub blocks: Vec<Vec<Transaction>>,
  pub decided_cases: u64,
  pub description: String,
  pub samples: Vec<String>,
}

fn fee_of(tx: &Transaction, input_total: u64) -> u64 {
  input_total - tx.output.iter().map(|o| o.value.to_sat()).sum::<u64>()
}

struct Chain {
  blocks: Vec<Vec<Transaction>>,
  runes: RuneModel,
  sats: SatModel,
  genesis: bitcoin::Block,
}

impl Chain {
  fn new() -> Self {
    let genesis = bitcoin::blockdata::constants::genesis_block(Network::Regtest);
    let mut c = Self {
      blocks: Vec::new(),
      runes: RuneModel::default(),
      sats: SatModel::default(),
      genesis: genesis.clone(),
    };
    c.runes.apply_block(&genesis, Network::Regtest, 0);
    c.sats.apply_block(&genesis);
    c
  }
  fn height(&self) -> u32 {
    self.blocks.len() as u32
  }
  /// pushes a block of `txs` (without coinbase); fees are claimed in full
  fn push(&mut self, txs: Vec<Transaction>) {
    let height = self.height() + 1;
    let mut fees = 0u64;
    for tx in &txs {
      let mut total = 0;
      for i in &tx.input {
        total += self
          .sats
          .meta
          .get(&i.previous_output)
          .map(|m| m.0)
          .or_else(|| {
            // created earlier in this same block
            txs.iter().find(|t| t.compute_txid() == i.previous_output.txid).map(|t| t.output[i.previous_output.vout as usize].value.to_sat())
          })
          .expect("scenario input exists");
      }
      fees += fee_of(tx, total);
    }
    let mut all = vec![cb(height, fees)];
    all.extend(txs);
    let blk = bitcoin::Block {
      header: self.genesis.header,
      txdata: all.clone(),
    };
    self.runes.apply_block(&blk, Network::Regtest, 0);
    self.sats.apply_block(&blk);
    self.blocks.push(all);
  }
  fn coinbase_outpoint(&self, height: u32) -> OutPoint {
    OutPoint {
      txid: self.blocks[(height - 1) as usize][0].compute_txid(),
      vout: 0,
    }
  }
}

const COIN50: u64 = 5_000_000_000;

/// Etches a rune whose premine is split evenly over `n` outputs of 1000 sats each.
fn etch_split(chain: &Chain, commit: OutPoint, funding: OutPoint, name: u128, premine: u128, n: usize) -> Transaction {
  let mut outs: Vec<TxOut> = (0..n).map(|_| txkit::txout(1000, Spk::A.script())).collect();
  let msg = Msg {
    fields: vec![(T_FLAGS, 1), (T_RUNE, name), (T_PREMINE, premine)],
    edicts: vec![(0, 0, 0, (n + 1) as u128)],
    raw_tail: vec![],
  };
  outs.push(txkit::txout(0, runestone_script(&msg.ints())));
  let _ = chain;
  txkit::tx(vec![txkit::txin(commit, commit_witness(name)), txkit::txin(funding, Witness::new())], outs)
}

#[derive(Clone, Copy, Debug, PartialEq)]
enum Lay {
  A,
  B,
  C,
  Rs,
}

const LAYOUTS: &[&[Lay]] = &[
  &[Lay::A, Lay::Rs],
  &[Lay::A, Lay::B, Lay::Rs],
  &[Lay::Rs, Lay::A],
  &[Lay::A, Lay::Rs, Lay::B],
  &[Lay::Rs],
  &[Lay::A, Lay::B, Lay::C, Lay::Rs],
  &[Lay::Rs, Lay::A, Lay::B, Lay::C],
  &[Lay::A, Lay::Rs, Lay::B, Lay::C],
];

#[derive(Clone, Copy, Debug)]
enum Amt {
  Zero,
  One,
  Half,
  Bal,
  BalPlusOne,
}

#[derive(Clone, Copy, Debug)]
enum OutSel {
  Zero,
  One,
  N,
  Rs,
}

#[derive(Clone, Copy, Debug)]
enum IdSel {
  R0,
  R1,
  Unknown,
}

#[derive(Clone, Copy, Debug)]
enum Ptr {
  None,
  Zero,
  One,
  Rs,
}

pub fn allocation_product(thorough: bool) -> Scenario {
  let mut chain = Chain::new();
  for _ in 0..8 {
    chain.push(vec![]);
  }
  // height 9: commit outputs
  let n_commit = 2;
  let mut outs: Vec<TxOut> = (0..n_commit).map(|_| txkit::txout(10_000, Spk::B.script())).collect();
  outs.push(txkit::txout(COIN50 - 10_000 * n_commit as u64, Spk::C.script()));
  let commit_tx = txkit::tx(vec![txkit::txin(chain.coinbase_outpoint(1), Witness::new())], outs);
  let commit_txid = commit_tx.compute_txid();
  chain.push(vec![commit_tx]);
  for _ in 0..5 {
    chain.push(vec![]);
  }
  // height 15: etch R0 and R1 (commit at 9 has 15-9+1 = 7 confirmations)
  let h = chain.height() + 1;
  let min = Rune::minimum_at_height(Network::Regtest, Height(h)).0;
  let per_tx = if thorough { 56_000usize } else { 8_000 };
  let e0 = etch_split(&chain, OutPoint { txid: commit_txid, vout: 0 }, chain.coinbase_outpoint(2), min + 10, 1000 * per_tx as u128, per_tx);
  let e1 = etch_split(&chain, OutPoint { txid: commit_txid, vout: 1 }, chain.coinbase_outpoint(3), min + 20, 501 * per_tx as u128, per_tx);
  let (e0id, e1id) = (e0.compute_txid(), e1.compute_txid());
  chain.push(vec![e0]);
  chain.push(vec![e1]);
  let r0 = RuneId { block: h.into(), tx: 1 };
  let r1 = RuneId { block: (h + 1).into(), tx: 1 };
  assert!(chain.runes.entries.contains_key(&r0) && chain.runes.entries.contains_key(&r1), "scenario etchings must be valid");

  // the case list
  let amts = [Amt::Zero, Amt::One, Amt::Half, Amt::Bal, Amt::BalPlusOne];
  let outsels = [OutSel::Zero, OutSel::One, OutSel::N, OutSel::Rs];
  let ids = [IdSel::R0, IdSel::R1, IdSel::Unknown];
  let ptrs = [Ptr::None, Ptr::Zero, Ptr::One, Ptr::Rs];
  let mut edict_lists: Vec<Vec<(IdSel, Amt, OutSel)>> = vec![vec![]];
  for id in ids {
    for a in amts {
      for o in outsels {
        edict_lists.push(vec![(id, a, o)]);
      }
    }
  }
  let amts2: &[Amt] = if thorough { &[Amt::Zero, Amt::One, Amt::Half, Amt::BalPlusOne] } else { &[Amt::Zero, Amt::One, Amt::BalPlusOne] };
  let outs2: &[OutSel] = if thorough { &[OutSel::Zero, OutSel::One, OutSel::N, OutSel::Rs] } else { &[OutSel::Zero, OutSel::N, OutSel::Rs] };
  let mut singles2 = Vec::new();
  for id in [IdSel::R0, IdSel::R1] {
    for a in amts2 {
      for o in outs2 {
        singles2.push((id, *a, *o));
      }
    }
  }
  for a in &singles2 {
    for b in &singles2 {
      edict_lists.push(vec![*a, *b]);
    }
  }
  struct Case {
    two_runes: bool,
    layout: usize,
    edicts: usize,
    ptr: Ptr,
  }
  let mut cases = Vec::new();
  for two_runes in [false, true] {
    for layout in 0..LAYOUTS.len() {
      for edicts in 0..edict_lists.len() {
        for ptr in ptrs {
          // quick tier: two-edict lists only with pointer None/Rs on two layouts
          if !thorough && edict_lists[edicts].len() == 2 && !(matches!(ptr, Ptr::None | Ptr::Rs) && (layout == 1 || layout == 3)) {
            continue;
          }
          // thorough tier: two-rune inputs only with pointer None/Rs for two-edict lists
          if thorough && two_runes && edict_lists[edicts].len() == 2 && !matches!(ptr, Ptr::None | Ptr::Rs) {
            continue;
          }
          cases.push(Case { two_runes, layout, edicts, ptr });
        }
      }
    }
  }
  let n_two = cases.iter().filter(|c| c.two_runes).count();
  let n_one = cases.len() - n_two;

  // runic outputs: e0 outputs 0..1999 hold 1000 R0 each, e1 outputs hold 501 R1 each.
  // grow the supply of runic outputs by re-splitting when needed.
  let mut r0_outputs: Vec<OutPoint> = (0..per_tx as u32).map(|v| OutPoint { txid: e0id, vout: v }).collect();
  let mut r1_outputs: Vec<OutPoint> = (0..per_tx as u32).map(|v| OutPoint { txid: e1id, vout: v }).collect();
  let max_cases_one = r0_outputs.len().saturating_sub(n_two + 8);
  assert!(n_one <= max_cases_one && n_two + 8 <= r1_outputs.len(), "allocation product: {n_one}+{n_two} cases do not fit {per_tx} outputs");
  let n_two = cases.iter().filter(|c| c.two_runes).count();

  // height 16: combine R0+R1 outputs for the two-rune cases
  let mut combined: Vec<OutPoint> = Vec::new();
  let mut txs = Vec::new();
  for _ in 0..n_two {
    let a = r0_outputs.pop().unwrap();
    let b = r1_outputs.pop().unwrap();
    let tx = txkit::tx(
      vec![txkit::txin(a, Witness::new()), txkit::txin(b, Witness::new())],
      vec![txkit::txout(2000, Spk::A.script())],
    );
    combined.push(OutPoint { txid: tx.compute_txid(), vout: 0 });
    txs.push(tx);
  }
  chain.push(txs);

  // height 17: the product block
  let mut txs = Vec::new();
  let mut samples = Vec::new();
  for (ci, c) in cases.iter().enumerate() {
    let src = if c.two_runes { combined.pop().unwrap() } else { r0_outputs.pop().unwrap() };
    let value = chain.sats.meta.get(&src).map(|m| m.0).unwrap();
    let bal0 = chain.runes.balances.get(&src).and_then(|m| m.get(&r0)).cloned().unwrap_or(0);
    let bal1 = chain.runes.balances.get(&src).and_then(|m| m.get(&r1)).cloned().unwrap_or(0);
    let layout = LAYOUTS[c.layout];
    let n = layout.len() as u128;
    let rs = layout.iter().position(|l| *l == Lay::Rs).unwrap() as u128;
    let mut msg = Msg::default();
    match c.ptr {
      Ptr::None => {}
      Ptr::Zero => msg.fields.push((T_POINTER, 0)),
      Ptr::One => {
        if n < 2 {
          msg.fields.push((T_POINTER, 0));
        } else {
          msg.fields.push((T_POINTER, 1));
        }
      }
      Ptr::Rs => msg.fields.push((T_POINTER, rs)),
    }
    for (id, a, o) in &edict_lists[c.edicts] {
      let (rid, bal) = match id {
        IdSel::R0 => (r0, bal0),
        IdSel::R1 => (r1, bal1),
        IdSel::Unknown => (RuneId { block: 999, tx: 3 }, 0),
      };
      let amount = match a {
        Amt::Zero => 0,
        Amt::One => 1,
        Amt::Half => bal / 2,
        Amt::Bal => bal,
        Amt::BalPlusOne => bal.saturating_add(1),
      };
      let output = match o {
        OutSel::Zero => 0,
        OutSel::One => 1.min(n - 1),
        OutSel::N => n,
        OutSel::Rs => rs,
      };
      msg.edicts.push((rid.block, rid.tx, amount, output));
    }
    let spendable = layout.iter().filter(|l| **l != Lay::Rs).count() as u64;
    let mut outs = Vec::new();
    for l in layout {
      outs.push(match l {
        Lay::A => txkit::txout(value / spendable, Spk::A.script()),
        Lay::B => txkit::txout(value / spendable, Spk::B.script()),
        Lay::C => txkit::txout(value / spendable, Spk::C.script()),
        Lay::Rs => txkit::txout(0, runestone_script(&msg.ints())),
      });
    }
    if ci % 997 == 0 {
      samples.push(format!(
        "inputs {{R0:{bal0}, R1:{bal1}}} layout {:?} edicts {:?} pointer {:?}",
        layout, edict_lists[c.edicts], c.ptr
      ));
    }
    txs.push(txkit::tx(vec![txkit::txin(src, Witness::new())], outs));
  }
  let decided = txs.len() as u64;
  // the cases are independent: keep every block within what a node can serve (about 1.5 MB here)
  for chunk in txs.chunks(10_000) {
    chain.push(chunk.to_vec());
  }
  chain.push(vec![]);
  Scenario {
    blocks: chain.blocks,
    decided_cases: decided,
    description: format!(
      "allocation product: {} single-transaction cases = input balances {{R0}} / {{R0,R1}} x {} output layouts x {} edict lists (all single edicts over id{{R0,R1,unknown}} x amount{{0,1,half,balance,balance+1}} x output{{0,1,n,runestone}}, plus pairs over a reduced alphabet) x pointer{{none,0,1,runestone}}",
      decided,
      LAYOUTS.len(),
      edict_lists.len()
    ),
    samples,
  }
}

/// stands for "the etch height" in the extra terms variants
const HE_PLACEHOLDER: u128 = 0xE7C4_0000;

pub fn mint_matrix(thorough: bool) -> Scenario {
  let mut chain = Chain::new();
  for _ in 0..8 {
    chain.push(vec![]);
  }
  // terms variants: every subset of the six fields; values chosen below relative to the etch height
  // plus variants with values at the ends of the integer range and on the etch height itself
  let big = u128::from(u64::MAX);
  let extras: Vec<Vec<(u128, u128)>> = vec![
    vec![(T_CAP, 9), (T_AMOUNT, 5), (T_OSTART, big)],
    vec![(T_CAP, 9), (T_AMOUNT, 5), (T_OEND, big)],
    vec![(T_CAP, 9), (T_AMOUNT, 5), (T_HSTART, big)],
    vec![(T_CAP, 9), (T_AMOUNT, 5), (T_HEND, big)],
    vec![(T_CAP, 9), (T_AMOUNT, 5), (T_HSTART, 0), (T_OSTART, 0)],
    vec![(T_CAP, 9), (T_AMOUNT, 5), (T_HEND, 0)],
    vec![(T_CAP, 9), (T_AMOUNT, 5), (T_OEND, 0)],
    vec![(T_CAP, 9), (T_AMOUNT, 5), (T_HSTART, big), (T_OSTART, 1)],
    vec![(T_CAP, 9), (T_AMOUNT, 5), (T_HEND, big), (T_OEND, 2)],
    vec![(T_CAP, 9), (T_AMOUNT, 5), (T_OSTART, big - 1), (T_OEND, big)],
    vec![(T_CAP, u128::MAX), (T_AMOUNT, 1)],
    vec![(T_CAP, 1), (T_AMOUNT, u128::MAX)],
    vec![(T_CAP, 3), (T_AMOUNT, 0)],
    vec![(T_CAP, 9), (T_AMOUNT, 5), (T_HSTART, HE_PLACEHOLDER)],
    vec![(T_CAP, 9), (T_AMOUNT, 5), (T_HEND, HE_PLACEHOLDER)],
    vec![(T_CAP, 9), (T_AMOUNT, 5), (T_HEND, HE_PLACEHOLDER + 1), (T_OEND, 1)],
  ];
  let n_subsets = 64usize;
  let n_var = n_subsets + extras.len();
  let heights_after = if thorough { 6 } else { 5 };
  // height 9: commit outputs (p2tr) and funding slices
  let n_slices = n_var * (heights_after + 1) * 2 + 8;
  let mut outs: Vec<TxOut> = (0..n_var).map(|_| txkit::txout(10_000, Spk::B.script())).collect();
  for _ in 0..n_slices {
    outs.push(txkit::txout(2_000, Spk::A.script()));
  }
  let spent: u64 = 10_000 * n_var as u64 + 2_000 * n_slices as u64;
  outs.push(txkit::txout(COIN50 - spent, Spk::C.script()));
  let fan = txkit::tx(vec![txkit::txin(chain.coinbase_outpoint(1), Witness::new())], outs);
  let fan_id = fan.compute_txid();
  chain.push(vec![fan]);
  for _ in 0..5 {
    chain.push(vec![]);
  }
  let he = chain.height() + 1; // etch height (15)
  let min = Rune::minimum_at_height(Network::Regtest, Height(he)).0;
  let mut etches = Vec::new();
  for v in 0..n_var {
    let mut fields = vec![(T_FLAGS, 3u128), (T_RUNE, min + 100 + v as u128)];
    if v >= n_subsets {
      for (t, x) in &extras[v - n_subsets] {
        let x = if *x >= HE_PLACEHOLDER && *x < HE_PLACEHOLDER + 8 { u128::from(he) + (*x - HE_PLACEHOLDER) } else { *x };
        fields.push((*t, x));
      }
    } else {
    if v & 1 != 0 {
      fields.push((T_CAP, 2));
    }
    if v & 2 != 0 {
      fields.push((T_AMOUNT, 5));
    }
    if v & 4 != 0 {
      fields.push((T_HSTART, u128::from(he + 2)));
    }
    if v & 8 != 0 {
      fields.push((T_HEND, u128::from(he + 4)));
    }
    if v & 16 != 0 {
      fields.push((T_OSTART, 1));
    }
    if v & 32 != 0 {
      fields.push((T_OEND, 3));
    }
    }
    let msg = Msg { fields, edicts: vec![], raw_tail: vec![] };
    let name = min + 100 + v as u128;
    let tx = txkit::tx(
      vec![txkit::txin(OutPoint { txid: fan_id, vout: v as u32 }, commit_witness(name))],
      vec![txkit::txout(10_000, Spk::A.script()), txkit::txout(0, runestone_script(&msg.ints()))],
    );
    etches.push(tx);
  }
  // mints in the etching block itself (before etching → no effect, after → at height he)
  let mut slice = n_var as u32;
  let mut mint_tx = |id: RuneId, cenotaph: bool, slice: &mut u32| {
    let mut fields = vec![(T_MINT, u128::from(id.block)), (T_MINT, u128::from(id.tx))];
    if cenotaph {
      fields.push((100, 0));
    }
    let msg = Msg { fields, edicts: vec![], raw_tail: vec![] };
    let tx = txkit::tx(
      vec![txkit::txin(OutPoint { txid: fan_id, vout: *slice }, Witness::new())],
      vec![txkit::txout(2_000, Spk::A.script()), txkit::txout(0, runestone_script(&msg.ints()))],
    );
    *slice += 1;
    tx
  };
  let mut decided = 0u64;
  let mut block = Vec::new();
  // half of the mints of the etch block come before the etching (id not yet etched), half after
  for v in 0..n_var / 2 {
    let id = RuneId { block: he.into(), tx: (n_var / 2 + 1 + v) as u32 };
    block.push(mint_tx(id, false, &mut slice));
    decided += 1;
  }
  block.extend(etches);
  for v in 0..n_var {
    let id = RuneId { block: he.into(), tx: (n_var / 2 + 1 + v) as u32 };
    block.push(mint_tx(id, false, &mut slice));
    decided += 1;
  }
  chain.push(block);
  assert_eq!(chain.runes.entries.len(), n_var, "all scenario etchings must be valid");
  for d in 1..=heights_after {
    let mut block = Vec::new();
    for v in 0..n_var {
      let id = RuneId { block: he.into(), tx: (n_var / 2 + 1 + v) as u32 };
      // the second height after etching mints through a cenotaph for odd variants
      let ceno = d == 2 && v % 2 == 1;
      block.push(mint_tx(id, ceno, &mut slice));
      decided += 1;
      if d == 3 {
        // a second attempt in the same block (cap crossing inside a block)
        block.push(mint_tx(id, false, &mut slice));
        decided += 1;
      }
    }
    chain.push(block);
  }
  Scenario {
    blocks: chain.blocks,
    decided_cases: decided,
    description: format!(
      "mint matrix: {n_var} runes = every subset of {{cap 2, amount 5, height start e+2, height end e+4, offset start 1, offset end 3}} plus {} variants with \
       terms values 0, e, e+1 and u64::MAX / u128::MAX (window arithmetic at the ends of the integer range), etched at height e={he}; \
       a mint attempt for every rune before and after its etching inside block e and at each of the heights e+1..e+{heights_after} \
       (cenotaph mints at e+2 for odd variants, two attempts per rune in block e+3): {decided} mint decisions",
      n_var - n_subsets
    ),
    samples: vec![format!("variant 63 = all six fields: mintable exactly at height {}", he + 2)],
  }
}

/// Runs a scenario from genesis on a fresh index, auditing after every block from `audit_from`.
pub fn run_scenario(s: &Scenario, cfg: &IndexCfg, audit_from: usize, tag: &str) -> Exec {
  run_scenario_events(s, cfg, audit_from, tag, false)
}

/// With `events`, the emitted events are folded block by block and compared with the index (C37);
/// `audit_from` must then be 0 so that every update() indexes exactly one block.
pub fn run_scenario_events(s: &Scenario, cfg: &IndexCfg, audit_from: usize, tag: &str, events: bool) -> Exec {
  let mut e = Exec::default();
  assert!(!events || audit_from == 0);
  let mut world = World::new(Network::Regtest);
  let scratch = Scratch::new(&format!("rbatch-{tag}"));
  let dir = scratch.sub("idx");
  let (etx, mut erx) = tokio::sync::mpsc::channel(1 << 16);
  let opened = if events { idx::open_with_events(&world, &dir, cfg, etx) } else { idx::open(&world, &dir, cfg) };
  let index = match opened {
    Ok(i) => i,
    Err(err) => {
      e.fail("C16", "open/error", format!("Index::open failed: {err:#}"));
      return e;
    }
  };
  let mut fold = super::events::EventFold::default();
  let mut runes = RuneModel::default();
  let mut sats = SatModel::default();
  runes.apply_block(&world.blocks[0], Network::Regtest, 0);
  sats.apply_block(&world.blocks[0]);
  let mut feats: BTreeSet<&'static str> = BTreeSet::new();
  for (i, txs) in s.blocks.iter().enumerate() {
    world.push_block(txs.clone());
    let block = world.blocks.last().unwrap().clone();
    runes.apply_block(&block, Network::Regtest, 0);
    sats.apply_block(&block);
    if i < audit_from {
      continue;
    }
    match util::catch(|| util::watched(|| index.update())) {
      Ok(Ok(())) => {}
      Ok(Err(err)) => {
        e.fail("C16", "update/error", format!("Index::update returned an error on a valid chain: {err:#}"));
        break;
      }
      Err(p) => {
        e.fail("C16", "update/panic", format!("Index::update panicked on a valid chain: {p}"));
        break;
      }
    }
    e.blocks += 1;
    // ord ends an update quietly when the node cannot serve a block; that is an environment limit, not a verdict
    let indexed = index.block_count().unwrap_or(0);
    if indexed != world.height() + 1 {
      e.fail("MACHINERY", "machinery/index-behind-chain", format!("after update() the index holds {indexed} blocks, the node {}: the node could not serve a block of scenario {tag}", world.height() + 1));
      break;
    }
    match util::catch(|| audit(&index, &runes, &sats, &mut e, &mut feats)) {
      Ok(Some(hash)) => e.states.push(hash),
      Ok(None) => {}
      Err(p) => e.fail("C16", "query/panic", format!("an index query panicked during the audit: {p}")),
    }
    if events {
      let evs = super::events::drain(&mut erx);
      fold.apply_block(&block, world.height(), evs);
      let obs = idx::Dump::take(&index).ok().and_then(|d| super::inscriptions::observe(&index, &d).ok()).unwrap_or_default();
      fold.compare(&index, &obs, &mut e);
    }
  }
  if events {
    *e.features.entry("events-folded").or_default() += fold.events;
  }
  for f in &feats {
    e.hit(f);
  }
  for (why, n) in &runes.mint_rejections {
    *e.features.entry(match *why {
      "no-terms" => "decided:mint-rejected-no-terms",
      "before-start" => "decided:mint-rejected-before-start",
      "at-or-after-end" => "decided:mint-rejected-at-or-after-end",
      "cap-reached" => "decided:mint-rejected-cap-reached",
      _ => "decided:mint-rejected-unknown-rune",
    })
    .or_default() += n;
  }
  *e.features.entry("decided:mint-accepted").or_default() += runes.events.minted.len() as u64;
  e.outcome = feats.iter().cloned().collect::<Vec<_>>().join("|");
  e
}
