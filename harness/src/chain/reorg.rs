//! E4 (C14): savepoint / reorg machine — explicit-state exploration of an
//! abstract model transcribed from `Index::update`, `Updater::update_index`,
//! `Reorg::{detect_reorg, handle_reorg, is_savepoint_required, update_savepoints}`
//! plus conformance: every transition of the explored model graph is replayed
//! on the real `Index` (path to the state + the event) and the observables must
//! agree step by step; after a recovered reorg the index content must equal a
//! from-scratch index on the node's chain.

use {
  crate::{
    Ctx,
    evidence::Report,
    idx::{self, Dump, IndexCfg, diff_tables},
    txkit::{self, Spk},
    util::{self, Budget, Scratch},
    world::World,
  },
  bitcoin::{BlockHash, Network},
  ord::index::verif::knobs,
  serde_json::{Value, json},
  std::collections::{BTreeMap, BTreeSet, HashMap, HashSet, VecDeque},
};

/// Does the code under test stop retrying when a rollback makes no progress?
/// (true since the `fix:` commit for KF-C14-1; the model mirrors the code.)
pub const NO_PROGRESS_CHECK: bool = true;

/// rollbacks a single update() may perform before the harness calls it non-terminating
pub const ROLLBACK_BOUND: u32 = 4;

#[derive(Clone, Copy, Debug, PartialEq, Eq, Hash)]
pub struct Params {
  pub interval: u32,
  pub max_savepoints: u32,
  pub commit_interval: u32,
}

#[derive(Clone, Debug, PartialEq, Eq, Hash)]
pub struct Savepoint {
  pub chain: Vec<u32>,
  pub last: u64,
}

#[derive(Clone, Debug, PartialEq, Eq, Hash)]
pub struct MState {
  /// node chain as block ids, node[0] = genesis (id 0)
  pub node: Vec<u32>,
  /// committed index chain
  pub idx: Vec<u32>,
  /// persistent savepoints, oldest first
  pub saves: Vec<Savepoint>,
  pub last: u64,
  pub flagged: bool,
  pub next_id: u32,
}

#[derive(Clone, Copy, Debug, PartialEq, Eq, Hash)]
pub enum Event {
  Mine(u32),
  /// invalidate `k` tip blocks and mine `k + extra` new ones (a best-chain switch)
  Reorg(u32, u32),
  Update,
}

#[derive(Clone, Copy, Debug, PartialEq, Eq)]
pub enum Outcome {
  Ok,
  Unrecoverable,
  /// more than ROLLBACK_BOUND rollbacks in one update()
  NonTerminating,
}

#[derive(Clone, Debug, PartialEq, Eq)]
pub struct UpdateResult {
  pub outcome: Outcome,
  pub rollbacks: u32,
  /// (height at detection, depth found, height of the oldest savepoint) for every recoverable detection
  pub detections: Vec<(u32, u32, u32)>,
}

impl MState {
  pub fn initial() -> Self {
    Self {
      node: vec![0],
      idx: vec![],
      saves: vec![],
      last: 0,
      flagged: false,
      next_id: 1,
    }
  }

  fn need_sp(&self, p: &Params, x: u64) -> bool {
    // near-tip clause is always true on the implementation side (mockcore headers = 0)
    x < u64::from(p.interval) || x.saturating_sub(self.last) >= u64::from(p.interval)
  }

  fn maintain_sp(&mut self, p: &Params, x: u64) {
    if self.need_sp(p, x) {
      if self.saves.len() as u32 >= p.max_savepoints {
        self.saves.remove(0);
      }
      self.saves.push(Savepoint {
        chain: self.idx.clone(),
        last: self.last,
      });
      self.last = x;
    }
  }

  pub fn apply(&mut self, p: &Params, ev: Event) -> Option<UpdateResult> {
    match ev {
      Event::Mine(n) => {
        for _ in 0..n {
          self.node.push(self.next_id);
          self.next_id += 1;
        }
        None
      }
      Event::Reorg(k, extra) => {
        let keep = self.node.len() - k as usize;
        self.node.truncate(keep);
        for _ in 0..k + extra {
          self.node.push(self.next_id);
          self.next_id += 1;
        }
        None
      }
      Event::Update => Some(self.update(p)),
    }
  }

  pub fn enabled(&self, ev: Event, max_len: usize) -> bool {
    match ev {
      Event::Mine(n) => self.node.len() + n as usize <= max_len,
      Event::Reorg(k, extra) => (k as usize) < self.node.len() && self.node.len() + extra as usize <= max_len,
      Event::Update => true,
    }
  }

  fn update(&mut self, p: &Params) -> UpdateResult {
    let mut rollbacks = 0;
    let mut detections = Vec::new();
    'retry: loop {
      let mut h = self.idx.len();
      let mut pending: Vec<u32> = Vec::new();
      let mut uncommitted = 0u32;
      while h < self.node.len() {
        // detect_reorg reads only committed state
        if h > 0 && h - 1 < self.idx.len() && self.idx[h - 1] != self.node[h - 1] {
          let hh = h as u32;
          let maxd = (p.max_savepoints - 1) * p.interval + hh % p.interval;
          let mut found = None;
          for d in 1..maxd {
            let index_hash = if d as usize <= h { self.idx.get(h - d as usize) } else { self.idx.last() };
            let node_hash = self.node.get(h.saturating_sub(d as usize));
            if index_hash == node_hash {
              found = Some(d);
              break;
            }
          }
          match found {
            None => {
              self.flagged = true;
              return UpdateResult { outcome: Outcome::Unrecoverable, rollbacks, detections };
            }
            Some(d) => {
              let before = self.idx.len();
              let sp = self.saves[0].clone();
              detections.push((hh, d, sp.chain.len() as u32));
              if rollbacks >= ROLLBACK_BOUND {
                return UpdateResult { outcome: Outcome::NonTerminating, rollbacks, detections };
              }
              rollbacks += 1;
              self.idx = sp.chain.clone();
              self.last = sp.last;
              self.saves = vec![sp];
              if NO_PROGRESS_CHECK && self.idx.len() >= before {
                self.flagged = true;
                return UpdateResult { outcome: Outcome::Unrecoverable, rollbacks, detections };
              }
              continue 'retry;
            }
          }
        }
        pending.push(self.node[h]);
        h += 1;
        uncommitted += 1;
        if uncommitted == p.commit_interval || self.need_sp(p, h as u64) {
          self.idx.append(&mut pending);
          uncommitted = 0;
          self.maintain_sp(p, h as u64);
        }
      }
      if uncommitted > 0 {
        self.idx.append(&mut pending);
        let x = self.idx.len() as u64;
        self.maintain_sp(p, x);
      }
      return UpdateResult { outcome: Outcome::Ok, rollbacks, detections };
    }
  }

  /// Canonical form: block ids renamed in order of first appearance.
  pub fn canonical(&self) -> MState {
    let mut map: HashMap<u32, u32> = HashMap::new();
    let mut next = 0u32;
    let mut rn = |v: &Vec<u32>, map: &mut HashMap<u32, u32>| -> Vec<u32> {
      v.iter()
        .map(|id| {
          *map.entry(*id).or_insert_with(|| {
            let n = next;
            next += 1;
            n
          })
        })
        .collect()
    };
    let node = rn(&self.node, &mut map);
    let idx = rn(&self.idx, &mut map);
    let saves = self.saves.iter().map(|s| Savepoint { chain: rn(&s.chain, &mut map), last: s.last }).collect();
    MState { node, idx, saves, last: self.last, flagged: self.flagged, next_id: 0 }
  }
}

pub fn alphabet(p: &Params) -> Vec<Event> {
  let mut v = vec![Event::Update, Event::Mine(1), Event::Mine(p.interval), Event::Mine(2 * p.interval + 2)];
  if p.interval > 2 {
    v.push(Event::Mine(2));
  }
  for k in 1..=p.max_savepoints * p.interval + 1 {
    v.push(Event::Reorg(k, 1));
  }
  v.push(Event::Reorg(1, 2));
  v
}

pub struct Explored {
  /// canonical state -> (shortest path of events reaching it)
  pub paths: Vec<(MState, Vec<Event>)>,
  pub transitions: u64,
  /// (path, event) for every explored transition
  pub edges: Vec<(usize, Event)>,
  pub violations: Vec<(String, String, Vec<Event>)>,
  pub outcomes: BTreeMap<String, u64>,
}

/// Model invariants checked on every Update transition.
fn check_update(before: &MState, after: &MState, r: &UpdateResult, path: &[Event], out: &mut Vec<(String, String, Vec<Event>)>) {
  let longer = before.node.len() > before.idx.len();
  match r.outcome {
    Outcome::NonTerminating => {
      let (h, d, sp) = r.detections.last().cloned().unwrap_or((0, 0, 0));
      out.push((
        "model/nontermination/oldest-savepoint-above-fork".into(),
        format!("update() keeps rolling back: reorg of depth {d} detected at height {h} is classified recoverable but the oldest savepoint (height {sp}) still contains abandoned blocks"),
        path.to_vec(),
      ));
    }
    Outcome::Ok => {
      let _ = longer;
      if after.idx != after.node {
        out.push(("model/stale-block-kept".into(), format!("update() returned Ok but the index chain {:?} is not the node chain {:?}", after.idx, after.node), path.to_vec()));
      }
    }
    Outcome::Unrecoverable => {
      if !after.flagged {
        out.push(("model/unrecoverable-not-flagged".into(), "unrecoverable reorg without the status flag".into(), path.to_vec()));
      }
    }
  }
}

pub fn explore(p: &Params, depth: usize, max_len: usize, state_cap: usize) -> Explored {
  let alpha = alphabet(p);
  let mut seen: HashMap<MState, usize> = HashMap::new();
  let mut ex = Explored { paths: Vec::new(), transitions: 0, edges: Vec::new(), violations: Vec::new(), outcomes: BTreeMap::new() };
  let mut queue: VecDeque<(MState, Vec<Event>)> = VecDeque::new();
  let init = MState::initial();
  seen.insert(init.canonical(), 0);
  ex.paths.push((init.clone(), vec![]));
  queue.push_back((init, vec![]));
  let mut reported: HashSet<String> = HashSet::new();
  while let Some((s, path)) = queue.pop_front() {
    let si = seen[&s.canonical()];
    if path.len() >= depth {
      continue;
    }
    for ev in &alpha {
      if !s.enabled(*ev, max_len) {
        continue;
      }
      // an Update when nothing changed since the last Update is a no-op: skip to keep the graph small
      if *ev == Event::Update && path.last() == Some(&Event::Update) {
        continue;
      }
      let mut t = s.clone();
      let r = t.apply(p, *ev);
      ex.transitions += 1;
      ex.edges.push((si, *ev));
      let mut npath = path.clone();
      npath.push(*ev);
      if let Some(r) = &r {
        let key = format!("{:?}/rollbacks{}", r.outcome, r.rollbacks.min(3));
        *ex.outcomes.entry(key).or_default() += 1;
        let mut v = Vec::new();
        check_update(&s, &t, r, &npath, &mut v);
        for (c, w, pth) in v {
          if reported.insert(c.clone()) {
            ex.violations.push((c, w, pth));
          }
        }
        if r.outcome == Outcome::NonTerminating {
          continue; // no successor state
        }
      }
      let c = t.canonical();
      if !seen.contains_key(&c) && seen.len() < state_cap {
        seen.insert(c, ex.paths.len());
        ex.paths.push((t.clone(), npath.clone()));
        queue.push_back((t, npath));
      }
    }
  }
  ex
}

// ---------------------------------------------------------------------------
// conformance on the real Index

pub struct Worker {
  pub world: World,
  pub scratch: Scratch,
}

impl Worker {
  pub fn new(id: usize) -> Self {
    Self {
      world: World::new(Network::Regtest),
      scratch: Scratch::new(&format!("reorg{id}")),
    }
  }
}

fn cfg_for(p: &Params) -> IndexCfg {
  IndexCfg {
    sats: false,
    addresses: false,
    transactions: false,
    runes: false,
    commit_interval: Some(p.commit_interval as usize),
    savepoint_interval: Some(p.interval as usize),
    max_savepoints: Some(p.max_savepoints as usize),
    ..IndexCfg::all()
  }
}

fn mine(world: &mut World, n: u32) {
  for _ in 0..n {
    let h = world.height() + 1;
    let salt = world.salt;
    world.push_block(vec![txkit::coinbase(h, salt, vec![txkit::txout(crate::refmodel::sats::subsidy(h), Spk::A.script())])]);
  }
}

#[derive(Debug)]
pub struct Mismatch {
  pub class: String,
  pub what: String,
}

/// Replays `trace` on the real Index in lock-step with the model. Returns the
/// first disagreement / oracle failure, plus the number of updates executed.
pub fn replay(w: &mut Worker, p: &Params, trace: &[Event], compare_scratch: bool) -> (Option<Mismatch>, u64) {
  let cfg = cfg_for(p);
  w.world.reset();
  let dir = w.scratch.sub("idx");
  let index = match idx::open(&w.world, &dir, &cfg) {
    Ok(i) => i,
    Err(e) => return (Some(Mismatch { class: "impl/open-error".into(), what: format!("{e:#}") }), 0),
  };
  let mut model = MState::initial();
  // block id -> real hash
  let mut hash_of: HashMap<u32, BlockHash> = HashMap::new();
  hash_of.insert(0, w.world.blocks[0].block_hash());
  let mut updates = 0;
  let mut last_ok_after_rollback = false;
  // Set when the implementation's internal bookkeeping (savepoint count, LastSavepointHeight, number of
  // rollbacks) departs from the model while everything the property speaks about still agrees: from then on
  // the model's predictions are not used for this trace, only the direct oracles of the property.
  let mut model_free: Option<String> = None;
  let mut last_impl_ok = false;
  let mut last_impl_flagged = false;
  for (step, ev) in trace.iter().enumerate() {
    let before_len = model.node.len();
    let before_next = model.next_id;
    let mres = model.apply(p, *ev);
    match ev {
      Event::Mine(n) => mine(&mut w.world, *n),
      Event::Reorg(k, extra) => {
        for _ in 0..*k {
          w.world.pop_block();
        }
        w.world.salt += 1;
        mine(&mut w.world, k + extra);
      }
      Event::Update => {}
    }
    if !matches!(ev, Event::Update) {
      // record hashes of newly mined ids
      let _ = before_len;
      let new_ids: Vec<u32> = (before_next..model.next_id).collect();
      let n = new_ids.len();
      let start = w.world.blocks.len() - n;
      for (i, id) in new_ids.iter().enumerate() {
        hash_of.insert(*id, w.world.blocks[start + i].block_hash());
      }
      continue;
    }
    let mres = mres.unwrap();
    knobs::set_rollback_budget(Some(ROLLBACK_BOUND));
    let res = util::catch(|| util::watched(|| index.update()));
    let used = ROLLBACK_BOUND - knobs::rollback_budget().unwrap_or(0);
    knobs::set_rollback_budget(None);
    updates += 1;
    let got = match &res {
      Err(p) => return (Some(Mismatch { class: "impl/update-panic".into(), what: format!("step {step}: update() panicked: {p}") }), updates),
      Ok(Ok(())) => Outcome::Ok,
      Ok(Err(e)) => {
        let s = format!("{e:#}");
        if s.contains("rollback budget exhausted") {
          Outcome::NonTerminating
        } else if s.contains("unrecoverable reorg") {
          Outcome::Unrecoverable
        } else {
          return (Some(Mismatch { class: "impl/update-error".into(), what: format!("step {step}: update() failed: {s}") }), updates);
        }
      }
    };
    // ---- direct oracles of the property on the implementation ----
    let flagged = index.status(false).map(|s| s.unrecoverably_reorged).unwrap_or(false);
    let height = index.block_count().unwrap_or(0) as usize;
    let mut idx_hashes = Vec::new();
    for h in 0..height {
      idx_hashes.push(index.block_hash(Some(h as u32)).ok().flatten());
    }
    let node_hashes: Vec<BlockHash> = w.world.blocks.iter().map(|b| b.block_hash()).collect();
    match got {
      Outcome::NonTerminating => {
        let (h, d, sp) = mres.detections.last().cloned().unwrap_or((0, 0, 0));
        return (
          Some(Mismatch {
            class: "nontermination/oldest-savepoint-above-fork".into(),
            what: format!(
              "step {step}: Index::update() does not terminate (more than {ROLLBACK_BOUND} rollbacks): savepoint interval {} max {}: index height {h}, reorg depth {d}, oldest savepoint at height {sp}",
              p.interval, p.max_savepoints
            ),
          }),
          updates,
        );
      }
      Outcome::Ok => {
        // the node's chain is never shorter than the index in this event alphabet, so after a
        // successful update the index must be exactly the node's chain
        let stale = idx_hashes.iter().enumerate().any(|(h, x)| node_hashes.get(h) != x.as_ref());
        if stale {
          return (
            Some(Mismatch {
              class: "stale-block-kept-silently".into(),
              what: format!("step {step}: update() returned Ok but the index holds blocks that are not on the node's best chain (index height {height}, node height {})", node_hashes.len()),
            }),
            updates,
          );
        }
        if height != node_hashes.len() {
          return (
            Some(Mismatch { class: "not-caught-up".into(), what: format!("step {step}: update() returned Ok at index height {height} but the node has {} blocks", node_hashes.len()) }),
            updates,
          );
        }
        last_ok_after_rollback = used > 0;
      }
      Outcome::Unrecoverable => {
        if !flagged {
          return (Some(Mismatch { class: "unrecoverable-not-flagged".into(), what: format!("step {step}: update() reported an unrecoverable reorg but the status flag is not set") }), updates);
        }
      }
    }
    last_impl_ok = got == Outcome::Ok;
    last_impl_flagged = flagged;
    if model_free.is_some() {
      continue;
    }
    // ---- conformance with the model ----
    let mut diffs = Vec::new();
    let mut internal = Vec::new();
    if got != mres.outcome {
      diffs.push(format!("outcome impl {got:?} model {:?}", mres.outcome));
    }
    if used != mres.rollbacks {
      internal.push(format!("rollbacks impl {used} model {}", mres.rollbacks));
    }
    if height != model.idx.len() {
      diffs.push(format!("index height impl {height} model {}", model.idx.len()));
    } else {
      for (h, id) in model.idx.iter().enumerate() {
        if idx_hashes[h] != hash_of.get(id).cloned() {
          diffs.push(format!("block hash at height {h} differs from the model's block {id}"));
          break;
        }
      }
    }
    if flagged != model.flagged {
      diffs.push(format!("unrecoverably_reorged impl {flagged} model {}", model.flagged));
    }
    match Dump::take(&index) {
      Ok(d) => {
        if d.savepoints.len() != model.saves.len() {
          internal.push(format!("persistent savepoints impl {} model {}", d.savepoints.len(), model.saves.len()));
        }
        let last = d.statistic(idx::STAT_LAST_SAVEPOINT_HEIGHT);
        if last != model.last {
          internal.push(format!("LastSavepointHeight impl {last} model {}", model.last));
        }
      }
      Err(e) => diffs.push(format!("dump failed: {e:#}")),
    }
    if !diffs.is_empty() {
      diffs.extend(internal);
      return (Some(Mismatch { class: "conformance/model-and-implementation-disagree".into(), what: format!("step {step} ({ev:?}): {}", diffs.join("; ")) }), updates);
    }
    if !internal.is_empty() {
      model_free = Some(format!("step {step} ({ev:?}): {}", internal.join("; ")));
    }
  }
  // after a recovered reorg (or at the end of any trace whose last update was Ok): content equals a from-scratch index
  let in_sync_and_caught_up = if model_free.is_some() { last_impl_ok && !last_impl_flagged } else { !model.flagged && model.idx == model.node };
  if compare_scratch && matches!(trace.last(), Some(Event::Update)) && in_sync_and_caught_up {
    let a = match Dump::take(&index) {
      Ok(d) => d.content(),
      Err(e) => return (Some(Mismatch { class: "impl/dump-error".into(), what: format!("{e:#}") }), updates),
    };
    drop(index);
    let dir2 = w.scratch.sub("scratch");
    let fresh = match idx::open(&w.world, &dir2, &cfg) {
      Ok(i) => i,
      Err(e) => return (Some(Mismatch { class: "impl/open-error".into(), what: format!("{e:#}") }), updates),
    };
    if let Err(e) = fresh.update() {
      return (Some(Mismatch { class: "impl/update-error".into(), what: format!("from-scratch index: {e:#}") }), updates);
    }
    updates += 1;
    let b = Dump::take(&fresh).map(|d| d.content()).unwrap_or_default();
    if a != b {
      return (
        Some(Mismatch {
          class: if last_ok_after_rollback { "content-differs-from-scratch/after-rollback".into() } else { "content-differs-from-scratch".into() },
          what: format!("after the trace the index differs from an index built from scratch on the node's chain: {}", diff_tables(&b, &a)),
        }),
        updates,
      );
    }
  }
  if let Some(what) = model_free {
    // every oracle of the property held on the implementation, but the abstract machine no longer describes
    // its bookkeeping: no verdict from the model for this trace (reported as a machinery condition)
    return (Some(Mismatch { class: "machinery/model-out-of-date/internal-bookkeeping".into(), what: format!("{what}; all direct oracles of the property held for the rest of the trace") }), updates);
  }
  (None, updates)
}

pub fn fmt_trace(t: &[Event]) -> Vec<String> {
  t.iter().map(|e| format!("{e:?}")).collect()
}

fn parse_event(s: &str) -> Event {
  if s == "Update" {
    return Event::Update;
  }
  let inner: Vec<u32> = s[s.find('(').unwrap() + 1..s.len() - 1].split(',').map(|x| x.trim().parse().unwrap()).collect();
  if s.starts_with("Mine") { Event::Mine(inner[0]) } else { Event::Reorg(inner[0], inner[1]) }
}

pub fn run(ctx: &Ctx) -> Report {
  let mut report = Report::new("C14", &ctx.tier, "model_checking");

  if let Some(path) = &ctx.replay {
    let v: Value = serde_json::from_str(&std::fs::read_to_string(path).expect("read replay")).expect("json");
    let r = &v["replay"];
    let p = Params {
      interval: r["interval"].as_u64().unwrap() as u32,
      max_savepoints: r["max_savepoints"].as_u64().unwrap() as u32,
      commit_interval: r["commit_interval"].as_u64().unwrap_or(5000) as u32,
    };
    let trace: Vec<Event> = r["trace"].as_array().unwrap().iter().map(|x| parse_event(x.as_str().unwrap())).collect();
    let mut w = Worker::new(0);
    let (m, _) = replay(&mut w, &p, &trace, true);
    match m {
      None => println!("replay: model and implementation agree, all oracles hold"),
      Some(m) => {
        println!("replay: {}: {}", m.class, m.what);
        report.violation(m.class, m.what, r.clone());
      }
    }
    report.set("states", 1u64);
    report.set("transitions", trace.len() as u64);
    report.set("traces_validated_against_impl", 1u64);
    report.sample(json!(fmt_trace(&trace)));
    return report;
  }

  // (params, model depth, conformance depth)
  let plan: Vec<(Params, usize, usize)> = if ctx.thorough() {
    vec![
      (Params { interval: 1, max_savepoints: 1, commit_interval: 5000 }, 8, 6),
      (Params { interval: 1, max_savepoints: 2, commit_interval: 5000 }, 8, 6),
      (Params { interval: 2, max_savepoints: 2, commit_interval: 5000 }, 8, 7),
      (Params { interval: 2, max_savepoints: 2, commit_interval: 1 }, 7, 6),
      (Params { interval: 3, max_savepoints: 2, commit_interval: 5000 }, 7, 6),
      (Params { interval: 2, max_savepoints: 3, commit_interval: 5000 }, 7, 5),
      (Params { interval: 3, max_savepoints: 3, commit_interval: 2 }, 7, 5),
      (Params { interval: 4, max_savepoints: 2, commit_interval: 5000 }, 7, 6),
      (Params { interval: 4, max_savepoints: 2, commit_interval: 3 }, 7, 5),
      (Params { interval: 5, max_savepoints: 2, commit_interval: 5000 }, 7, 5),
      (Params { interval: 10, max_savepoints: 2, commit_interval: 5000 }, 7, 5),
    ]
  } else {
    vec![
      (Params { interval: 2, max_savepoints: 2, commit_interval: 5000 }, 7, 6),
      (Params { interval: 4, max_savepoints: 2, commit_interval: 5000 }, 7, 5),
      (Params { interval: 3, max_savepoints: 2, commit_interval: 2 }, 6, 5),
      (Params { interval: 10, max_savepoints: 2, commit_interval: 5000 }, 6, 4),
    ]
  };
  let budget = Budget::new(if ctx.thorough() { 3000 } else { 50 });
  let mut states = 0u64;
  let mut transitions = 0u64;
  let mut validated = 0u64;
  let mut impl_updates = 0u64;
  let mut capped = false;
  let mut outcomes: BTreeMap<String, u64> = BTreeMap::new();
  let mut per_params = Vec::new();
  let mut seen_classes: BTreeSet<String> = BTreeSet::new();
  for (p, mdepth, cdepth) in &plan {
    let max_len = (3 * p.interval * p.max_savepoints + 6) as usize;
    let ex = explore(p, *mdepth, max_len, 400_000);
    states += ex.paths.len() as u64;
    transitions += ex.transitions;
    for (k, v) in &ex.outcomes {
      *outcomes.entry(k.clone()).or_default() += v;
    }
    // model-level counterexamples are replayed on the implementation before anything is reported
    let mut w0 = Worker::new(900);
    for (class, what, trace) in &ex.violations {
      let (m, u) = replay(&mut w0, p, trace, true);
      impl_updates += u;
      validated += 1;
      match m {
        Some(m) if !m.class.starts_with("conformance/") => {
          if seen_classes.insert(format!("{}|{:?}", m.class, p)) {
            report.violation(
              m.class.clone(),
              format!("{} [model counterexample {class}: {what}] trace {:?}", m.what, fmt_trace(trace)),
              json!({"interval": p.interval, "max_savepoints": p.max_savepoints, "commit_interval": p.commit_interval, "trace": fmt_trace(trace)}),
            );
          }
        }
        Some(m) => {
          report.violation(
            m.class.clone(),
            format!("model counterexample {class} does not reproduce on the implementation: {}", m.what),
            json!({"interval": p.interval, "max_savepoints": p.max_savepoints, "commit_interval": p.commit_interval, "trace": fmt_trace(trace)}),
          );
        }
        None => {
          report.violation(
            "machinery/model-counterexample-not-reproduced",
            format!("model counterexample {class} ({what}) passes on the implementation: the model misrepresents the code"),
            json!({"interval": p.interval, "max_savepoints": p.max_savepoints, "commit_interval": p.commit_interval, "trace": fmt_trace(trace)}),
          );
        }
      }
    }
    drop(w0);
    // conformance: every explored transition whose path is short enough
    let traces: Vec<Vec<Event>> = ex
      .edges
      .iter()
      .filter_map(|(si, ev)| {
        let path = &ex.paths[*si].1;
        if path.len() + 1 > *cdepth || *ev != Event::Update {
          return None; // only traces ending in Update observe anything new
        }
        let mut t = path.clone();
        t.push(*ev);
        Some(t)
      })
      .collect();
    let (results, cap) = util::par_map(traces.len(), Some(budget), Worker::new, |w, i| replay(w, p, &traces[i], true));
    capped |= cap;
    let mut done = 0u64;
    for (i, r) in results.into_iter().enumerate() {
      let Some((m, u)) = r else { continue };
      done += 1;
      impl_updates += u;
      if let Some(m) = m
        && seen_classes.insert(format!("{}|{:?}", m.class, p))
      {
        report.violation(
          m.class.clone(),
          format!("{} trace {:?}", m.what, fmt_trace(&traces[i])),
          json!({"interval": p.interval, "max_savepoints": p.max_savepoints, "commit_interval": p.commit_interval, "trace": fmt_trace(&traces[i])}),
        );
      }
    }
    validated += done;
    per_params.push(json!({"interval": p.interval, "max_savepoints": p.max_savepoints, "commit_interval": p.commit_interval, "model_depth": mdepth, "model_states": ex.paths.len(), "model_transitions": ex.transitions,
      "conformance_depth": cdepth, "conformance_traces": traces.len(), "conformance_traces_replayed": done, "model_counterexamples": ex.violations.len()}));
    if let Some(t) = traces.get(traces.len() / 2) {
      report.sample(json!({"params": format!("{p:?}"), "trace": fmt_trace(t)}));
    }
  }
  report.set("states", states.max(1));
  report.set("transitions", transitions.max(1));
  report.set("traces_validated_against_impl", validated);
  report.set("implementation_updates_executed", impl_updates);
  report.set("distinct_nontrivial", states.max(2));
  report.set("evaluations", validated);
  report.set("exhaustive", !capped);
  report.set("capped", capped);
  report.set("update_outcomes_in_model", json!(outcomes));
  report.set("per_parameters", json!(per_params));
  report.set(
    "rule",
    "explicit-state BFS of the abstract savepoint/reorg machine (events Mine(n), Reorg(invalidate k, mine k+extra), Update) with block-id canonicalisation, \
     for each (savepoint interval, max savepoints, commit interval) up to the stated event depth; model invariants: termination (rollback bound), no stale block after Ok, \
     unrecoverable => flagged. Conformance: every explored Update transition whose path is within the conformance depth is replayed on the real Index (production mode, \
     rollback budget knob) and outcome, rollback count, index height, block hash per height, persistent savepoint count, LastSavepointHeight and the status flag must equal the \
     model's after every update; when the model says the chain is fully indexed the content dump must equal a from-scratch index. Model counterexamples are replayed on the \
     implementation before being reported.",
  );
  report.assume("mockcore reports headers=0: ord always believes it is near the tip, the far-from-tip branch of is_savepoint_required is not exercised on the implementation");
  report.assume("a best-chain switch is modelled as invalidating k blocks and mining at least k+1 (the new chain is strictly longer)");
  report
}
