//! C16: indexing a valid chain never fails.
//!
//! (a) every history (deviation-bounded) of the sat, inscription and rune suites
//!     under every combination of index options;
//! (b) adversarial batched blocks: every tapscript of <= 2 bytes and every
//!     opcode-alphabet sequence up to a length as script-path witnesses (with and
//!     without annex), every OP_RETURN OP_13 script with <= 2 trailing bytes and
//!     every varint sequence up to a length over boundary integers, as thousands
//!     of independent transactions.
//! Oracle: `Index::update` returns Ok and does not panic.

use {
  super::{Choices, Exec, RunSpec, fold_totals, inscriptions, run_histories, runes, runes::runestone_script, sats},
  crate::{
    Ctx,
    evidence::Report,
    idx::{self, IndexCfg},
    refmodel::sats::subsidy,
    txkit::{self, Spk},
    util::{self, Scratch},
    world::World,
  },
  bitcoin::{Network, OutPoint, ScriptBuf, Transaction, TxOut, Witness},
  serde_json::{Value, json},
  std::collections::BTreeSet,
};

pub fn config_set(full: bool) -> Vec<IndexCfg> {
  let mut v = Vec::new();
  if full {
    for m in 0..16u32 {
      v.push(IndexCfg { sats: m & 1 != 0, addresses: m & 2 != 0, transactions: m & 4 != 0, runes: m & 8 != 0, ..IndexCfg::all() });
    }
    v.push(IndexCfg { inscriptions: false, ..IndexCfg::all() });
    v.push(IndexCfg { inscriptions: false, sats: false, addresses: false, transactions: false, ..IndexCfg::all() });
    v.push(IndexCfg { inscriptions: false, sats: true, addresses: false, transactions: false, runes: false, ..IndexCfg::all() });
  } else {
    v.push(IndexCfg::all());
    v.push(IndexCfg { sats: false, addresses: false, transactions: false, runes: false, ..IndexCfg::all() });
    v.push(IndexCfg { sats: true, addresses: false, transactions: false, runes: false, ..IndexCfg::all() });
    v.push(IndexCfg { sats: false, addresses: true, transactions: false, runes: true, ..IndexCfg::all() });
    v.push(IndexCfg { inscriptions: false, ..IndexCfg::all() });
    v.push(IndexCfg { inscriptions: false, sats: false, addresses: false, transactions: false, ..IndexCfg::all() });
  }
  v
}

fn run_plain(
  e: &mut Exec,
  cfgs: &[IndexCfg],
  blocks: &[Vec<Transaction>],
  mut fresh: impl FnMut(&IndexCfg) -> Result<ord::Index, String>,
  mut push: impl FnMut(&[Transaction]),
  mut restore: impl FnMut(),
) {
  for cfg in cfgs {
    util::set_context(json!({"engine": "nofail", "cfg": cfg.label(), "history": e.rendered}).to_string());
    restore();
    let index = match fresh(cfg) {
      Ok(i) => i,
      Err(err) => {
        e.fail("C16", "open/error", format!("configuration {}: {err}", cfg.label()));
        continue;
      }
    };
    for txs in blocks {
      push(txs);
      match util::catch(|| util::watched(|| index.update())) {
        Ok(Ok(())) => {}
        Ok(Err(err)) => {
          e.fail("C16", "update/error", format!("configuration {}: Index::update returned an error on a valid chain: {err:#}", cfg.label()));
          break;
        }
        Err(p) => {
          e.fail("C16", "update/panic", format!("configuration {}: Index::update panicked on a valid chain: {p}", cfg.label()));
          break;
        }
      }
      e.blocks += 1;
    }
    // a few read queries must not panic either
    let q = util::catch(|| {
      let _ = index.status(false);
      let _ = index.block_count();
      let _ = index.runes();
    });
    if let Err(p) = q {
      e.fail("C16", "query/panic", format!("configuration {}: status/runes query panicked: {p}", cfg.label()));
    }
    e.states.push(format!("{}:{}", cfg.label(), e.blocks));
  }
}

// ---------------------------------------------------------------------------
// (b) adversarial batched blocks

const TOKENS: &[&[u8]] = &[
  &[0x00],                         // OP_FALSE
  &[0x63],                         // OP_IF
  &[0x03, b'o', b'r', b'd'],       // push "ord"
  &[0x01, 0x01],                   // push tag 1
  &[0x01, 0x02],                   // push tag 2 (pointer)
  &[0x01, 0x03],                   // push tag 3 (parent)
  &[0x01, 0x0b],                   // push tag 11 (delegate)
  &[0x01, 0x11],                   // push tag 17 (properties)
  &[0x01, 0x42],                   // push tag 66
  &[0x01, 0xff],                   // push 0xff
  &[0x51],                         // OP_1
  &[0x4f],                         // OP_1NEGATE
  &[0x68],                         // OP_ENDIF
  &[0x61],                         // OP_NOP
  &[0x4c],                         // truncated PUSHDATA1
  &[0x4d, 0x01],                   // truncated PUSHDATA2
  &[0x4e, 0x01, 0x00],             // truncated PUSHDATA4
  &[0x08, 0xff, 0xff, 0xff, 0xff, 0xff, 0xff, 0xff, 0xff], // 8-byte push (pointer u64::MAX)
];

fn sequences(n_tokens: usize, max_len: usize) -> Vec<Vec<usize>> {
  let mut out = vec![vec![]];
  let mut frontier = vec![vec![]];
  for _ in 0..max_len {
    let mut next = Vec::new();
    for s in &frontier {
      for t in 0..n_tokens {
        let mut v: Vec<usize> = s.clone();
        v.push(t);
        next.push(v);
      }
    }
    out.extend(next.iter().cloned());
    frontier = next;
  }
  out
}

pub struct Adversarial {
  pub blocks: Vec<Vec<Transaction>>,
  pub cases: u64,
  pub description: String,
}

pub fn adversarial(thorough: bool) -> Adversarial {
  // witnesses
  let mut scripts: Vec<Vec<u8>> = Vec::new();
  scripts.push(vec![]);
  for a in 0..=255u8 {
    scripts.push(vec![a]);
  }
  for a in 0..=255u8 {
    for b in 0..=255u8 {
      scripts.push(vec![a, b]);
    }
  }
  let seq_len = 4;
  // sequences always start inside an envelope header so that the parser is deep in its state machine
  for s in sequences(TOKENS.len(), seq_len) {
    let mut bytes = vec![0x00, 0x63, 0x03, b'o', b'r', b'd'];
    for t in &s {
      bytes.extend_from_slice(TOKENS[*t]);
    }
    scripts.push(bytes.clone());
    if s.len() <= 2 {
      // and the raw sequence without header
      let mut raw = Vec::new();
      for t in &s {
        raw.extend_from_slice(TOKENS[*t]);
      }
      scripts.push(raw);
    }
  }
  // property values: every 1-byte string and every 2-byte string starting on a CBOR major-type boundary,
  // plain and announced as brotli-compressed (tag 19 = "br"), inside an otherwise ordinary envelope
  let firsts: [u8; 22] = [0x00, 0x17, 0x18, 0x1f, 0x40, 0x5f, 0x60, 0x7f, 0x80, 0x81, 0x9f, 0xa0, 0xa1, 0xbf, 0xc0, 0xd8, 0xe0, 0xf4, 0xf6, 0xf9, 0xfb, 0xff];
  let mut values: Vec<Vec<u8>> = (0..=255u8).map(|a| vec![a]).collect();
  for a in firsts {
    for b in 0..=255u8 {
      values.push(vec![a, b]);
    }
  }
  for v in &values {
    for br in [false, true] {
      let mut bytes = vec![0x00, 0x63, 0x03, b'o', b'r', b'd', 0x01, 0x01, 0x09, b'i', b'm', b'a', b'g', b'e', b'/', b'p', b'n', b'g'];
      if br {
        bytes.extend_from_slice(&[0x01, 0x13, 0x02, b'b', b'r']);
      }
      bytes.extend_from_slice(&[0x01, 0x11]);
      bytes.push(v.len() as u8);
      bytes.extend_from_slice(v);
      bytes.extend_from_slice(&[0x00, 0x01, b'x', 0x68]);
      scripts.push(bytes);
    }
  }
  let n_witness = scripts.len();
  // runestone scripts
  let ints: Vec<u128> = vec![0, 1, 2, 3, 4, 6, 8, 10, 12, 20, 22, 23, 126, 127, (1 << 32) - 1, 1 << 32, u64::MAX as u128, (u64::MAX as u128) + 1, u128::MAX];
  let mut op_returns: Vec<ScriptBuf> = Vec::new();
  op_returns.push(ScriptBuf::from_bytes(vec![0x6a, 0x5d]));
  for a in 0..=255u8 {
    op_returns.push(ScriptBuf::from_bytes(vec![0x6a, 0x5d, a]));
  }
  for a in 0..=255u8 {
    for b in (0..=255u8).step_by(if thorough { 1 } else { 5 }) {
      op_returns.push(ScriptBuf::from_bytes(vec![0x6a, 0x5d, a, b]));
    }
  }
  let rs_len = if thorough { 4 } else { 3 };
  for s in sequences(ints.len(), rs_len) {
    let v: Vec<u128> = s.iter().map(|i| ints[*i]).collect();
    op_returns.push(runestone_script(&v));
  }
  let n_runestone = op_returns.len();

  // chain: coinbases, then fan-out transactions creating one 1000-sat output per case
  let total = n_witness * 2 + n_runestone;
  let per_fan = 20_000usize;
  let fans = total.div_ceil(per_fan);
  let mut blocks: Vec<Vec<Transaction>> = Vec::new();
  let cb = |h: u32, fees: u64| txkit::coinbase(h, 0, vec![txkit::txout(subsidy(h) + fees, Spk::A.script())]);
  for h in 1..=(fans as u32 + 1) {
    blocks.push(vec![cb(h, 0)]);
  }
  let mut funding: Vec<OutPoint> = Vec::new();
  let h = blocks.len() as u32 + 1;
  let mut fan_txs = Vec::new();
  for f in 0..fans {
    let n = per_fan.min(total - f * per_fan);
    let src = OutPoint { txid: blocks[f][0].compute_txid(), vout: 0 };
    let mut outs: Vec<TxOut> = (0..n).map(|_| txkit::txout(1000, Spk::B.script())).collect();
    outs.push(txkit::txout(5_000_000_000 - 1000 * n as u64, Spk::A.script()));
    let tx = txkit::tx(vec![txkit::txin(src, Witness::new())], outs);
    let txid = tx.compute_txid();
    for v in 0..n as u32 {
      funding.push(OutPoint { txid, vout: v });
    }
    fan_txs.push(tx);
  }
  // one fan-out per block keeps every block below the 4 MB consensus limit
  let _ = h;
  for tx in fan_txs {
    let h = blocks.len() as u32 + 1;
    blocks.push(vec![cb(h, 0), tx]);
  }
  // case transactions, 10k per block
  let mut case_txs: Vec<Transaction> = Vec::new();
  let mut fi = 0;
  for s in &scripts {
    for annex in [false, true] {
      let mut w = Witness::new();
      w.push(s);
      w.push([0xc0u8; 33]);
      if annex {
        w.push([0x50u8, 0x01]);
      }
      case_txs.push(txkit::tx(vec![txkit::txin(funding[fi], w)], vec![txkit::txout(1000, Spk::A.script())]));
      fi += 1;
    }
  }
  for s in &op_returns {
    case_txs.push(txkit::tx(
      vec![txkit::txin(funding[fi], Witness::new())],
      vec![txkit::txout(1000, Spk::A.script()), txkit::txout(0, s.clone())],
    ));
    fi += 1;
  }
  let cases = case_txs.len() as u64;
  for chunk in case_txs.chunks(8_000) {
    let h = blocks.len() as u32 + 1;
    let mut all = vec![cb(h, 0)];
    all.extend(chunk.iter().cloned());
    blocks.push(all);
  }
  Adversarial {
    blocks,
    cases,
    description: format!(
      "{n_witness} tapscripts (ALL byte strings of length <= 2, plus ALL sequences of <= {seq_len} tokens over an {}-token opcode alphabet after an envelope header, plus envelopes whose properties field (tag 17, plain and announced as brotli) holds every 1-byte value and every 2-byte value starting on a CBOR major-type boundary) x annex absent/present, \
       and {n_runestone} OP_RETURN scripts (OP_RETURN OP_13 followed by ALL byte strings of length <= 1, a grid of length 2, and ALL varint sequences of length <= {rs_len} over {} boundary integers): {cases} independent transactions",
      TOKENS.len(),
      ints.len()
    ),
  }
}

fn run_adversarial(a: &Adversarial, cfgs: &[IndexCfg], e: &mut Exec) {
  let mut world = World::new(Network::Regtest);
  let scratch = Scratch::new("adv");
  for cfg in cfgs {
    world.reset();
    let dir = scratch.sub("idx");
    let index = match idx::open(&world, &dir, cfg) {
      Ok(i) => i,
      Err(err) => {
        e.fail("C16", "open/error", format!("{err:#}"));
        continue;
      }
    };
    for (i, txs) in a.blocks.iter().enumerate() {
      if std::env::var("VCHECK_TRACE").is_ok() {
        eprintln!("adv cfg {} block {} txs {}", cfg.label(), i + 1, txs.len());
      }
      world.push_block(txs.clone());
      // update in batches of blocks to keep the run short, but always after a case block
      if txs.len() > 1 || i + 1 == a.blocks.len() {
        match util::catch(|| util::watched(|| index.update())) {
          Ok(Ok(())) => {}
          Ok(Err(err)) => {
            e.fail("C16", "update/error/adversarial-batch", format!("configuration {}: Index::update returned an error on block {} of the adversarial batch: {err:#}", cfg.label(), i + 1));
            break;
          }
          Err(p) => {
            e.fail("C16", "update/panic/adversarial-batch", format!("configuration {}: Index::update panicked on block {} of the adversarial batch: {p}", cfg.label(), i + 1));
            break;
          }
        }
        e.blocks += 1;
      }
    }
    let count = index.block_count().unwrap_or(0);
    e.states.push(format!("adv:{}:{count}", cfg.label()));
  }
}

pub fn run(ctx: &Ctx) -> Report {
  let property = "C16";
  let mut report = Report::new(property, &ctx.tier, "model_checking");
  let cfgs = config_set(ctx.thorough());
  let budget_total: u64 = if ctx.thorough() { 1200 } else { 50 };

  if let Some(path) = &ctx.replay {
    let v: Value = serde_json::from_str(&std::fs::read_to_string(path).expect("read replay")).expect("json");
    let r = &v["replay"];
    let mut e = Exec::default();
    if r["scenario"] == "adversarial" {
      let a = adversarial(r["thorough"].as_bool().unwrap_or(false));
      run_adversarial(&a, &config_set(true), &mut e);
    } else if let Some(tag) = r["scenario"].as_str() {
      let th = r["thorough"].as_bool().unwrap_or(false);
      let sc = if tag == "mint-matrix" { super::runes_batch::mint_matrix(th) } else { super::runes_batch::allocation_product(th) };
      e = super::runes_batch::run_scenario(&sc, &runes::cfg(), 0, tag);
    } else if let Some(name) = r["dense"].as_str() {
      e = match r["suite"].as_str().unwrap_or("") {
        "sats-dense" => exec_sats(&mut sats::Worker::new(0, 3), &config_set(true), &sats::dense_choices(sats::DENSE.iter().find(|(n, _)| *n == name).expect("dense").1)),
        "runes-dense" => {
          let spec = runes::DENSE.iter().find(|(n, _)| *n == name).expect("dense").1;
          exec_runes(&mut runes::Worker::new(0), &config_set(true), &runes::dense_layout(spec.len()), &runes::dense_choices(spec))
        }
        _ => {
          let spec = inscriptions::DENSE.iter().find(|(n, _)| *n == name).expect("dense").1;
          exec_insc(&mut inscriptions::Worker::new(0, "regtest", 10), &config_set(true), &inscriptions::dense_layout(spec.len()), &inscriptions::dense_choices(spec))
        }
      };
    } else {
      let choices: Choices = r["choices"].as_array().unwrap().iter().map(|x| x.as_u64().unwrap() as u8).collect();
      e = match r["suite"].as_str().unwrap_or("") {
        "sats" => exec_sats(&mut sats::Worker::new(0, choices.len() / 3), &config_set(true), &choices),
        "runes" => {
          let layout = runes::Layout { l: choices.len() / 3, slots: 2, templates: (0..runes::TEMPLATES.len()).collect(), shapes: runes::COINBASE_SHAPES.len() };
          exec_runes(&mut runes::Worker::new(0), &config_set(true), &layout, &choices)
        }
        _ => {
          let layout = inscriptions::Layout { l: choices.len() / 3, slots: 2, templates: (0..inscriptions::TEMPLATES.len()).collect(), shapes: inscriptions::COINBASE_SHAPES.len() };
          exec_insc(&mut inscriptions::Worker::new(0, "regtest", 10), &config_set(true), &layout, &choices)
        }
      };
    }
    for (p, c, what) in &e.violations {
      println!("  [{p}] {c}: {what}");
      if p == property {
        report.violation(c.clone(), what.clone(), r.clone());
      }
    }
    report.set("states", e.states.len().max(1) as u64);
    report.set("transitions", e.blocks.max(1));
    report.set("traces_validated_against_impl", 1u64);
    report.sample(json!("replay"));
    return report;
  }

  let mut all_states: BTreeSet<String> = BTreeSet::new();
  let mut traces = 0u64;
  let mut exhaustive = true;

  // (b) adversarial batch
  {
    let a = adversarial(ctx.thorough());
    let mut e = Exec::default();
    let adv_cfgs: Vec<IndexCfg> = if ctx.thorough() { cfgs.clone() } else { vec![cfgs[0].clone(), cfgs[3].clone()] };
    run_adversarial(&a, &adv_cfgs, &mut e);
    for (p, c, what) in &e.violations {
      if p == property {
        report.violation(c.clone(), what.clone(), json!({"scenario": "adversarial", "thorough": ctx.thorough()}));
      }
    }
    report.set("adversarial.cases", a.cases);
    report.set("adversarial.description", a.description.clone());
    report.set("adversarial.configurations", json!(adv_cfgs.iter().map(|c| c.label()).collect::<Vec<_>>()));
    report.add("evaluations", a.cases * adv_cfgs.len() as u64);
    report.add("transitions", e.blocks);
    all_states.extend(e.states.iter().cloned());
    traces += adv_cfgs.len() as u64;
    report.sample(json!({"adversarial": a.description}));
  }

  // (a) suites x configurations
  let k = if ctx.thorough() { 2 } else { 1 };
  let stages = ["sats", "inscriptions", "runes"];
  for suite in stages {
    let mut sub = Report::new(property, &ctx.tier, "model_checking");
    let totals = match suite {
      "sats" => {
        let l = 2;
        let layout = sats::Layout { l };
        let spec = RunSpec { property, suite, cfg_label: format!("{} configurations", cfgs.len()), alts: layout.alts(), k, k_min: 0, budget_secs: budget_total / 3 };
        run_histories(&spec, &mut sub, |id| sats::Worker::new(id, l), |w, c| exec_sats(w, &cfgs, c))
      }
      "inscriptions" => {
        let layout = inscriptions::Layout { l: 2, slots: 2, templates: (0..inscriptions::TEMPLATES.len()).collect(), shapes: inscriptions::COINBASE_SHAPES.len() };
        let spec = RunSpec { property, suite, cfg_label: format!("{} configurations", cfgs.len()), alts: layout.alts(), k, k_min: 0, budget_secs: budget_total / 3 };
        run_histories(&spec, &mut sub, |id| inscriptions::Worker::new(id, "regtest", 10), |w, c| exec_insc(w, &cfgs, &layout, c))
      }
      _ => {
        let layout = runes::Layout { l: 2, slots: 2, templates: (0..runes::TEMPLATES.len()).collect(), shapes: runes::COINBASE_SHAPES.len() };
        let spec = RunSpec { property, suite, cfg_label: format!("{} configurations", cfgs.len()), alts: layout.alts(), k, k_min: 0, budget_secs: budget_total / 3 };
        run_histories(&spec, &mut sub, runes::Worker::new, |w, c| exec_runes(w, &cfgs, &layout, c))
      }
    };
    for mut viol in sub.violations.drain(..) {
      viol.replay["suite"] = json!(suite);
      report.violations.push(viol);
    }
    for s in sub.samples.drain(..) {
      report.sample(s);
    }
    fold_totals(&mut report, suite, &totals, k);
    all_states.extend(totals.states.iter().cloned());
    traces += totals.executions;
    if totals.capped {
      exhaustive = false;
    }
  }
  // (c) the dense multi-deviation families of the three suites under every configuration
  {
    enum Job {
      Sats(usize),
      Insc(usize),
      Runes(usize),
    }
    let mut jobs: Vec<Job> = Vec::new();
    jobs.extend((0..sats::DENSE.len()).map(Job::Sats));
    jobs.extend((0..inscriptions::DENSE.len()).map(Job::Insc));
    jobs.extend((0..runes::DENSE.len()).map(Job::Runes));
    let (results, _) = util::par_map(
      jobs.len(),
      None,
      |id| id,
      |id, i| {
        util::catch(|| match jobs[i] {
          Job::Sats(d) => ("sats", sats::DENSE[d].0, exec_sats(&mut sats::Worker::new(700 + *id, 3), &cfgs, &sats::dense_choices(sats::DENSE[d].1))),
          Job::Insc(d) => {
            let spec = inscriptions::DENSE[d].1;
            ("inscriptions", inscriptions::DENSE[d].0, exec_insc(&mut inscriptions::Worker::new(700 + *id, "regtest", 10), &cfgs, &inscriptions::dense_layout(spec.len()), &inscriptions::dense_choices(spec)))
          }
          Job::Runes(d) => {
            let spec = runes::DENSE[d].1;
            ("runes", runes::DENSE[d].0, exec_runes(&mut runes::Worker::new(700 + *id), &cfgs, &runes::dense_layout(spec.len()), &runes::dense_choices(spec)))
          }
        })
      },
    );
    let mut n = 0u64;
    for r in results.into_iter().flatten() {
      match r {
        Ok((suite, name, e)) => {
          if e.disabled {
            report.violation("machinery/dense-disabled", format!("dense history {suite}/{name} cannot be built"), json!({}));
            continue;
          }
          n += 1;
          report.add("transitions", e.blocks);
          all_states.extend(e.states.iter().cloned());
          for (p, c, what) in &e.violations {
            if p == property {
              report.violation(format!("{c}/dense"), format!("[{suite}/{name}] {what}"), json!({"suite": format!("{suite}-dense"), "dense": name}));
            }
          }
        }
        Err(p) => report.violation("machinery/harness-panic", format!("dense family: {p}"), json!({})),
      }
    }
    traces += n;
    report.set("dense.executions", n);
  }
  // (d) the batched rune scenarios (mint matrix with terms at the ends of the integer range, allocation product)
  for (tag, sc) in [("mint-matrix", super::runes_batch::mint_matrix(ctx.thorough())), ("allocation-product", super::runes_batch::allocation_product(ctx.thorough()))] {
    let ex = super::runes_batch::run_scenario(&sc, &runes::cfg(), sc.blocks.len().saturating_sub(8), tag);
    for (p, c, what) in &ex.violations {
      if p == property {
        report.violation(format!("{c}/batched-{tag}"), what.clone(), json!({"scenario": tag, "thorough": ctx.thorough()}));
      }
    }
    report.add("evaluations", sc.decided_cases);
    report.add("transitions", ex.blocks);
    traces += 1;
  }
  report.set("configurations", json!(cfgs.iter().map(|c| c.label()).collect::<Vec<_>>()));
  report.set("states", all_states.len().max(1) as u64);
  report.set("traces_validated_against_impl", traces);
  let adv_cases = report.get("adversarial.cases");
  report.set("distinct_nontrivial", (adv_cases + traces).max(2));
  report.set("exhaustive", exhaustive);
  report.set(
    "rule",
    "(a) every history with <=K deviations of the sat, inscription and rune suites (2 blocks, full alphabets) is indexed under every listed combination of index options; \
     (c) the dense multi-deviation families of the three suites under every configuration; (d) the batched rune scenarios (mint matrix with terms values 0 .. u64::MAX / u128::MAX, allocation product); \
     (b) one adversarial batch of independent transactions covering every short tapscript / opcode sequence / runestone byte string / varint sequence (see adversarial.description). \
     Oracle: Index::update returns Ok and does not panic, status and rune queries do not panic. distinct_nontrivial = adversarial transactions (distinct by construction) + executed histories; states = distinct (configuration, blocks indexed) pairs",
  );
  report.assume("'valid' = the harness never double-spends, never creates value and keeps coinbase claims within subsidy + fees; scripts and witnesses are arbitrary (ord does not validate them)");
  report
}

fn exec_sats(w: &mut sats::Worker, cfgs: &[IndexCfg], choices: &Choices) -> Exec {
  let mut e = Exec::default();
  let l = choices.len() / (sats::SLOTS + 1);
  let prefix = w.prefix_blocks.clone();
  let Some((blocks, rendered)) = sats::build_history(&prefix, l, choices) else {
    e.disabled = true;
    return e;
  };
  e.rendered = rendered;
  let wp: *mut sats::Worker = w;
  // SAFETY: closures are invoked strictly sequentially
  run_plain(
    &mut e,
    cfgs,
    &blocks,
    |cfg| unsafe {
      let w = &mut *wp;
      let dir = w.fresh_dir(cfg).map_err(|e| format!("{e:#}"))?;
      idx::open(&w.world, &dir, cfg).map_err(|e| format!("{e:#}"))
    },
    |txs| unsafe { (*wp).world.push_block(txs.to_vec()); },
    || unsafe { (*wp).restore() },
  );
  e.outcome = format!("{} blocks", e.blocks);
  e
}

fn exec_insc(w: &mut inscriptions::Worker, cfgs: &[IndexCfg], layout: &inscriptions::Layout, choices: &Choices) -> Exec {
  let mut e = Exec::default();
  let Some((blocks, rendered)) = inscriptions::build_history(w, layout, choices, 0) else {
    e.disabled = true;
    return e;
  };
  e.rendered = rendered;
  let wp: *mut inscriptions::Worker = w;
  run_plain(
    &mut e,
    cfgs,
    &blocks,
    |cfg| unsafe {
      let w = &mut *wp;
      let dir = w.fresh_index_dir(cfg, "exec").map_err(|e| format!("{e:#}"))?;
      idx::open(&w.world, &dir, cfg).map_err(|e| format!("{e:#}"))
    },
    |txs| unsafe { (*wp).world.push_block(txs.to_vec()); },
    || unsafe { (*wp).restore_prefix() },
  );
  e.outcome = format!("{} blocks", e.blocks);
  e
}

fn exec_runes(w: &mut runes::Worker, cfgs: &[IndexCfg], layout: &runes::Layout, choices: &Choices) -> Exec {
  let mut e = Exec::default();
  let Some((blocks, rendered)) = runes::build_history(w, layout, choices) else {
    e.disabled = true;
    return e;
  };
  e.rendered = rendered;
  let wp: *mut runes::Worker = w;
  run_plain(
    &mut e,
    cfgs,
    &blocks,
    |cfg| unsafe {
      let w = &mut *wp;
      let dir = w.fresh_index_dir(cfg, "exec").map_err(|e| format!("{e:#}"))?;
      idx::open(&w.world, &dir, cfg).map_err(|e| format!("{e:#}"))
    },
    |txs| unsafe { (*wp).world.push_block(txs.to_vec()); },
    || unsafe { (*wp).restore_prefix() },
  );
  e.outcome = format!("{} blocks", e.blocks);
  e
}
