//! C37: index events replay to the indexed state.
//!
//! `EventFold` folds the emitted events in order, using only the events and the
//! spent-input lists of the transactions they name, and is compared with the
//! index after every block.

use {
  super::{Exec, inscriptions::Observed},
  bitcoin::{Block, OutPoint, Txid},
  ord::{Index, InscriptionId, index::event::Event},
  ordinals::RuneId,
  std::collections::{BTreeMap, BTreeSet},
  tokio::sync::mpsc::Receiver,
};

#[derive(Default)]
pub struct EventFold {
  pub locations: BTreeMap<u32, Option<(OutPoint, u64)>>,
  pub ids: BTreeMap<u32, InscriptionId>,
  pub charms_at_creation: BTreeMap<u32, u16>,
  pub parents: BTreeMap<u32, Vec<InscriptionId>>,
  pub etched: BTreeSet<RuneId>,
  pub mints: BTreeMap<RuneId, u128>,
  pub burned: BTreeMap<RuneId, u128>,
  pub balances: BTreeMap<OutPoint, BTreeMap<RuneId, u128>>,
  /// first observation of entry.charms for each sequence number (taken from the index
  /// right after the block that created it)
  pub first_seen_charms: BTreeMap<u32, u16>,
  pub events: u64,
  pub created_height: BTreeMap<u32, u32>,
  pub transferred_in_creation_block: BTreeSet<u32>,
  pub inconsistencies: Vec<(String, String)>,
}

pub fn drain(rx: &mut Receiver<Event>) -> Vec<Event> {
  let mut v = Vec::new();
  while let Ok(e) = rx.try_recv() {
    v.push(e);
  }
  v
}

impl EventFold {
  /// Folds the events emitted while indexing `block`.
  pub fn apply_block(&mut self, block: &Block, height: u32, events: Vec<Event>) {
    self.events += events.len() as u64;
    // rune transfers grouped by the transaction they name, in emission order
    let mut rune_transfers: BTreeMap<Txid, Vec<(OutPoint, RuneId, u128)>> = BTreeMap::new();
    for ev in events {
      match ev {
        Event::InscriptionCreated {
          block_height,
          charms,
          inscription_id,
          location,
          parent_inscription_ids,
          sequence_number,
        } => {
          if block_height != height {
            self.inconsistencies.push(("event/height".into(), format!("InscriptionCreated {inscription_id} reports height {block_height} while block {height} was indexed")));
          }
          if self.ids.insert(sequence_number, inscription_id).is_some() {
            self.inconsistencies.push(("event/created-twice".into(), format!("sequence number {sequence_number} created twice")));
          }
          self.locations.insert(sequence_number, location.map(|sp| (sp.outpoint, sp.offset)));
          self.charms_at_creation.insert(sequence_number, charms);
          self.created_height.insert(sequence_number, height);
          self.parents.insert(sequence_number, parent_inscription_ids);
        }
        Event::InscriptionTransferred {
          block_height,
          inscription_id,
          new_location,
          old_location,
          sequence_number,
        } => {
          if block_height != height {
            self.inconsistencies.push(("event/height".into(), format!("InscriptionTransferred {inscription_id} reports height {block_height} while block {height} was indexed")));
          }
          match self.locations.get(&sequence_number) {
            None => self.inconsistencies.push(("event/transfer-before-create".into(), format!("transfer of unknown sequence number {sequence_number}"))),
            Some(cur) => {
              if *cur != Some((old_location.outpoint, old_location.offset)) {
                self.inconsistencies.push((
                  "event/old-location-mismatch".into(),
                  format!("transfer of {inscription_id} names old location {old_location} but the replayed location is {cur:?}"),
                ));
              }
            }
          }
          if self.created_height.get(&sequence_number) == Some(&height) {
            self.transferred_in_creation_block.insert(sequence_number);
          }
          self.locations.insert(sequence_number, Some((new_location.outpoint, new_location.offset)));
        }
        Event::RuneEtched { rune_id, block_height, .. } => {
          if block_height != height {
            self.inconsistencies.push(("event/height".into(), format!("RuneEtched {rune_id} reports height {block_height} in block {height}")));
          }
          if !self.etched.insert(rune_id) {
            self.inconsistencies.push(("event/etched-twice".into(), format!("rune {rune_id} etched twice")));
          }
        }
        Event::RuneMinted { rune_id, .. } => {
          *self.mints.entry(rune_id).or_default() += 1;
        }
        Event::RuneBurned { rune_id, amount, .. } => {
          *self.burned.entry(rune_id).or_default() += amount;
        }
        Event::RuneTransferred { outpoint, rune_id, amount, txid, .. } => {
          rune_transfers.entry(txid).or_default().push((outpoint, rune_id, amount));
        }
      }
    }
    // balances: spent inputs leave, transferred events arrive, transaction by transaction
    for tx in &block.txdata {
      for input in &tx.input {
        self.balances.remove(&input.previous_output);
      }
      if let Some(list) = rune_transfers.remove(&tx.compute_txid()) {
        for (op, id, amount) in list {
          *self.balances.entry(op).or_default().entry(id).or_default() += amount;
        }
      }
    }
    for (txid, _) in rune_transfers {
      self.inconsistencies.push(("event/unknown-txid".into(), format!("RuneTransferred names transaction {txid} which is not in the indexed block")));
    }
  }

  /// Compares the fold with the indexed state.
  pub fn compare(&mut self, index: &Index, obs: &[Observed], e: &mut Exec) {
    for (class, what) in self.inconsistencies.drain(..) {
      e.fail("C37", class, what);
    }
    // inscriptions
    let unbound = ord::unbound_outpoint();
    if self.locations.len() != obs.len() {
      e.fail("C37", "replay/inscription-count", format!("events created {} inscriptions, the index holds {}", self.locations.len(), obs.len()));
    }
    for o in obs {
      self.first_seen_charms.entry(o.seq).or_insert(o.charms);
      match self.locations.get(&o.seq) {
        None => e.fail("C37", "replay/missing-created-event", format!("no InscriptionCreated event for {} (seq {})", o.id, o.seq)),
        Some(loc) => {
          let ok = match (loc, o.satpoint) {
            (None, Some((op, _))) => op == unbound,
            (Some(l), Some(sp)) => *l == sp,
            _ => false,
          };
          if !ok {
            let class = if loc.is_none() { "replay/location-mismatch/unbound" } else { "replay/location-mismatch" };
            e.fail("C37", class, format!("replayed location of {} is {loc:?}, the index says {:?}", o.id, o.satpoint));
          }
        }
      }
      if self.ids.get(&o.seq) != Some(&o.id) {
        e.fail("C37", "replay/id-mismatch", format!("events name seq {} as {:?}, the index as {}", o.seq, self.ids.get(&o.seq), o.id));
      }
      // an inscription moved again inside its creation block may have gained the burned charm
      // before the harness could observe the entry: ignore that bit in this one case
      let mask: u16 = if self.transferred_in_creation_block.contains(&o.seq) { !ordinals::Charm::Burned.flag() } else { !0 };
      if let (Some(c), Some(first)) = (self.charms_at_creation.get(&o.seq), self.first_seen_charms.get(&o.seq))
        && (c & mask) != (first & mask)
      {
        e.fail("C37", "replay/charms-at-creation", format!("InscriptionCreated for {} carries charms {c:#b}, the entry was created with {first:#b}", o.id));
      }
    }
    // runes
    let entries = index.runes().unwrap_or_default();
    let ids: BTreeSet<RuneId> = entries.iter().map(|(id, _)| *id).collect();
    if ids != self.etched {
      e.fail("C37", "replay/rune-set", format!("events etched {:?}, the index holds {:?}", self.etched, ids));
    }
    for (id, entry) in &entries {
      let m = self.mints.get(id).cloned().unwrap_or(0);
      if m != entry.mints {
        e.fail("C37", "replay/mint-count", format!("rune {id}: {m} RuneMinted events, entry.mints {}", entry.mints));
      }
      let b = self.burned.get(id).cloned().unwrap_or(0);
      if b != entry.burned {
        e.fail("C37", "replay/burned-total", format!("rune {id}: RuneBurned events total {b}, entry.burned {}", entry.burned));
      }
    }
    let got: BTreeMap<OutPoint, BTreeMap<RuneId, u128>> = index
      .get_rune_balances()
      .unwrap_or_default()
      .into_iter()
      .map(|(op, l)| (op, l.into_iter().collect()))
      .collect();
    let mut folded = self.balances.clone();
    folded.retain(|_, m| {
      m.retain(|_, a| *a > 0);
      !m.is_empty()
    });
    if got != folded {
      let detail = got
        .iter()
        .find(|(op, m)| folded.get(op) != Some(m))
        .map(|(op, m)| format!("{op}: index {m:?} replay {:?}", folded.get(op)))
        .or_else(|| folded.iter().find(|(op, _)| !got.contains_key(op)).map(|(op, m)| format!("{op}: index none, replay {m:?}")))
        .unwrap_or_default();
      e.fail("C37", "replay/rune-balances", format!("replayed output balances differ from the index: {detail}"));
    }
  }
}

pub fn run(ctx: &crate::Ctx) -> crate::evidence::Report {
  if let Some(path) = &ctx.replay {
    let v: serde_json::Value = serde_json::from_str(&std::fs::read_to_string(path).expect("read replay")).expect("json");
    let suite = v["replay"]["suite"].as_str().unwrap_or("");
    return if suite.starts_with("runes") || v["replay"]["scenario"].is_string() {
      super::runes::run_into(ctx, "C37", crate::evidence::Report::new("C37", &ctx.tier, "model_checking"))
    } else {
      super::inscriptions::run(ctx, "C37")
    };
  }
  let report = super::inscriptions::run(ctx, "C37");
  super::runes::run_into(ctx, "C37", report)
}
