//! E3 (C13): a crash at any point leaves a consistent index that resumes correctly.
//!
//! One uninterrupted run of a history (savepoint creation and deletion, a
//! reorg rollback, several commits per update) over a logging storage backend
//! yields the operation log o1..oM. For EVERY k: image_k = bytes after o1..ok
//! (process kill) and image'_k = bytes at the last sync at or before k (power
//! loss dropping the un-synced suffix). Each image is reopened with a fresh
//! `Index` (redb repair runs) against the node as it was at that step; the
//! recovered content must be that of some fully committed chain prefix, and
//! continuing to index must end in the content of the uninterrupted run.

use {
  super::sched,
  crate::{
    Ctx,
    evidence::Report,
    idx::{self, Dump, IndexCfg, RawTable, diff_tables},
    txkit::{self, Spk},
    util::{self, Budget, Scratch},
    world::World,
  },
  bitcoin::{BlockHash, Network, Transaction},
  redb::StorageBackend,
  serde_json::{Value, json},
  std::{
    collections::{BTreeMap, BTreeSet},
    io,
    path::Path,
    sync::{
      Arc, Mutex,
      atomic::{AtomicUsize, Ordering},
    },
  },
};

#[derive(Clone, Debug)]
pub enum Op {
  Write { offset: u64, data: Vec<u8> },
  SetLen(u64),
  Sync,
}

#[derive(Debug, Default)]
pub struct LogBackend {
  data: Mutex<Vec<u8>>,
  log: Mutex<Vec<(Op, usize)>>,
  step: AtomicUsize,
}

impl LogBackend {
  pub fn with_image(image: Vec<u8>) -> Self {
    Self {
      data: Mutex::new(image),
      log: Mutex::new(Vec::new()),
      step: AtomicUsize::new(0),
    }
  }
  pub fn set_step(&self, s: usize) {
    self.step.store(s, Ordering::SeqCst);
  }
  pub fn log_len(&self) -> usize {
    self.log.lock().unwrap().len()
  }
  pub fn take_log(&self) -> Vec<(Op, usize)> {
    self.log.lock().unwrap().clone()
  }
}

impl StorageBackend for LogBackend {
  fn len(&self) -> Result<u64, io::Error> {
    Ok(self.data.lock().unwrap().len() as u64)
  }
  fn read(&self, offset: u64, out: &mut [u8]) -> Result<(), io::Error> {
    let d = self.data.lock().unwrap();
    let o = offset as usize;
    if o + out.len() > d.len() {
      return Err(io::Error::from(io::ErrorKind::UnexpectedEof));
    }
    out.copy_from_slice(&d[o..o + out.len()]);
    Ok(())
  }
  fn set_len(&self, len: u64) -> Result<(), io::Error> {
    self.data.lock().unwrap().resize(len as usize, 0);
    self.log.lock().unwrap().push((Op::SetLen(len), self.step.load(Ordering::SeqCst)));
    Ok(())
  }
  fn sync_data(&self) -> Result<(), io::Error> {
    self.log.lock().unwrap().push((Op::Sync, self.step.load(Ordering::SeqCst)));
    Ok(())
  }
  fn write(&self, offset: u64, data: &[u8]) -> Result<(), io::Error> {
    let mut d = self.data.lock().unwrap();
    let o = offset as usize;
    if o + data.len() > d.len() {
      return Err(io::Error::from(io::ErrorKind::UnexpectedEof));
    }
    d[o..o + data.len()].copy_from_slice(data);
    drop(d);
    self.log.lock().unwrap().push((Op::Write { offset, data: data.to_vec() }, self.step.load(Ordering::SeqCst)));
    Ok(())
  }
}

fn apply(image: &mut Vec<u8>, op: &Op) {
  match op {
    Op::Write { offset, data } => {
      let o = *offset as usize;
      image[o..o + data.len()].copy_from_slice(data);
    }
    Op::SetLen(n) => image.resize(*n as usize, 0),
    Op::Sync => {}
  }
}

/// A crash history: node chain after each event; update() is called after each event.
pub struct CrashHistory {
  pub name: String,
  pub chains: Vec<Vec<Vec<Transaction>>>,
  pub salts: Vec<Vec<u32>>,
  pub description: Vec<String>,
}

fn cfg() -> IndexCfg {
  IndexCfg {
    commit_interval: Some(2),
    savepoint_interval: Some(3),
    max_savepoints: Some(2),
    ..IndexCfg::all()
  }
}

/// Builds the history from a dense chain of the schedule family: prefix in one event,
/// then block by block, a 1-block-deep reorg that mines two empty blocks, one more block.
pub fn history_from(h: &sched::History) -> CrashHistory {
  let n = h.blocks.len();
  let mut chains = Vec::new();
  let mut salts = Vec::new();
  let mut description = Vec::new();
  let pre = n - 3;
  chains.push(h.blocks[..pre].to_vec());
  salts.push(vec![0; pre]);
  description.push(format!("node has {pre} blocks (setup prefix)"));
  for i in pre..n {
    chains.push(h.blocks[..=i].to_vec());
    salts.push(vec![0; i + 1]);
    description.push(format!("block {} mined", i + 1));
  }
  // reorg: drop the last block, mine two empty blocks on a new branch
  let mut c = h.blocks[..n - 1].to_vec();
  let mut s = vec![0; n - 1];
  for j in 0..2 {
    let height = (c.len() + 1) as u32;
    c.push(vec![txkit::coinbase(height, 77 + j, vec![txkit::txout(crate::refmodel::sats::subsidy(height), Spk::B.script())])]);
    s.push(1);
  }
  chains.push(c.clone());
  salts.push(s.clone());
  description.push("reorg: tip invalidated, two empty blocks mined on a new branch".into());
  let height = (c.len() + 1) as u32;
  c.push(vec![txkit::coinbase(height, 99, vec![txkit::txout(crate::refmodel::sats::subsidy(height), Spk::A.script())])]);
  s.push(1);
  chains.push(c);
  salts.push(s);
  description.push("one more block".into());
  CrashHistory { name: h.name.clone(), chains, salts, description }
}

fn set_world(world: &mut World, chain: &[Vec<Transaction>], salts: &[u32]) {
  world.reset();
  for (b, s) in chain.iter().zip(salts) {
    world.salt = *s;
    world.push_block(b.clone());
  }
}

pub struct Baseline {
  pub log: Vec<(Op, usize)>,
  /// log length when the very first Index::open returned
  pub k0: usize,
  pub final_content: BTreeMap<String, RawTable>,
  /// content keyed by (height, tip hash) of every committed chain prefix
  pub committed: BTreeMap<(u32, Option<BlockHash>), BTreeMap<String, RawTable>>,
  pub commits_observed: usize,
}

/// The uninterrupted run over the logging backend plus the reference contents.
pub fn baseline(world: &mut World, scratch: &Scratch, h: &CrashHistory) -> Result<Baseline, String> {
  let cfg = cfg();
  // reference contents: index every prefix of every chain one block at a time on plain files
  let mut committed: BTreeMap<(u32, Option<BlockHash>), BTreeMap<String, RawTable>> = BTreeMap::new();
  let mut done_chains: BTreeSet<Vec<BlockHash>> = BTreeSet::new();
  for (chain, salts) in h.chains.iter().zip(&h.salts) {
    set_world(world, chain, salts);
    let hashes: Vec<BlockHash> = world.blocks.iter().map(|b| b.block_hash()).collect();
    if !done_chains.insert(hashes.clone()) {
      continue;
    }
    let full: Vec<bitcoin::Block> = world.blocks.clone();
    world.reset();
    let dir = scratch.sub("ref");
    let index = idx::open(world, &dir, &cfg).map_err(|e| format!("reference open: {e:#}"))?;
    util::watched(|| index.update()).map_err(|e| format!("reference update: {e:#}"))?;
    let c = Dump::take(&index).map_err(|e| format!("{e:#}"))?.content();
    committed.entry((1, Some(full[0].block_hash()))).or_insert(c);
    for (i, b) in full.iter().enumerate().skip(1) {
      world.salt = b.header.nonce;
      world.push_block(b.txdata.clone());
      util::watched(|| index.update()).map_err(|e| format!("reference update: {e:#}"))?;
      let key = ((i + 1) as u32, Some(b.block_hash()));
      if !committed.contains_key(&key) {
        committed.insert(key, Dump::take(&index).map_err(|e| format!("{e:#}"))?.content());
      }
    }
  }
  // the uninterrupted run
  let backend = Arc::new(LogBackend::default());
  let dir = scratch.sub("base");
  let path = cfg.index_path(&dir);
  ord::index::verif::storage::register(&path, backend.clone());
  world.reset();
  backend.set_step(0);
  let index = idx::open(world, &dir, &cfg).map_err(|e| format!("baseline open: {e:#}"))?;
  // content of the index before any block
  let c = Dump::take(&index).map_err(|e| format!("{e:#}"))?.content();
  committed.insert((0, None), c);
  let k0 = backend.log_len();
  let mut commits_observed = 0;
  for (s, (chain, salts)) in h.chains.iter().zip(&h.salts).enumerate() {
    set_world(world, chain, salts);
    backend.set_step(s);
    let before = Dump::take(&index).map(|d| d.statistic(idx::STAT_COMMITS)).unwrap_or(0);
    util::watched(|| index.update()).map_err(|e| format!("baseline update at step {s}: {e:#}"))?;
    let after = Dump::take(&index).map(|d| d.statistic(idx::STAT_COMMITS)).unwrap_or(0);
    commits_observed += (after - before) as usize;
  }
  let final_content = Dump::take(&index).map_err(|e| format!("{e:#}"))?.content();
  drop(index);
  ord::index::verif::storage::unregister(&path);
  Ok(Baseline { log: backend.take_log(), k0, final_content, committed, commits_observed })
}

pub struct CrashPoint {
  /// the image is the result of applying operations 1..=k
  pub k: usize,
  pub power_loss: bool,
  pub step: usize,
}

fn image_at(base: &Baseline, k: usize) -> Vec<u8> {
  let mut image = Vec::new();
  for (op, _) in &base.log[..k] {
    apply(&mut image, op);
  }
  image
}

/// Recovers from one image. Ok(state key) or Err((class, what)).
pub fn recover(world: &mut World, scratch: &Scratch, h: &CrashHistory, base: &Baseline, cp: &CrashPoint, tag: &str) -> Result<String, (String, String)> {
  let cfg = cfg();
  let kind = if cp.power_loss { "power-loss" } else { "kill" };
  let dir = scratch.sub(&format!("rec-{tag}"));
  let path = cfg.index_path(&dir);
  let backend = Arc::new(LogBackend::with_image(image_at(base, cp.k)));
  ord::index::verif::storage::register(&path, backend.clone());
  struct Guard<'a>(&'a Path);
  impl Drop for Guard<'_> {
    fn drop(&mut self) {
      ord::index::verif::storage::unregister(self.0);
    }
  }
  let _g = Guard(&path);
  set_world(world, &h.chains[cp.step], &h.salts[cp.step]);
  let index = match util::catch(|| idx::open(world, &dir, &cfg)) {
    Ok(Ok(i)) => i,
    Ok(Err(e)) => return Err((format!("reopen-fails/{kind}"), format!("crash point {} (step {}: {}): reopening the index fails: {e:#}", cp.k, cp.step, h.description[cp.step]))),
    Err(p) => return Err((format!("reopen-panics/{kind}"), format!("crash point {} (step {}): reopening the index panics: {p}", cp.k, cp.step))),
  };
  let height = index.block_count().unwrap_or(0);
  let tip = index.block_hash(None).ok().flatten();
  let content = Dump::take(&index).map_err(|e| ("dump-error".to_string(), format!("{e:#}")))?.content();
  match base.committed.get(&(height, tip)) {
    None => {
      return Err((
        format!("recovered-state-not-a-committed-height/{kind}"),
        format!("crash point {} (step {}: {}): recovered index has height {height} tip {tip:?} which is no prefix of any chain the node had", cp.k, cp.step, h.description[cp.step]),
      ));
    }
    Some(want) => {
      if *want != content {
        return Err((
          format!("recovered-content-inconsistent/{kind}"),
          format!(
            "crash point {} (step {}: {}): recovered index at height {height} differs from a cleanly built index of that height: {}",
            cp.k,
            cp.step,
            h.description[cp.step],
            diff_tables(want, &content)
          ),
        ));
      }
    }
  }
  // resume: the node as it was, then the remaining events
  for s in cp.step..h.chains.len() {
    set_world(world, &h.chains[s], &h.salts[s]);
    match util::catch(|| util::watched(|| index.update())) {
      Ok(Ok(())) => {}
      Ok(Err(e)) => return Err((format!("resume-fails/{kind}"), format!("crash point {} (step {}): update() after recovery fails at step {s}: {e:#}", cp.k, cp.step))),
      Err(p) => return Err((format!("resume-panics/{kind}"), format!("crash point {} (step {}): update() after recovery panics at step {s}: {p}", cp.k, cp.step))),
    }
  }
  let fin = Dump::take(&index).map_err(|e| ("dump-error".to_string(), format!("{e:#}")))?.content();
  if fin != base.final_content {
    return Err((
      format!("resumed-content-differs/{kind}"),
      format!(
        "crash point {} (step {}: {}): after recovery and continued indexing the content differs from the uninterrupted run: {}",
        cp.k,
        cp.step,
        h.description[cp.step],
        diff_tables(&base.final_content, &fin)
      ),
    ));
  }
  Ok(format!("{height}:{tip:?}"))
}

pub fn crash_points(base: &Baseline) -> Vec<CrashPoint> {
  let mut out = Vec::new();
  let mut synced_k = 0usize;
  let mut emitted_power: BTreeSet<usize> = BTreeSet::new();
  for (i, (op, step)) in base.log.iter().enumerate() {
    let k = i + 1;
    if matches!(op, Op::Sync) {
      synced_k = k;
    }
    if k < base.k0 {
      continue;
    }
    out.push(CrashPoint { k, power_loss: false, step: *step });
    if synced_k >= base.k0 && synced_k != k && emitted_power.insert(synced_k) {
      // power loss anywhere between this sync and the next one leaves the synced image
      out.push(CrashPoint { k: synced_k, power_loss: true, step: *step });
    }
  }
  out
}

pub fn run(ctx: &Ctx) -> Report {
  let mut report = Report::new("C13", &ctx.tier, "fault_enumeration");
  let names: Vec<&str> = if ctx.thorough() { vec!["insc-dense-4", "insc-dense-1", "rune-dense-1", "sats-dense-1", "insc-dense-2", "rune-dense-2"] } else { vec!["insc-dense-4"] };
  let budget = Budget::new(if ctx.thorough() { 3000 } else { 50 });
  let replay_k: Option<(String, usize, bool)> = ctx.replay.as_ref().map(|path| {
    let v: Value = serde_json::from_str(&std::fs::read_to_string(path).expect("read replay")).expect("json");
    let r = &v["replay"];
    (r["history"].as_str().unwrap().to_string(), r["k"].as_u64().unwrap() as usize, r["power_loss"].as_bool().unwrap())
  });
  let names: Vec<String> = match &replay_k {
    Some((n, _, _)) => vec![n.clone()],
    None => names.iter().map(|s| s.to_string()).collect(),
  };

  let mut evaluations = 0u64;
  let mut recovered_states: BTreeSet<String> = BTreeSet::new();
  let mut capped = false;
  let mut per_history = Vec::new();
  for name in &names {
    let sw = sched::Worker::new(700);
    let fam = sched::family(&sw, false);
    let Some(sh) = fam.iter().find(|h| &h.name == name) else {
      println!("MACHINERY: unknown history {name}");
      continue;
    };
    let h = history_from(sh);
    drop(sw);
    let mut world = World::new(Network::Regtest);
    let scratch = Scratch::new("crash-base");
    let base = match baseline(&mut world, &scratch, &h) {
      Ok(b) => b,
      Err(e) => {
        report.violation("baseline/uninterrupted-run-fails", format!("history {name}: {e}"), json!({"history": name}));
        continue;
      }
    };
    let mut points = crash_points(&base);
    if let Some((_, k, pl)) = &replay_k {
      points.retain(|p| p.k == *k && p.power_loss == *pl);
    }
    let steps_hit: BTreeSet<usize> = points.iter().map(|p| p.step).collect();
    let n_kill = points.iter().filter(|p| !p.power_loss).count();
    let n_power = points.len() - n_kill;
    let (results, cap) = util::par_map(
      points.len(),
      Some(budget),
      |id| (World::new(Network::Regtest), Scratch::new(&format!("crash{id}"))),
      |(w, sc), i| recover(w, sc, &h, &base, &points[i], "x"),
    );
    capped |= cap;
    let mut done = 0u64;
    for (i, r) in results.into_iter().enumerate() {
      let Some(r) = r else { continue };
      done += 1;
      match r {
        Ok(state) => {
          recovered_states.insert(format!("{name}:{state}"));
        }
        Err((class, what)) => {
          let p = &points[i];
          report.violation(class, format!("history {name}: {what}"), json!({"history": name, "k": p.k, "power_loss": p.power_loss, "step": p.step}));
        }
      }
    }
    evaluations += done;
    per_history.push(json!({
      "history": name, "events": h.description, "storage_operations": base.log.len(), "first_crash_point": base.k0,
      "kill_images": n_kill, "power_loss_images": n_power, "recoveries_done": done, "steps_with_crash_points": steps_hit.len(),
      "commits_in_uninterrupted_run": base.commits_observed, "committed_reference_states": base.committed.len(),
      "syncs": base.log.iter().filter(|(o, _)| matches!(o, Op::Sync)).count(),
    }));
    report.sample(json!({"history": name, "events": h.description, "blocks": sh.rendered, "example_crash_point": {"k": points.get(points.len() / 2).map(|p| p.k), "step": points.get(points.len() / 2).map(|p| p.step)}}));
  }
  report.set("evaluations", evaluations.max(1));
  report.set("distinct_nontrivial", (recovered_states.len() as u64).max(2));
  report.set("distinct_recovered_states", recovered_states.len() as u64);
  report.set("per_history", json!(per_history));
  report.set("exhaustive", !capped);
  report.set("capped", capped);
  report.set(
    "rule",
    "for each history (setup prefix in one update, then block by block, a reorg that invalidates the tip and mines two blocks, one more block; all indexes on, commit interval 2, \
     savepoint interval 3, max 2 savepoints so that savepoint creation, deletion and a rollback all occur) the storage operation log of the uninterrupted run is cut at EVERY \
     operation k after the first Index::open returned: image_k (kill) and the image of the last sync at or before k (power loss; one per sync interval). Each image is reopened, must equal \
     the cleanly built content of the chain prefix identified by its (height, tip hash), and continued indexing must reach the content of the uninterrupted run. \
     distinct_nontrivial = distinct (height, tip) states recovered",
  );
  report.assume("a crash during creation of the index file (before the first Index::open returns) is outside the indexing path and not enumerated");
  report.assume("arbitrary reordering of un-synced writes and torn sectors are not enumerated (they test redb's commit protocol); a kill leaves exactly the prefix of issued writes");
  report.assume("storage = in-memory backend behind redb::Builder::create_with_backend, reached through the guarded storage seam in Index::open_with_event_sender");
  report
}
