//! E1: deviation-bounded exhaustive exploration of block histories on the real
//! `Index::update`, through the node simulator, with lock-step reference
//! models and whole-index audits after every block.

pub mod configs;
pub mod crash;
pub mod events;
pub mod inscriptions;
pub mod nofail;
pub mod reorg;
pub mod runes;
pub mod runes_batch;
pub mod sats;
pub mod sched;

use {
  crate::{
    evidence::Report,
    util::{self, Budget},
  },
  serde_json::{Value, json},
  std::collections::{BTreeMap, BTreeSet},
};

/// A history is a vector of choices, one per position; 0 = default.
pub type Choices = Vec<u8>;

/// All choice vectors with at most `k` non-default entries, ordered by number of
/// deviations first (so the first counterexample has the fewest deviations),
/// then lexicographically.
pub fn enumerate(alts: &[usize], k: usize) -> Vec<Choices> {
  fn rec(alts: &[usize], left: usize, cur: &mut Vec<u8>, out: &mut Vec<Choices>) {
    let pos = cur.len();
    if pos == alts.len() {
      out.push(cur.clone());
      return;
    }
    cur.push(0);
    rec(alts, left, cur, out);
    cur.pop();
    if left > 0 {
      for a in 1..=alts[pos] {
        cur.push(a as u8);
        rec(alts, left - 1, cur, out);
        cur.pop();
      }
    }
  }
  let mut out = Vec::new();
  rec(alts, k, &mut Vec::new(), &mut out);
  out.sort_by_key(|v| v.iter().filter(|&&c| c != 0).count());
  out
}

/// Result of executing one history.
#[derive(Default, Clone)]
pub struct Exec {
  /// a template could not resolve its inputs: the history is not a member of the space
  pub disabled: bool,
  /// (property, class, what)
  pub violations: Vec<(String, String, String)>,
  /// blocks indexed by enumerated suffix (transitions)
  pub blocks: u64,
  /// content hash of the index after every enumerated block
  pub states: Vec<String>,
  /// coarse outcome class of the whole execution (vacuity detection)
  pub outcome: String,
  /// clause / feature hit counters
  pub features: BTreeMap<&'static str, u64>,
  /// rendered history (for samples and replays)
  pub rendered: Value,
}

impl Exec {
  pub fn fail(&mut self, property: &str, class: impl Into<String>, what: impl Into<String>) {
    self
      .violations
      .push((property.into(), class.into(), what.into()));
  }
  pub fn hit(&mut self, f: &'static str) {
    *self.features.entry(f).or_default() += 1;
  }
}

/// Aggregated over all executions of a run.
#[derive(Default)]
pub struct Totals {
  pub executions: u64,
  pub disabled: u64,
  pub blocks: u64,
  pub states: BTreeSet<String>,
  pub outcomes: BTreeMap<String, u64>,
  pub features: BTreeMap<&'static str, u64>,
  pub capped: bool,
  pub completed_k: usize,
  /// violation classes of OTHER properties seen in the same executions (information only)
  pub other: BTreeMap<String, u64>,
}

pub struct RunSpec<'a> {
  pub property: &'a str,
  pub suite: &'a str,
  pub cfg_label: String,
  pub alts: Vec<usize>,
  pub k: usize,
  /// smallest number of deviations explored by this run (lower ones were covered elsewhere)
  pub k_min: usize,
  pub budget_secs: u64,
}

/// Runs every history with ≤k deviations through `exec`, folding results into
/// `report` (violations filtered to `spec.property`) and returning totals.
pub fn run_histories<S>(
  spec: &RunSpec,
  report: &mut Report,
  init: impl Fn(usize) -> S + Sync,
  exec: impl Fn(&mut S, &Choices) -> Exec + Sync,
) -> Totals {
  let budget = Budget::new(spec.budget_secs);
  let mut totals = Totals::default();
  // iterate the bound: K = 0, 1, ..., k
  let mut done_upto: Option<usize> = None;
  for kk in spec.k_min..=spec.k {
    let all = enumerate(&spec.alts, kk);
    let vectors: Vec<Choices> = all
      .into_iter()
      .filter(|v| v.iter().filter(|&&c| c != 0).count() == kk)
      .collect();
    let (results, capped) = util::par_map(
      vectors.len(),
      Some(budget),
      &init,
      |s, i| util::catch(|| exec(s, &vectors[i])),
    );
    for (i, r) in results.into_iter().enumerate() {
      let Some(r) = r else { continue };
      match r {
        Err(p) => {
          // a panic outside the guarded ord calls is a harness failure
          report.violation(
            format!("{}/machinery-panic", spec.property),
            format!("harness panicked on history {:?}: {p}", vectors[i]),
            json!({"suite": spec.suite, "cfg": spec.cfg_label, "choices": vectors[i]}),
          );
          println!("MACHINERY: harness panic on history {:?}: {p}", vectors[i]);
        }
        Ok(e) => {
          if e.disabled {
            totals.disabled += 1;
            continue;
          }
          totals.executions += 1;
          totals.blocks += e.blocks;
          for s in &e.states {
            totals.states.insert(s.clone());
          }
          *totals.outcomes.entry(e.outcome.clone()).or_default() += 1;
          for (f, n) in &e.features {
            *totals.features.entry(f).or_default() += n;
          }
          if totals.executions % 97 == 1 {
            report.sample(json!({"choices": vectors[i], "history": e.rendered, "outcome": e.outcome}));
          }
          for (prop, class, what) in e.violations {
            // an update() that fails on a valid chain leaves the index behind the chain, so
            // the suite's property cannot hold for this history either
            let (prop, class) = if prop == "C16" && class.starts_with("update/") && spec.property != "C16" {
              (spec.property.to_string(), format!("index-stuck/{class}"))
            } else {
              (prop, class)
            };
            if prop == spec.property {
              report.violation(
                class,
                what,
                json!({"suite": spec.suite, "cfg": spec.cfg_label, "choices": vectors[i], "history": e.rendered}),
              );
            } else if prop != "C16" && prop != "MACHINERY" {
              *totals.other.entry(format!("{prop}:{class}")).or_default() += 1;
            }
          }
        }
      }
    }
    if capped {
      totals.capped = true;
      break;
    }
    done_upto = Some(kk);
  }
  totals.completed_k = done_upto.unwrap_or(0);
  totals
}

pub fn fold_totals(report: &mut Report, prefix: &str, t: &Totals, requested_k: usize) {
  report.add("evaluations", t.executions);
  report.add("transitions", t.blocks);
  report.add("histories_disabled", t.disabled);
  report.set(&format!("{prefix}.executions"), t.executions);
  report.set(&format!("{prefix}.disabled_histories"), t.disabled);
  report.set(&format!("{prefix}.distinct_states"), t.states.len() as u64);
  report.set(&format!("{prefix}.distinct_outcomes"), t.outcomes.len() as u64);
  report.set(&format!("{prefix}.deviation_bound_requested"), requested_k as u64);
  report.set(&format!("{prefix}.deviation_bound_completed"), t.completed_k as u64);
  report.set(&format!("{prefix}.capped"), t.capped);
  if !t.other.is_empty() {
    // the same executions evaluate the oracles of the sibling properties of the suite; listed for information
    report.set(&format!("{prefix}.sibling_property_classes_seen"), json!(t.other));
    for (k, n) in &t.other {
      println!("INFO sibling oracle in this exploration: {k} x{n}");
    }
  }
  report.set(
    &format!("{prefix}.features"),
    json!(t.features.iter().map(|(k, v)| (k.to_string(), *v)).collect::<BTreeMap<_, _>>()),
  );
  report.set(
    &format!("{prefix}.outcomes"),
    json!(t.outcomes.iter().take(40).map(|(k, v)| (k.clone(), *v)).collect::<BTreeMap<_, _>>()),
  );
}
