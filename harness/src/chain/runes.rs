//! Rune suite: C08 (supply conserved), C09 (allocation), C10 (mint terms), C11
//! (valid etchings only), C16 (never fails).

use {
  super::{Choices, Exec, RunSpec, Totals, fold_totals, run_histories, sats::copy_dir},
  crate::{
    Ctx,
    evidence::Report,
    idx::{self, Dump, IndexCfg},
    refmodel::{
      runes::{RefRune, RuneModel},
      sats::{SatModel, subsidy},
    },
    txkit::{self, Spk},
    util::{self, Scratch},
    world::World,
  },
  bitcoin::{Block, Network, OutPoint, ScriptBuf, Transaction, TxOut, Txid, Witness, script},
  ord::Index,
  ordinals::{Height, Rune, RuneId},
  serde_json::{Value, json},
  std::{
    collections::{BTreeMap, BTreeSet},
    path::PathBuf,
  },
};

pub const FUND: u64 = 10_000;
pub const COIN50: u64 = 5_000_000_000;
/// per-position resources
const POSITIONS: usize = 12;
/// fan-out A at height 4 (6 confirmations at height 9), fan-out B at height 5 (5 confirmations at height 9)
pub const FAN_A_HEIGHT: u32 = 4;
pub const FAN_B_HEIGHT: u32 = 5;
pub const BASE: u32 = 8;

// tags of the runestone message
const T_BODY: u128 = 0;
const T_FLAGS: u128 = 2;
const T_RUNE: u128 = 4;
const T_PREMINE: u128 = 6;
const T_CAP: u128 = 8;
const T_AMOUNT: u128 = 10;
const T_HSTART: u128 = 12;
const T_HEND: u128 = 14;
const T_OSTART: u128 = 16;
const T_OEND: u128 = 18;
const T_MINT: u128 = 20;
const T_POINTER: u128 = 22;
const T_DIV: u128 = 1;
const T_SPACERS: u128 = 3;
const T_SYMBOL: u128 = 5;
const F_ETCH: u128 = 1;
const F_TERMS: u128 = 2;
const F_TURBO: u128 = 4;

fn leb(mut n: u128, out: &mut Vec<u8>) {
  loop {
    let b = (n & 0x7f) as u8;
    n >>= 7;
    if n == 0 {
      out.push(b);
      break;
    }
    out.push(b | 0x80);
  }
}

/// `OP_RETURN OP_13 <payload>` from raw integers.
pub fn runestone_script(ints: &[u128]) -> ScriptBuf {
  let mut payload = Vec::new();
  for i in ints {
    leb(*i, &mut payload);
  }
  let mut b = script::Builder::new()
    .push_opcode(bitcoin::opcodes::all::OP_RETURN)
    .push_opcode(bitcoin::opcodes::all::OP_PUSHNUM_13);
  for chunk in payload.chunks(520) {
    b = txkit::push(b, chunk);
  }
  b.into_script()
}

#[derive(Clone, Default)]
pub struct Msg {
  pub fields: Vec<(u128, u128)>,
  /// (block, tx, amount, output) absolute ids; sorted and delta-encoded at build
  pub edicts: Vec<(u64, u32, u128, u128)>,
  /// raw trailing integers appended after everything (for cenotaph shapes)
  pub raw_tail: Vec<u128>,
}

impl Msg {
  pub fn ints(&self) -> Vec<u128> {
    let mut v = Vec::new();
    for (t, x) in &self.fields {
      v.push(*t);
      v.push(*x);
    }
    if !self.edicts.is_empty() {
      v.push(T_BODY);
      let mut e = self.edicts.clone();
      e.sort_by_key(|x| (x.0, x.1));
      let (mut pb, mut pt) = (0u64, 0u32);
      for (b, t, a, o) in e {
        let db = b - pb;
        let dt = if db == 0 { t - pt } else { t };
        v.extend([db as u128, dt as u128, a, o]);
        pb = b;
        pt = t;
      }
    }
    v.extend(self.raw_tail.iter().cloned());
    v
  }
}

// ---------------------------------------------------------------------------

pub struct Worker {
  pub world: World,
  pub scratch: Scratch,
  pub prefix_blocks: Vec<Block>,
  pub snapshots: BTreeMap<String, PathBuf>,
}

fn default_coinbase(height: u32, total: u64) -> Transaction {
  txkit::coinbase(height, 0, vec![txkit::txout(total, Spk::A.script())])
}

/// fan-out A outputs per position q: [own 2q, own 2q+1] then taproot commits T6[q], non-taproot N6[q]
fn build_prefix(world: &mut World) -> Vec<Block> {
  world.reset();
  for h in 1..FAN_A_HEIGHT {
    world.push_block(vec![default_coinbase(h, subsidy(h))]);
  }
  let cb1 = world.blocks[1].txdata[0].compute_txid();
  let cb2 = world.blocks[2].txdata[0].compute_txid();
  let mut outs: Vec<TxOut> = Vec::new();
  for _ in 0..POSITIONS {
    outs.push(txkit::txout(FUND, Spk::A.script())); // own
    outs.push(txkit::txout(FUND, Spk::A.script())); // own2
    outs.push(txkit::txout(FUND, Spk::B.script())); // T6 (p2tr)
    outs.push(txkit::txout(FUND, Spk::A.script())); // N6 (p2wpkh)
  }
  outs.push(txkit::txout(COIN50 - 4 * POSITIONS as u64 * FUND, Spk::C.script()));
  let fan_a = txkit::tx(vec![txkit::txin(OutPoint { txid: cb1, vout: 0 }, Witness::new())], outs);
  world.push_block(vec![default_coinbase(FAN_A_HEIGHT, subsidy(FAN_A_HEIGHT)), fan_a]);
  let mut outs: Vec<TxOut> = Vec::new();
  for _ in 0..POSITIONS {
    outs.push(txkit::txout(FUND, Spk::B.script())); // T5
  }
  outs.push(txkit::txout(COIN50 - POSITIONS as u64 * FUND, Spk::C.script()));
  let fan_b = txkit::tx(vec![txkit::txin(OutPoint { txid: cb2, vout: 0 }, Witness::new())], outs);
  world.push_block(vec![default_coinbase(FAN_B_HEIGHT, subsidy(FAN_B_HEIGHT)), fan_b]);
  for h in FAN_B_HEIGHT + 1..=BASE {
    world.push_block(vec![default_coinbase(h, subsidy(h))]);
  }
  world.blocks.clone()
}

impl Worker {
  pub fn new(id: usize) -> Self {
    let mut world = World::new(Network::Regtest);
    let prefix_blocks = build_prefix(&mut world);
    Self {
      world,
      scratch: Scratch::new(&format!("runes{id}")),
      prefix_blocks,
      snapshots: BTreeMap::new(),
    }
  }
  pub fn restore_prefix(&mut self) {
    self.world.reset();
    for b in self.prefix_blocks.iter().skip(1) {
      self.world.push_block(b.txdata.clone());
    }
  }
  pub fn fresh_index_dir(&mut self, cfg: &IndexCfg, name: &str) -> anyhow::Result<PathBuf> {
    let label = cfg.label();
    if !self.snapshots.contains_key(&label) {
      let dir = self.scratch.sub(&format!("snap-{label}"));
      let index = idx::open(&self.world, &dir, cfg)?;
      util::watched(|| index.update())?;
      drop(index);
      self.snapshots.insert(label.clone(), dir);
    }
    let snap = self.snapshots[&label].clone();
    let dir = self.scratch.sub(name);
    copy_dir(&snap, &dir)?;
    Ok(dir)
  }
}

// ---------------------------------------------------------------------------
// templates

#[derive(Clone, Copy, PartialEq, Debug)]
pub enum Commit {
  T6,
  T5,
  N6,
  None,
  WrongBytes,
  SecondInput,
  /// an immature (5 confirmations) taproot commitment input followed by a mature one
  T5ThenT6,
  /// a non-taproot input carrying the commitment followed by a mature taproot one
  N6ThenT6,
  /// mature first, immature second
  T6ThenT5,
  /// mature taproot commitment whose witness also carries an annex of several bytes
  T6Annex,
}

#[derive(Clone, Copy, PartialEq, Debug)]
pub enum Name {
  High,
  AtMin,
  BelowMin,
  Reserved,
  Taken,
  Unnamed,
}

#[derive(Clone, Copy, PartialEq, Debug)]
pub enum TermsK {
  None,
  /// cap 2 amount 100, open
  Open,
  /// height window [h+1, h+2)
  AbsWindowNext,
  /// offset window [1, 2)
  RelWindowNext,
  /// terms without cap (=0)
  NoCap,
  /// cap 1 amount 0
  ZeroAmount,
  /// start = max(abs h+2, rel 1), end = min(abs h+4, rel 3)
  Mixed,
  /// offset start u64::MAX
  OffsetMax,
  /// cap 1 amount 7, open
  CapOne,
  /// offset end u64::MAX (open for ever; block + offset must not overflow)
  OffsetEndMax,
  /// height end u64::MAX and height start 0
  HeightEndMax,
}

#[derive(Clone, Copy, PartialEq, Debug)]
pub enum Ceno {
  No,
  UnknownEvenTag,
  UnknownFlag,
  BadEdictOutput,
  TruncatedField,
}

#[derive(Clone, Copy, PartialEq, Debug)]
pub enum MintT {
  R(usize),
  Unknown,
  /// the id this very transaction gets if it etches
  SelfId,
  /// the id of the transaction in the next slot of this block
  NextTx,
}

#[derive(Clone, Copy, PartialEq, Debug)]
pub enum EId {
  R(usize),
  Etched,
  Unknown,
}

#[derive(Clone, Copy, PartialEq, Debug)]
pub enum EAmt {
  Zero,
  One,
  Seven,
  /// the input balance of that rune
  All,
  AllPlusOne,
}

#[derive(Clone, Copy, PartialEq, Debug)]
pub enum EOut {
  Idx(u32),
  /// number of outputs (= all non-OP_RETURN outputs in turn)
  N,
  /// index of the runestone OP_RETURN output
  OpReturn,
}

#[derive(Clone, Copy, PartialEq, Debug)]
pub enum RIn {
  Own,
  Own2,
  /// first unspent output holding a balance of rune j
  Runic(usize),
  /// second unspent output holding a balance of rune j
  Runic2(usize),
  Prev(usize),
}

#[derive(Clone, Copy, PartialEq, Debug)]
pub enum Out {
  A,
  B,
  C,
  /// the runestone OP_RETURN
  Rs,
  /// a plain (non-runestone) OP_RETURN
  PlainOpReturn,
}

#[derive(Clone, Copy, PartialEq, Debug)]
pub enum PtrK {
  None,
  Idx(u32),
  OpReturn,
}

pub struct Etch {
  pub name: Name,
  pub commit: Commit,
  pub premine: Option<u128>,
  pub terms: TermsK,
  pub extras: bool,
}

pub struct Template {
  pub name: &'static str,
  pub inputs: &'static [RIn],
  pub outputs: &'static [Out],
  pub etch: Option<Etch>,
  pub mint: Option<MintT>,
  pub edicts: &'static [(EId, EAmt, EOut)],
  pub pointer: PtrK,
  pub ceno: Ceno,
  /// no runestone output at all
  pub no_runestone: bool,
  pub core: bool,
}

const fn etch(name: Name, commit: Commit, premine: Option<u128>, terms: TermsK) -> Option<Etch> {
  Some(Etch { name, commit, premine, terms, extras: false })
}

macro_rules! tpl {
  ($name:expr, $core:expr, $($field:ident : $val:expr),* $(,)?) => {
    Template { name: $name, core: $core, $($field: $val,)* ..BASE_T }
  };
}

const BASE_T: Template = Template {
  name: "",
  inputs: &[RIn::Own],
  outputs: &[Out::A, Out::Rs],
  etch: None,
  mint: None,
  edicts: &[],
  pointer: PtrK::None,
  ceno: Ceno::No,
  no_runestone: false,
  core: false,
};

const AB_RS: &[Out] = &[Out::A, Out::B, Out::Rs];

pub const TEMPLATES: &[Template] = &[
  // ---- etchings ----
  tpl!("etch-high-premine", true, etch: etch(Name::High, Commit::T6, Some(1000), TermsK::None)),
  tpl!("etch-atmin-open-terms", true, etch: etch(Name::AtMin, Commit::T6, None, TermsK::Open)),
  tpl!("etch-belowmin", false, etch: etch(Name::BelowMin, Commit::T6, Some(1000), TermsK::None)),
  tpl!("etch-reserved-name", false, etch: etch(Name::Reserved, Commit::T6, Some(1000), TermsK::None)),
  tpl!("etch-taken-name", true, etch: etch(Name::Taken, Commit::T6, Some(1000), TermsK::None)),
  tpl!("etch-unnamed", true, etch: etch(Name::Unnamed, Commit::None, Some(5), TermsK::None)),
  tpl!("etch-high-5conf", true, etch: etch(Name::High, Commit::T5, Some(1000), TermsK::None)),
  tpl!("etch-high-nontaproot", false, etch: etch(Name::High, Commit::N6, Some(1000), TermsK::None)),
  tpl!("etch-high-nocommit", false, etch: etch(Name::High, Commit::None, Some(1000), TermsK::None)),
  tpl!("etch-high-wrongbytes", false, etch: etch(Name::High, Commit::WrongBytes, Some(1000), TermsK::None)),
  tpl!("etch-high-commit-2nd-input", false, etch: etch(Name::High, Commit::SecondInput, Some(1000), TermsK::None)),
  tpl!("etch-commit-immature-then-mature", false, etch: etch(Name::High, Commit::T5ThenT6, Some(1000), TermsK::None)),
  tpl!("etch-commit-nontaproot-then-taproot", false, etch: etch(Name::High, Commit::N6ThenT6, Some(1000), TermsK::None)),
  tpl!("etch-commit-mature-then-immature", false, etch: etch(Name::High, Commit::T6ThenT5, Some(1000), TermsK::None)),
  tpl!("etch-commit-with-annex", false, etch: etch(Name::High, Commit::T6Annex, Some(1000), TermsK::None)),
  tpl!("etch-abs-window-next", true, etch: etch(Name::High, Commit::T6, None, TermsK::AbsWindowNext)),
  tpl!("etch-rel-window-next", false, etch: etch(Name::High, Commit::T6, None, TermsK::RelWindowNext)),
  tpl!("etch-terms-nocap", false, etch: etch(Name::High, Commit::T6, None, TermsK::NoCap)),
  tpl!("etch-terms-zero-amount", false, etch: etch(Name::High, Commit::T6, None, TermsK::ZeroAmount)),
  tpl!("etch-terms-mixed", false, etch: etch(Name::High, Commit::T6, Some(3), TermsK::Mixed)),
  tpl!("etch-terms-offset-max", false, etch: etch(Name::High, Commit::T6, None, TermsK::OffsetMax)),
  tpl!("etch-terms-offset-end-max", false, etch: etch(Name::High, Commit::T6, None, TermsK::OffsetEndMax)),
  tpl!("etch-terms-height-end-max", false, etch: etch(Name::High, Commit::T6, None, TermsK::HeightEndMax)),
  tpl!("etch-cap-one", true, etch: etch(Name::High, Commit::T6, Some(10), TermsK::CapOne)),
  tpl!("etch-premine-max", false, etch: etch(Name::High, Commit::T6, Some(u128::MAX), TermsK::None)),
  tpl!("etch-all-fields", false, etch: Some(Etch { name: Name::High, commit: Commit::T6, premine: Some(77), terms: TermsK::Open, extras: true })),
  tpl!("etch-premine-edict-0:0", true, outputs: AB_RS, etch: etch(Name::High, Commit::T6, Some(1000), TermsK::None), edicts: &[(EId::Etched, EAmt::Seven, EOut::Idx(1))]),
  tpl!("etch-premine-pointer-1", false, outputs: AB_RS, etch: etch(Name::High, Commit::T6, Some(1000), TermsK::None), pointer: PtrK::Idx(1)),
  tpl!("etch-premine-only-opreturn", false, outputs: &[Out::Rs], etch: etch(Name::High, Commit::T6, Some(1000), TermsK::None)),
  tpl!("cenotaph-etch-named", true, etch: etch(Name::High, Commit::T6, Some(1000), TermsK::Open), ceno: Ceno::UnknownEvenTag),
  tpl!("cenotaph-etch-unnamed", false, etch: etch(Name::Unnamed, Commit::None, Some(1000), TermsK::None), ceno: Ceno::UnknownFlag),
  tpl!("cenotaph-etch-named-nocommit", false, etch: etch(Name::High, Commit::None, Some(1000), TermsK::None), ceno: Ceno::TruncatedField),
  tpl!("etch-and-mint-self", false, etch: etch(Name::High, Commit::T6, None, TermsK::Open), mint: Some(MintT::SelfId)),
  tpl!("edict-0:0-without-etching", false, outputs: AB_RS, edicts: &[(EId::Etched, EAmt::One, EOut::Idx(1))]),
  // ---- mints ----
  tpl!("mint-r0", true, mint: Some(MintT::R(0))),
  tpl!("mint-r1", false, mint: Some(MintT::R(1))),
  tpl!("mint-unknown", false, mint: Some(MintT::Unknown)),
  tpl!("mint-r0-cenotaph", true, mint: Some(MintT::R(0)), ceno: Ceno::UnknownEvenTag),
  tpl!("mint-r0-only-opreturn", false, outputs: &[Out::Rs], mint: Some(MintT::R(0))),
  tpl!("mint-next-tx", true, mint: Some(MintT::NextTx)),
  tpl!("mint-r0-pointer-1", false, outputs: AB_RS, mint: Some(MintT::R(0)), pointer: PtrK::Idx(1)),
  tpl!("mint-r0-edict-all-to-1", false, outputs: AB_RS, mint: Some(MintT::R(0)), edicts: &[(EId::R(0), EAmt::Zero, EOut::Idx(1))]),
  tpl!("mint-r0-spending-r0", false, inputs: &[RIn::Runic(0)], mint: Some(MintT::R(0))),
  tpl!("mint-r0-spending-r0-split", false, inputs: &[RIn::Runic(0)], outputs: &[Out::A, Out::B, Out::Rs], mint: Some(MintT::R(0)), edicts: &[(EId::R(0), EAmt::Zero, EOut::N)]),
  // ---- transfers ----
  tpl!("xfer-no-runestone", true, inputs: &[RIn::Runic(0)], outputs: &[Out::B], no_runestone: true),
  tpl!("xfer-edict-all-to-1", true, inputs: &[RIn::Runic(0)], outputs: AB_RS, edicts: &[(EId::R(0), EAmt::Zero, EOut::Idx(1))]),
  tpl!("xfer-edict-one-to-0", false, inputs: &[RIn::Runic(0)], outputs: AB_RS, edicts: &[(EId::R(0), EAmt::One, EOut::Idx(0))], pointer: PtrK::Idx(1)),
  tpl!("xfer-edict-more-than-balance", false, inputs: &[RIn::Runic(0)], outputs: AB_RS, edicts: &[(EId::R(0), EAmt::AllPlusOne, EOut::Idx(1))]),
  tpl!("xfer-split-even", true, inputs: &[RIn::Runic(0)], outputs: &[Out::A, Out::B, Out::Rs, Out::C], edicts: &[(EId::R(0), EAmt::Zero, EOut::N)]),
  tpl!("xfer-split-seven-each", true, inputs: &[RIn::Runic(0)], outputs: &[Out::A, Out::B, Out::Rs, Out::C], edicts: &[(EId::R(0), EAmt::Seven, EOut::N)]),
  tpl!("xfer-split-even-opreturn-first", true, inputs: &[RIn::Runic(0)], outputs: &[Out::Rs, Out::A, Out::B, Out::C], edicts: &[(EId::R(0), EAmt::Zero, EOut::N)]),
  tpl!("xfer-split-seven-each-opreturn-middle", false, inputs: &[RIn::Runic(0)], outputs: &[Out::A, Out::Rs, Out::B, Out::C], edicts: &[(EId::R(0), EAmt::Seven, EOut::N)]),
  tpl!("xfer-edict-to-opreturn", true, inputs: &[RIn::Runic(0)], outputs: AB_RS, edicts: &[(EId::R(0), EAmt::Seven, EOut::OpReturn)]),
  tpl!("xfer-pointer-opreturn", false, inputs: &[RIn::Runic(0)], outputs: AB_RS, pointer: PtrK::OpReturn),
  tpl!("xfer-cenotaph", true, inputs: &[RIn::Runic(0)], outputs: AB_RS, ceno: Ceno::UnknownEvenTag),
  tpl!("xfer-cenotaph-bad-edict-output", false, inputs: &[RIn::Runic(0)], outputs: AB_RS, ceno: Ceno::BadEdictOutput),
  tpl!("xfer-opreturn-first", false, inputs: &[RIn::Runic(0)], outputs: &[Out::Rs, Out::A]),
  tpl!("xfer-only-plain-opreturn", false, inputs: &[RIn::Runic(0)], outputs: &[Out::PlainOpReturn], no_runestone: true),
  tpl!("xfer-two-edicts", false, inputs: &[RIn::Runic(0)], outputs: AB_RS, edicts: &[(EId::R(0), EAmt::One, EOut::Idx(1)), (EId::R(0), EAmt::Zero, EOut::Idx(0))]),
  tpl!("xfer-edict-unknown-id", false, inputs: &[RIn::Runic(0)], outputs: AB_RS, edicts: &[(EId::Unknown, EAmt::One, EOut::Idx(1)), (EId::R(0), EAmt::One, EOut::Idx(1))]),
  tpl!("xfer-merge-two", false, inputs: &[RIn::Runic(0), RIn::Runic2(0)], outputs: &[Out::A], no_runestone: true),
  tpl!("xfer-r1-edict", false, inputs: &[RIn::Runic(1)], outputs: AB_RS, edicts: &[(EId::R(1), EAmt::Seven, EOut::Idx(1))]),
  tpl!("xfer-r0+r1-split", false, inputs: &[RIn::Runic(0), RIn::Runic(1)], outputs: &[Out::A, Out::B, Out::Rs, Out::C], edicts: &[(EId::R(0), EAmt::Zero, EOut::N), (EId::R(1), EAmt::One, EOut::N)]),
  tpl!("spend-prev0", true, inputs: &[RIn::Prev(0)], outputs: &[Out::B], no_runestone: true),
  tpl!("spend-prev1-split", false, inputs: &[RIn::Prev(1)], outputs: AB_RS, edicts: &[(EId::R(0), EAmt::One, EOut::N)]),
];

pub const COINBASE_SHAPES: &[&str] = &["full", "mint-r0", "unnamed-etching", "cenotaph"];

// ---------------------------------------------------------------------------

#[derive(Clone)]
struct Placed {
  txid: Txid,
  outputs: Vec<(u64, bool)>, // value, is_op_return
}

struct Builder<'a> {
  prefix: &'a [Block],
  runes: RuneModel,
  sats: SatModel,
  prev: Option<Placed>,
  spent: BTreeSet<OutPoint>,
}

impl Builder<'_> {
  fn fan_a(&self) -> Txid {
    self.prefix[FAN_A_HEIGHT as usize].txdata[1].compute_txid()
  }
  fn fan_b(&self) -> Txid {
    self.prefix[FAN_B_HEIGHT as usize].txdata[1].compute_txid()
  }
  fn rune_by_number(&self, j: usize) -> Option<&RefRune> {
    self.runes.entries.values().find(|r| r.number == j as u64)
  }
  fn runic_output(&self, j: usize, nth: usize) -> Option<OutPoint> {
    let id = self.rune_by_number(j)?.id;
    self
      .runes
      .balances
      .iter()
      .filter(|(op, b)| b.contains_key(&id) && !self.spent.contains(op) && self.sats.utxo.contains_key(op))
      .map(|(op, _)| *op)
      .nth(nth)
  }

  fn build(&mut self, t: &Template, q: usize, height: u32, tx_index: u32) -> Option<(Transaction, u64)> {
    if q >= POSITIONS {
      return None;
    }
    let fa = self.fan_a();
    let mut ins: Vec<(OutPoint, Witness)> = Vec::new();
    for i in t.inputs {
      let op = match i {
        RIn::Own => OutPoint { txid: fa, vout: (4 * q) as u32 },
        RIn::Own2 => OutPoint { txid: fa, vout: (4 * q + 1) as u32 },
        RIn::Runic(j) => self.runic_output(*j, 0)?,
        RIn::Runic2(j) => self.runic_output(*j, 1)?,
        RIn::Prev(k) => {
          let p = self.prev.as_ref()?;
          let (_, is_opr) = *p.outputs.get(*k)?;
          if is_opr {
            return None;
          }
          OutPoint { txid: p.txid, vout: *k as u32 }
        }
      };
      ins.push((op, Witness::new()));
    }

    // etching name and commitment
    let minimum = Rune::minimum_at_height(Network::Regtest, Height(height)).0;
    let mut msg = Msg::default();
    let mut etched_here = false;
    if let Some(e) = &t.etch {
      let name: Option<u128> = match e.name {
        Name::High => Some(minimum + 1_000_000 + q as u128),
        Name::AtMin => Some(minimum),
        Name::BelowMin => Some(minimum - 1),
        Name::Reserved => Some(Rune::RESERVED + 7),
        Name::Taken => Some(self.rune_by_number(0).filter(|r| !r.reserved_name)?.rune),
        Name::Unnamed => None,
      };
      let mut flags = F_ETCH;
      let terms: Vec<(u128, u128)> = match e.terms {
        TermsK::None => vec![],
        TermsK::Open => vec![(T_AMOUNT, 100), (T_CAP, 2)],
        TermsK::AbsWindowNext => vec![(T_AMOUNT, 10), (T_CAP, 5), (T_HSTART, (height + 1).into()), (T_HEND, (height + 2).into())],
        TermsK::RelWindowNext => vec![(T_AMOUNT, 10), (T_CAP, 5), (T_OSTART, 1), (T_OEND, 2)],
        TermsK::NoCap => vec![(T_AMOUNT, 10)],
        TermsK::ZeroAmount => vec![(T_CAP, 1)],
        TermsK::Mixed => vec![(T_AMOUNT, 10), (T_CAP, 9), (T_HSTART, (height + 2).into()), (T_HEND, (height + 4).into()), (T_OSTART, 1), (T_OEND, 3)],
        TermsK::OffsetMax => vec![(T_AMOUNT, 10), (T_CAP, 9), (T_OSTART, u64::MAX.into())],
        TermsK::CapOne => vec![(T_AMOUNT, 7), (T_CAP, 1)],
        TermsK::OffsetEndMax => vec![(T_AMOUNT, 10), (T_CAP, 9), (T_OEND, u64::MAX.into())],
        TermsK::HeightEndMax => vec![(T_AMOUNT, 10), (T_CAP, 9), (T_HSTART, 0), (T_HEND, u64::MAX.into())],
      };
      if e.terms != TermsK::None {
        flags |= F_TERMS;
      }
      if e.extras {
        flags |= F_TURBO;
      }
      msg.fields.push((T_FLAGS, flags));
      if let Some(n) = name {
        msg.fields.push((T_RUNE, n));
      }
      if e.extras {
        msg.fields.push((T_DIV, 2));
        msg.fields.push((T_SPACERS, 5));
        msg.fields.push((T_SYMBOL, 0x1F9FF));
      }
      if let Some(p) = e.premine {
        msg.fields.push((T_PREMINE, p));
      }
      msg.fields.extend(terms);
      etched_here = true;
      // commitment input
      let commitment = name.map(|n| Rune(n).commitment()).unwrap_or_default();
      let mut push_script = |bytes: &[u8]| txkit::push(script::Builder::new(), bytes).into_script().into_bytes();
      let (cop, bytes): (Option<OutPoint>, Vec<u8>) = match e.commit {
        Commit::T6 | Commit::SecondInput | Commit::T6Annex => (Some(OutPoint { txid: fa, vout: (4 * q + 2) as u32 }), commitment.clone()),
        Commit::WrongBytes => {
          let mut c = commitment.clone();
          c.push(1);
          (Some(OutPoint { txid: fa, vout: (4 * q + 2) as u32 }), c)
        }
        Commit::T5 => (Some(OutPoint { txid: self.fan_b(), vout: q as u32 }), commitment.clone()),
        Commit::N6 => (Some(OutPoint { txid: fa, vout: (4 * q + 3) as u32 }), commitment.clone()),
        Commit::None => (None, vec![]),
        Commit::T5ThenT6 | Commit::N6ThenT6 | Commit::T6ThenT5 => (None, vec![]),
      };
      if let Some(cop) = cop {
        let mut w = txkit::tapscript_witness(&push_script(&bytes));
        if e.commit == Commit::T6Annex {
          w.push([0x50u8, 0x01, 0x02]);
        }
        if e.commit == Commit::SecondInput {
          ins.push((cop, w));
        } else {
          ins.insert(0, (cop, w));
        }
      }
      let t6 = OutPoint { txid: fa, vout: (4 * q + 2) as u32 };
      let t5 = OutPoint { txid: self.fan_b(), vout: q as u32 };
      let n6 = OutPoint { txid: fa, vout: (4 * q + 3) as u32 };
      let pair = match e.commit {
        Commit::T5ThenT6 => Some((t5, t6)),
        Commit::N6ThenT6 => Some((n6, t6)),
        Commit::T6ThenT5 => Some((t6, t5)),
        _ => None,
      };
      if let Some((first, second)) = pair {
        let w = txkit::tapscript_witness(&push_script(&commitment));
        ins.insert(0, (second, w.clone()));
        ins.insert(0, (first, w));
      }
    }
    for (op, _) in &ins {
      if self.spent.contains(op) || !self.sats.utxo.contains_key(op) {
        return None;
      }
    }
    {
      let mut seen = BTreeSet::new();
      for (op, _) in &ins {
        if !seen.insert(*op) {
          return None;
        }
      }
    }

    // mint
    if let Some(m) = t.mint {
      let id = match m {
        MintT::R(j) => self.rune_by_number(j)?.id,
        MintT::Unknown => RuneId { block: 999, tx: 0 },
        MintT::SelfId => RuneId { block: height.into(), tx: tx_index },
        MintT::NextTx => RuneId { block: height.into(), tx: tx_index + 1 },
      };
      msg.fields.push((T_MINT, id.block.into()));
      msg.fields.push((T_MINT, id.tx.into()));
    }

    // outputs
    let n_out = t.outputs.len() as u128;
    let rs_index = t.outputs.iter().position(|o| *o == Out::Rs).map(|i| i as u128);
    match t.pointer {
      PtrK::None => {}
      PtrK::Idx(i) => msg.fields.push((T_POINTER, i.into())),
      PtrK::OpReturn => msg.fields.push((T_POINTER, rs_index?)),
    }

    // edicts
    let input_balance = |b: &Builder, id: RuneId| -> u128 {
      ins
        .iter()
        .filter_map(|(op, _)| b.runes.balances.get(op).and_then(|m| m.get(&id)))
        .sum()
    };
    for (eid, amt, out) in t.edicts {
      let (id, bal): (RuneId, u128) = match eid {
        EId::R(j) => {
          let id = self.rune_by_number(*j)?.id;
          (id, input_balance(self, id))
        }
        EId::Etched => (RuneId { block: 0, tx: 0 }, 1000),
        EId::Unknown => (RuneId { block: 999, tx: 1 }, 0),
      };
      let amount = match amt {
        EAmt::Zero => 0,
        EAmt::One => 1,
        EAmt::Seven => 7,
        EAmt::All => bal,
        EAmt::AllPlusOne => bal.saturating_add(1),
      };
      let output = match out {
        EOut::Idx(i) => u128::from(*i),
        EOut::N => n_out,
        EOut::OpReturn => rs_index?,
      };
      msg.edicts.push((id.block, id.tx, amount, output));
    }
    let _ = etched_here;

    match t.ceno {
      Ceno::No => {}
      Ceno::UnknownEvenTag => msg.fields.push((100, 0)),
      Ceno::UnknownFlag => {
        // set an unknown flag bit
        let mut found = false;
        for f in msg.fields.iter_mut() {
          if f.0 == T_FLAGS {
            f.1 |= 1 << 20;
            found = true;
          }
        }
        if !found {
          msg.fields.push((T_FLAGS, 1 << 20));
        }
      }
      Ceno::BadEdictOutput => {
        let id = self.rune_by_number(0)?.id;
        msg.edicts.push((id.block, id.tx, 1, n_out + 1));
      }
      Ceno::TruncatedField => msg.raw_tail.push(T_POINTER),
    }

    let total: u64 = ins.iter().map(|(op, _)| self.sats.meta.get(op).map(|m| m.0).unwrap_or(0)).sum();
    let spendable: Vec<usize> = t
      .outputs
      .iter()
      .enumerate()
      .filter(|(_, o)| !matches!(o, Out::Rs | Out::PlainOpReturn))
      .map(|(i, _)| i)
      .collect();
    let fee = if spendable.is_empty() { total } else { 0 };
    let share = if spendable.is_empty() { 0 } else { total / spendable.len() as u64 };
    let mut outs = Vec::new();
    let mut placed = Vec::new();
    for (i, o) in t.outputs.iter().enumerate() {
      let (value, spk) = match o {
        Out::A => (share, Spk::A.script()),
        Out::B => (share, Spk::B.script()),
        Out::C => (share, Spk::C.script()),
        Out::Rs => (0, runestone_script(&msg.ints())),
        Out::PlainOpReturn => (0, Spk::OpReturnData.script()),
      };
      // the first spendable output takes the rounding remainder
      let value = if Some(&i) == spendable.first() { value + (total - share * spendable.len() as u64) } else { value };
      placed.push((value, matches!(o, Out::Rs | Out::PlainOpReturn)));
      outs.push(txkit::txout(value, spk));
    }
    if t.no_runestone && t.outputs.contains(&Out::Rs) {
      return None;
    }
    let tx = txkit::tx(ins.iter().map(|(op, w)| txkit::txin(*op, w.clone())).collect(), outs);
    for (op, _) in &ins {
      self.spent.insert(*op);
    }
    self.prev = Some(Placed {
      txid: tx.compute_txid(),
      outputs: placed,
    });
    Some((tx, fee))
  }

  fn coinbase(&self, shape: usize, height: u32, fees: u64) -> Option<Transaction> {
    let total = subsidy(height) + fees;
    let a = Spk::A.script();
    let rs = |ints: Vec<u128>| txkit::txout(0, runestone_script(&ints));
    Some(match COINBASE_SHAPES[shape] {
      "full" => txkit::coinbase(height, 0, vec![txkit::txout(total, a)]),
      "mint-r0" => {
        let id = self.rune_by_number(0)?.id;
        txkit::coinbase(height, 0, vec![txkit::txout(total, a), rs(vec![T_MINT, id.block.into(), T_MINT, id.tx.into()])])
      }
      "unnamed-etching" => txkit::coinbase(height, 0, vec![txkit::txout(total, a), rs(vec![T_FLAGS, F_ETCH, T_PREMINE, 9])]),
      "cenotaph" => txkit::coinbase(height, 0, vec![txkit::txout(total, a), rs(vec![T_FLAGS, F_ETCH, 100, 0])]),
      _ => unreachable!(),
    })
  }
}

pub struct Layout {
  pub l: usize,
  pub slots: usize,
  pub templates: Vec<usize>,
  pub shapes: usize,
}

impl Layout {
  pub fn alts(&self) -> Vec<usize> {
    let mut v = Vec::new();
    for _ in 0..self.l {
      for _ in 0..self.slots {
        v.push(self.templates.len());
      }
      v.push(self.shapes - 1);
    }
    v
  }
}

pub fn build_history(w: &Worker, layout: &Layout, choices: &Choices) -> Option<(Vec<Vec<Transaction>>, Value)> {
  let mut b = Builder {
    prefix: &w.prefix_blocks,
    runes: RuneModel::default(),
    sats: SatModel::default(),
    prev: None,
    spent: BTreeSet::new(),
  };
  for blk in &w.prefix_blocks {
    b.runes.apply_block(blk, Network::Regtest, 0);
    b.sats.apply_block(blk);
  }
  let mut blocks = Vec::new();
  let mut rendered = Vec::new();
  let mut prev_hash = w.prefix_blocks.last().unwrap().block_hash();
  for bi in 0..layout.l {
    let height = BASE + 1 + bi as u32;
    let committed = (b.runes.clone(), b.sats.clone());
    let mut txs: Vec<Transaction> = Vec::new();
    let mut fees = 0;
    let mut names = Vec::new();
    for s in 0..layout.slots {
      let c = choices[bi * (layout.slots + 1) + s] as usize;
      if c == 0 {
        continue;
      }
      let t = &TEMPLATES[layout.templates[c - 1]];
      let q = bi * layout.slots + s;
      let tx_index = 1 + txs.len() as u32;
      let (tx, fee) = b.build(t, q, height, tx_index)?;
      // advance the working view by a pseudo block holding just this transaction at its real index
      let mut pseudo_txs = vec![txkit::coinbase(height, 9, vec![txkit::txout(0, Spk::A.script())])];
      pseudo_txs.extend(txs.iter().cloned());
      pseudo_txs.push(tx.clone());
      let pseudo = Block {
        header: w.prefix_blocks[0].header,
        txdata: pseudo_txs,
      };
      b.runes = committed.0.clone();
      b.sats = committed.1.clone();
      b.runes.apply_block(&pseudo, Network::Regtest, 0);
      b.sats.apply_block(&pseudo);
      b.runes.blocks = height;
      b.sats.blocks = height;
      fees += fee;
      names.push(t.name);
      txs.push(tx);
    }
    b.runes = committed.0;
    b.sats = committed.1;
    let g = choices[bi * (layout.slots + 1) + layout.slots] as usize;
    let cb = b.coinbase(g, height, fees)?;
    rendered.push(json!({"height": height, "coinbase": COINBASE_SHAPES[g], "txs": names}));
    let mut all = vec![cb];
    all.extend(txs);
    let blk = Block {
      header: bitcoin::block::Header {
        prev_blockhash: prev_hash,
        ..w.prefix_blocks[0].header
      },
      txdata: all.clone(),
    };
    prev_hash = blk.block_hash();
    b.runes.apply_block(&blk, Network::Regtest, 0);
    b.sats.apply_block(&blk);
    blocks.push(all);
  }
  Some((blocks, Value::Array(rendered)))
}

// ---------------------------------------------------------------------------
// audit

pub fn audit(index: &Index, runes: &RuneModel, sats: &SatModel, e: &mut Exec, feats: &mut BTreeSet<&'static str>) -> Option<String> {
  let dump = match Dump::take(index) {
    Ok(d) => d,
    Err(err) => {
      e.fail("C16", "dump/error", format!("dump failed: {err:#}"));
      return None;
    }
  };
  let hash = dump.content_hash();
  let entries = match index.runes() {
    Ok(v) => v,
    Err(err) => {
      e.fail("C16", "query/error", format!("Index::runes failed: {err:#}"));
      return Some(hash);
    }
  };
  let balances = index.get_rune_balances().unwrap_or_default();

  // ---------- C08: conservation and hygiene ----------
  let mut held: BTreeMap<RuneId, u128> = BTreeMap::new();
  for (op, list) in &balances {
    if list.is_empty() {
      e.fail("C08", "balance/empty-row", format!("output {op} has an empty rune balance row"));
    }
    let mut seen = BTreeSet::new();
    for (id, amount) in list {
      if *amount == 0 {
        e.fail("C08", "balance/zero", format!("output {op} holds a zero balance of {id}"));
      }
      if !seen.insert(*id) {
        e.fail("C08", "balance/duplicate-id", format!("output {op} lists rune {id} twice"));
      }
      if !entries.iter().any(|(eid, _)| eid == id) {
        e.fail("C08", "balance/unknown-rune", format!("output {op} holds rune {id} which has no entry"));
      }
      let h = held.entry(*id).or_default();
      *h = h.saturating_add(*amount);
    }
    match sats.meta.get(op) {
      None => e.fail("C08", "balance/on-spent-or-unknown-output", format!("rune balance recorded on {op} which is not an unspent output")),
      Some((_, script)) => {
        if bitcoin::Script::from_bytes(script).is_op_return() {
          e.fail("C08", "balance/on-op-return", format!("OP_RETURN output {op} holds runes"));
        }
      }
    }
  }
  for (id, entry) in &entries {
    let amount = entry.terms.and_then(|t| t.amount).unwrap_or(0);
    let minted = entry.mints.checked_mul(amount);
    let supply = minted.and_then(|m| m.checked_add(entry.premine));
    let have = held.get(id).cloned().unwrap_or(0).checked_add(entry.burned);
    if supply.is_none() || have != supply {
      let by_ceno = runes.entries.get(id).map(|r| r.by_cenotaph).unwrap_or(false);
      e.fail(
        "C08",
        if by_ceno { "supply/not-conserved/cenotaph-etched" } else { "supply/not-conserved" },
        format!("rune {id}: balances {} + burned {} != premine {} + mints {} x amount {amount}", held.get(id).cloned().unwrap_or(0), entry.burned, entry.premine, entry.mints),
      );
    }
    if entry.burned > 0 {
      feats.insert("burned");
    }
    if entry.mints > 0 {
      feats.insert("minted");
    }
    if runes.entries.get(id).map(|r| r.by_cenotaph).unwrap_or(false) && entry.premine != 0 {
      e.fail("C08", "supply/cenotaph-etching-has-premine", format!("rune {id} etched by a cenotaph has premine {}", entry.premine));
    }
  }

  // ---------- C09: allocation equals the specification ----------
  let got: BTreeMap<OutPoint, BTreeMap<RuneId, u128>> = balances.iter().map(|(op, l)| (*op, l.iter().cloned().collect())).collect();
  if got != runes.balances {
    let mut detail = String::new();
    for (op, want) in &runes.balances {
      if got.get(op) != Some(want) {
        detail = format!("output {op}: index {:?}, specification {:?}", got.get(op), want);
        break;
      }
    }
    if detail.is_empty() {
      for (op, g) in &got {
        if !runes.balances.contains_key(op) {
          detail = format!("output {op}: index {g:?}, specification: no runes");
          break;
        }
      }
    }
    e.fail("C09", "allocation/balances-differ", format!("rune balances differ from the specification: {detail}"));
  }
  for (id, entry) in &entries {
    if let Some(r) = runes.entries.get(id)
      && r.burned != entry.burned
    {
      e.fail("C09", "allocation/burned-differs", format!("rune {id}: burned {} but the specification burns {}", entry.burned, r.burned));
    }
  }
  if !runes.balances.is_empty() {
    feats.insert("balances");
  }

  // ---------- C10: mint terms ----------
  for (id, entry) in &entries {
    let cap = entry.terms.and_then(|t| t.cap).unwrap_or(0);
    if entry.mints > cap {
      e.fail("C10", "mint/count-exceeds-cap", format!("rune {id}: {} mints, cap {cap}", entry.mints));
    }
    if let Some(r) = runes.entries.get(id)
      && r.mints != entry.mints
    {
      e.fail(
        "C10",
        if entry.mints > r.mints { "mint/accepted-outside-terms" } else { "mint/rejected-inside-terms" },
        format!("rune {id}: index counts {} mints, the terms allow {} of the attempted ones", entry.mints, r.mints),
      );
    }
  }
  for (why, n) in &runes.mint_rejections {
    if *n > 0 {
      feats.insert(match *why {
        "no-terms" => "mint-rejected:no-terms",
        "before-start" => "mint-rejected:before-start",
        "at-or-after-end" => "mint-rejected:at-or-after-end",
        "cap-reached" => "mint-rejected:cap-reached",
        _ => "mint-rejected:unknown-rune",
      });
    }
  }

  // ---------- C11: only valid etchings ----------
  let got_ids: BTreeSet<RuneId> = entries.iter().map(|(id, _)| *id).collect();
  let want_ids: BTreeSet<RuneId> = runes.entries.keys().cloned().collect();
  if got_ids != want_ids {
    let extra: Vec<_> = got_ids.difference(&want_ids).collect();
    let missing: Vec<_> = want_ids.difference(&got_ids).collect();
    e.fail(
      "C11",
      if !extra.is_empty() { "etching/invalid-etching-created-rune" } else { "etching/valid-etching-ignored" },
      format!("rune ids differ: index has extra {extra:?}, misses {missing:?}"),
    );
  }
  let mut numbers: Vec<u64> = Vec::new();
  for (id, entry) in &entries {
    numbers.push(entry.number);
    if entry.block != id.block {
      e.fail("C11", "entry/block-differs-from-id", format!("rune {id}: entry.block {}", entry.block));
    }
    if let Some(r) = runes.entries.get(id) {
      let same = r.rune == entry.spaced_rune.rune.0
        && r.spacers == entry.spaced_rune.spacers
        && r.divisibility == entry.divisibility
        && r.symbol == entry.symbol
        && r.premine == entry.premine
        && r.terms == entry.terms
        && r.turbo == entry.turbo
        && r.number == entry.number
        && r.etching == entry.etching;
      if !same {
        e.fail("C11", "entry/fields-differ", format!("rune {id}: entry {entry:?} differs from the etching {r:?}"));
      }
      if r.reserved_name {
        feats.insert("reserved-name");
      }
      if r.by_cenotaph {
        feats.insert("cenotaph-etching");
      }
    }
    match index.rune(entry.spaced_rune.rune) {
      Ok(Some((rid, _, _))) if rid == *id => {}
      other => e.fail("C11", "lookup/name-to-id", format!("name {} does not map back to {id}: {:?}", entry.spaced_rune.rune, other.map(|o| o.map(|x| x.0)).ok())),
    }
    match index.get_etching(entry.etching) {
      Ok(Some(sr)) if sr.rune == entry.spaced_rune.rune => {}
      other => e.fail("C11", "lookup/etching-txid", format!("get_etching({}) = {:?}", entry.etching, other.ok())),
    }
  }
  numbers.sort();
  if numbers != (0..entries.len() as u64).collect::<Vec<_>>() {
    e.fail("C11", "number/not-dense", format!("rune numbers are {numbers:?}"));
  }
  let name_rows = dump.table("RUNE_TO_RUNE_ID").len();
  if name_rows != entries.len() {
    e.fail("C11", "lookup/name-table-size", format!("{name_rows} names for {} runes", entries.len()));
  }
  if dump.statistic(idx::STAT_RUNES) != entries.len() as u64 {
    e.fail("C11", "statistic/runes", format!("runes statistic {} but {} entries", dump.statistic(idx::STAT_RUNES), entries.len()));
  }
  if dump.statistic(idx::STAT_RESERVED_RUNES) != runes.reserved_runes {
    e.fail("C11", "statistic/reserved-runes", format!("reserved runes statistic {} expected {}", dump.statistic(idx::STAT_RESERVED_RUNES), runes.reserved_runes));
  }
  for (why, n) in &runes.etch_rejections {
    if *n > 0 {
      feats.insert(match *why {
        "below-minimum" => "etch-rejected:below-minimum",
        "reserved" => "etch-rejected:reserved",
        "taken" => "etch-rejected:taken",
        _ => "etch-rejected:no-valid-commitment",
      });
    }
  }
  if !entries.is_empty() {
    feats.insert("rune-exists");
  }
  Some(hash)
}

// ---------------------------------------------------------------------------

pub fn exec(w: &mut Worker, cfg: &IndexCfg, layout: &Layout, choices: &Choices, events: bool) -> Exec {
  exec_batch(w, cfg, layout, choices, events, false)
}

pub fn exec_batch(w: &mut Worker, cfg: &IndexCfg, layout: &Layout, choices: &Choices, events: bool, batch: bool) -> Exec {
  let mut e = Exec::default();
  let Some((blocks, rendered)) = build_history(w, layout, choices) else {
    e.disabled = true;
    return e;
  };
  e.rendered = rendered;
  run_blocks(w, cfg, blocks, &mut e, events && !batch, batch);
  e
}

/// Hand-picked multi-deviation histories (per block: transaction templates, coinbase shape),
/// each run under both indexing modes (update() per block; one update() for all blocks).
pub type DenseSpec = &'static [(&'static [&'static str], &'static str)];

pub const DENSE: &[(&str, DenseSpec)] = &[
  ("mint-into-holder", &[
    (&["etch-all-fields"], "full"),
    (&["mint-r0-spending-r0"], "full"),
    (&["mint-r0-spending-r0-split", "mint-r0"], "full"),
  ]),
  ("offset-max-and-zero-amount", &[
    (&["etch-terms-offset-max", "etch-terms-zero-amount"], "full"),
    (&["mint-r0", "mint-r1"], "full"),
    (&["mint-r1", "mint-r0"], "mint-r0"),
  ]),
  ("commit-orders-and-splits", &[
    (&["etch-commit-immature-then-mature", "etch-commit-nontaproot-then-taproot", "etch-commit-mature-then-immature"], "full"),
    (&["xfer-split-even-opreturn-first", "xfer-r1-edict"], "full"),
    (&["xfer-split-seven-each-opreturn-middle", "xfer-merge-two"], "full"),
  ]),
  ("open-ended-windows", &[
    (&["etch-terms-offset-end-max", "etch-terms-height-end-max"], "full"),
    (&["mint-r0", "mint-r1"], "mint-r0"),
    (&["mint-r1", "mint-r0", "mint-r0-spending-r0"], "full"),
  ]),
  ("burns-in-consecutive-blocks", &[
    (&["etch-high-premine", "etch-commit-with-annex"], "full"),
    (&["xfer-edict-to-opreturn", "xfer-r1-edict"], "full"),
    (&["xfer-edict-to-opreturn", "xfer-cenotaph"], "full"),
  ]),
  ("windows", &[
    (&["etch-abs-window-next", "etch-rel-window-next", "etch-terms-mixed"], "full"),
    (&["mint-r0", "mint-r1"], "mint-r0"),
    (&["mint-r0", "mint-r1"], "full"),
  ]),
  ("dense-1", &[
    (&["etch-atmin-open-terms", "mint-next-tx"], "full"),
    (&["mint-r0", "xfer-edict-to-opreturn"], "full"),
    (&["mint-r0-cenotaph", "xfer-split-even"], "mint-r0"),
  ]),
  ("dense-2", &[
    (&["etch-high-premine", "etch-unnamed"], "unnamed-etching"),
    (&["xfer-cenotaph", "etch-high-5conf"], "full"),
    (&["xfer-r1-edict", "cenotaph-etch-named"], "cenotaph"),
  ]),
];

pub const DENSE_SLOTS: usize = 3;

pub fn dense_layout(l: usize) -> Layout {
  Layout { l, slots: DENSE_SLOTS, templates: (0..TEMPLATES.len()).collect(), shapes: COINBASE_SHAPES.len() }
}

pub fn dense_choices(spec: DenseSpec) -> Choices {
  let mut v = Vec::new();
  for (txs, cb) in spec {
    for s in 0..DENSE_SLOTS {
      v.push(match txs.get(s) {
        Some(name) => (TEMPLATES.iter().position(|t| t.name == *name).unwrap_or_else(|| panic!("unknown template {name}")) + 1) as u8,
        None => 0,
      });
    }
    v.push(COINBASE_SHAPES.iter().position(|c| c == cb).unwrap_or_else(|| panic!("unknown shape {cb}")) as u8);
  }
  v
}

pub fn exec_dense(w: &mut Worker, cfg: &IndexCfg, spec: DenseSpec, events: bool, batch: bool) -> Exec {
  let mut e = Exec::default();
  let Some((blocks, rendered)) = build_history(w, &dense_layout(spec.len()), &dense_choices(spec)) else {
    e.disabled = true;
    return e;
  };
  e.rendered = rendered;
  run_blocks(w, cfg, blocks, &mut e, events && !batch, batch);
  e
}

fn run_dense(property: &'static str, cfg: &IndexCfg, events: bool, report: &mut Report) -> (u64, BTreeSet<String>) {
  let mut jobs: Vec<(usize, bool)> = Vec::new();
  for di in 0..DENSE.len() {
    for batch in [false, true] {
      jobs.push((di, batch));
    }
  }
  let (results, _) = util::par_map(
    jobs.len(),
    None,
    |id| Worker::new(500 + id),
    |w, i| {
      let (di, batch) = jobs[i];
      util::catch(|| exec_dense(w, cfg, DENSE[di].1, events, batch))
    },
  );
  let mut states = BTreeSet::new();
  let mut n = 0;
  let mut outcomes: BTreeMap<String, String> = BTreeMap::new();
  for (i, r) in results.into_iter().enumerate() {
    let (di, batch) = jobs[i];
    let name = DENSE[di].0;
    let tag = format!("{name}{}", if batch { "/one-update" } else { "/per-block" });
    match r {
      Some(Ok(e)) if !e.disabled => {
        n += 1;
        states.extend(e.states.iter().cloned());
        outcomes.insert(tag.clone(), e.outcome.clone());
        for (prop, class, what) in e.violations {
          let (prop, class) = if prop == "C16" && class.starts_with("update/") && property != "C16" { (property.to_string(), format!("index-stuck/{class}")) } else { (prop, class) };
          if prop == property {
            report.violation(class, format!("[{tag}] {what}"), json!({"suite": "runes-dense", "dense": name, "batch": batch, "history": e.rendered}));
          }
        }
      }
      Some(Ok(_)) => {
        println!("MACHINERY: dense history {tag} is disabled");
        report.violation(format!("{property}/machinery-dense-disabled"), format!("dense history {tag} cannot be built"), json!({}));
      }
      Some(Err(p)) => {
        println!("MACHINERY: harness panic on dense history {tag}: {p}");
        report.violation(format!("{property}/machinery-panic"), format!("harness panicked on dense history {tag}: {p}"), json!({}));
      }
      None => {}
    }
  }
  report.set("runes.dense.executions", n);
  report.set("runes.dense.outcomes", json!(outcomes));
  (n, states)
}

/// Indexes `blocks` on top of the prefix with the real index and the models in lock-step.
pub fn run_blocks(w: &mut Worker, cfg: &IndexCfg, blocks: Vec<Vec<Transaction>>, e: &mut Exec, events: bool, batch: bool) {
  util::set_context(json!({"suite": "runes", "cfg": cfg.label(), "history": e.rendered, "one_update": batch}).to_string());
  w.restore_prefix();
  let mut runes = RuneModel::default();
  let mut sats = SatModel::default();
  for b in &w.prefix_blocks {
    runes.apply_block(b, Network::Regtest, 0);
    sats.apply_block(b);
  }
  let dir = match w.fresh_index_dir(cfg, "exec") {
    Ok(d) => d,
    Err(err) => {
      e.fail("C16", "open/error", format!("indexing the setup prefix failed: {err:#}"));
      return;
    }
  };
  let (tx, mut rx) = tokio::sync::mpsc::channel(1 << 16);
  let opened = if events { idx::open_with_events(&w.world, &dir, cfg, tx) } else { idx::open(&w.world, &dir, cfg) };
  let index = match opened {
    Ok(i) => i,
    Err(err) => {
      e.fail("C16", "open/error", format!("Index::open failed: {err:#}"));
      return;
    }
  };
  let mut fold = super::events::EventFold::default();
  let mut feats: BTreeSet<&'static str> = BTreeSet::new();
  let nblocks = blocks.len();
  for (bi, txs) in blocks.into_iter().enumerate() {
    w.world.push_block(txs);
    let block = w.world.blocks.last().unwrap().clone();
    runes.apply_block(&block, Network::Regtest, 0);
    sats.apply_block(&block);
    if batch && bi + 1 < nblocks {
      continue;
    }
    match util::catch(|| util::watched(|| index.update())) {
      Ok(Ok(())) => {}
      Ok(Err(err)) => {
        e.fail("C16", "update/error", format!("Index::update returned an error on a valid chain: {err:#}"));
        break;
      }
      Err(p) => {
        e.fail("C16", "update/panic", format!("Index::update panicked on a valid chain: {p}"));
        break;
      }
    }
    e.blocks += 1;
    match util::catch(|| audit(&index, &runes, &sats, e, &mut feats)) {
      Ok(Some(hash)) => e.states.push(hash),
      Ok(None) => {}
      Err(p) => e.fail("C16", "query/panic", format!("an index query panicked during the audit: {p}")),
    }
    if events {
      let evs = super::events::drain(&mut rx);
      for ev in &evs {
        feats.insert(match ev {
          ord::index::event::Event::RuneBurned { .. } => "event:burned",
          ord::index::event::Event::RuneEtched { .. } => "event:etched",
          ord::index::event::Event::RuneMinted { .. } => "event:minted",
          ord::index::event::Event::RuneTransferred { .. } => "event:rune-transferred",
          _ => "event:inscription",
        });
      }
      fold.apply_block(&block, w.world.height(), evs);
      let obs = Dump::take(&index).ok().and_then(|d| super::inscriptions::observe(&index, &d).ok()).unwrap_or_default();
      fold.compare(&index, &obs, e);
    }
  }
  drop(index);
  for f in &feats {
    e.hit(f);
  }
  e.outcome = feats.iter().cloned().collect::<Vec<_>>().join("|");
}

pub fn layout_for(ctx: &Ctx, k: usize, l: usize) -> Layout {
  let core_only = !ctx.thorough() && k >= 2;
  let templates: Vec<usize> = TEMPLATES.iter().enumerate().filter(|(_, t)| !core_only || t.core).map(|(i, _)| i).collect();
  Layout {
    l,
    slots: 2,
    templates,
    shapes: if core_only { 2 } else { COINBASE_SHAPES.len() },
  }
}

pub fn cfg() -> IndexCfg {
  IndexCfg {
    sats: false,
    addresses: false,
    transactions: false,
    ..IndexCfg::all()
  }
}

pub fn run(ctx: &Ctx, property: &'static str) -> Report {
  run_into(ctx, property, Report::new(property, &ctx.tier, "model_checking"))
}

pub fn run_into(ctx: &Ctx, property: &'static str, mut report: Report) -> Report {
  let events = property == "C37";
  let cfg = cfg();

  if let Some(path) = &ctx.replay {
    let v: Value = serde_json::from_str(&std::fs::read_to_string(path).expect("read replay")).expect("json");
    let r = &v["replay"];
    if let Some(tag) = r["scenario"].as_str() {
      let th = r["thorough"].as_bool().unwrap_or(false);
      let sc = if tag == "mint-matrix" { super::runes_batch::mint_matrix(th) } else { super::runes_batch::allocation_product(th) };
      let ex = super::runes_batch::run_scenario_events(&sc, &cfg, 0, tag, events);
      for (p, c, what) in &ex.violations {
        println!("  [{p}] {c}: {what}");
        if p == property {
          report.violation(format!("{c}/batched-{tag}"), what.clone(), r.clone());
        }
      }
      report.set("states", ex.states.len().max(1) as u64);
      report.set("transitions", ex.blocks.max(1));
      report.set("traces_validated_against_impl", 1u64);
      report.sample(json!(sc.description));
      return report;
    }
    if let Some(name) = r["dense"].as_str().filter(|_| r["suite"] == "runes-dense") {
      let spec = DENSE.iter().find(|(n, _)| *n == name).expect("unknown dense history").1;
      let mut w = Worker::new(0);
      let e = exec_dense(&mut w, &cfg, spec, events, r["batch"].as_bool().unwrap_or(false));
      println!("replay history: {}", e.rendered);
      for (p, c, what) in &e.violations {
        println!("  [{p}] {c}: {what}");
        if p == property {
          report.violation(c.clone(), what.clone(), r.clone());
        }
      }
      report.set("states", e.states.len().max(1) as u64);
      report.set("transitions", e.blocks.max(1));
      report.set("traces_validated_against_impl", 1u64);
      report.sample(e.rendered);
      return report;
    }
    let choices: Choices = r["choices"].as_array().unwrap().iter().map(|x| x.as_u64().unwrap() as u8).collect();
    let templates: Vec<usize> = r["templates"].as_array().map(|a| a.iter().map(|x| x.as_u64().unwrap() as usize).collect()).unwrap_or_else(|| (0..TEMPLATES.len()).collect());
    let shapes = r["shapes"].as_u64().unwrap_or(COINBASE_SHAPES.len() as u64) as usize;
    let l = r["l"].as_u64().unwrap_or(2) as usize;
    let layout = Layout { l, slots: 2, templates, shapes };
    let mut w = Worker::new(0);
    let e = exec_batch(&mut w, &cfg, &layout, &choices, events, r["batch"].as_bool().unwrap_or(false));
    println!("replay history: {}", e.rendered);
    for (p, c, what) in &e.violations {
      println!("  [{p}] {c}: {what}");
      if p == property {
        report.violation(c.clone(), what.clone(), r.clone());
      }
    }
    report.set("states", e.states.len().max(1) as u64);
    report.set("transitions", e.blocks.max(1));
    report.set("traces_validated_against_impl", 1u64);
    report.sample(e.rendered);
    return report;
  }

  let budget_total: u64 = if ctx.thorough() { 900 } else { 40 };
  let mut all_states: BTreeSet<String> = BTreeSet::new();
  let mut exhaustive = true;
  let mut traces = 0;

  // batched-case scenarios (one execution decides thousands of single-transaction cases)
  let mut scenarios = Vec::new();
  if matches!(property, "C09" | "C08") {
    scenarios.push(("allocation-product", super::runes_batch::allocation_product(ctx.thorough())));
  }
  if matches!(property, "C10" | "C08" | "C37") {
    scenarios.push(("mint-matrix", super::runes_batch::mint_matrix(ctx.thorough())));
  }
  for (tag, sc) in &scenarios {
    let audit_from = if events { 0 } else { sc.blocks.len().saturating_sub(if *tag == "mint-matrix" { 8 } else { 4 }) };
    let ex = super::runes_batch::run_scenario_events(sc, &cfg, audit_from, tag, events);
    for (p, c, what) in &ex.violations {
      if p == property {
        report.violation(format!("{c}/batched-{tag}"), what.clone(), json!({"scenario": tag, "thorough": ctx.thorough()}));
      } else if p == "MACHINERY" {
        report.violation(c.clone(), what.clone(), json!({"scenario": tag}));
      }
    }
    report.set(&format!("batched.{tag}.decided_cases"), sc.decided_cases);
    report.set(&format!("batched.{tag}.description"), sc.description.clone());
    report.set(&format!("batched.{tag}.blocks_audited"), ex.blocks);
    report.set(
      &format!("batched.{tag}.features"),
      json!(ex.features.iter().map(|(k, v)| (k.to_string(), *v)).collect::<BTreeMap<_, _>>()),
    );
    report.add("evaluations", sc.decided_cases);
    report.add("transitions", ex.blocks);
    for s in &sc.samples {
      report.sample(json!({"scenario": tag, "case": s}));
    }
    all_states.extend(ex.states.iter().cloned());
    traces += 1;
  }
  // (k_min, k_max, blocks)
  let stages: Vec<(usize, usize, usize, bool)> = if ctx.thorough() { vec![(1, 2, 3, true), (0, 3, 3, false)] } else { vec![(0, 1, 3, false), (2, 2, 2, false)] };
  for (kmin, kmax, l, batch) in &stages {
    let layout = layout_for(ctx, *kmax, *l);
    let spec = RunSpec {
      property,
      suite: "runes",
      cfg_label: cfg.label(),
      alts: layout.alts(),
      k: *kmax,
      k_min: *kmin,
      budget_secs: budget_total / stages.len() as u64,
    };
    let mut sub = Report::new(property, &ctx.tier, "model_checking");
    let totals: Totals = run_histories(&spec, &mut sub, Worker::new, |w, c| exec_batch(w, &cfg, &layout, c, events, *batch));
    for mut viol in sub.violations.drain(..) {
      viol.replay["templates"] = json!(layout.templates);
      viol.replay["shapes"] = json!(layout.shapes);
      viol.replay["l"] = json!(layout.l);
      viol.replay["batch"] = json!(*batch);
      report.violations.push(viol);
    }
    for s in sub.samples.drain(..) {
      report.sample(s);
    }
    fold_totals(&mut report, &format!("runes.k{kmax}.l{l}{}", if *batch { ".one-update" } else { "" }), &totals, *kmax);
    all_states.extend(totals.states.iter().cloned());
    traces += totals.executions;
    if totals.capped {
      exhaustive = false;
    }
  }
  let (dn, dstates) = run_dense(property, &cfg, events, &mut report);
  traces += dn;
  all_states.extend(dstates);
  let (base_states, base_traces) = if events { (report.get("states"), report.get("traces_validated_against_impl")) } else { (0, 0) };
  let prior_rule = report.coverage.get("rule").and_then(|v| v.as_str()).map(|s| format!("{s} || ")).filter(|_| events).unwrap_or_default();
  if events && report.coverage.get("exhaustive").and_then(|v| v.as_bool()) == Some(false) {
    exhaustive = false;
  }
  report.set("states", (base_states + all_states.len() as u64).max(1));
  report.set("traces_validated_against_impl", base_traces + traces);
  report.set("distinct_nontrivial", (base_states + all_states.len() as u64).max(2));
  report.set("exhaustive", exhaustive);
  report.set(
    "rule",
    format!(
      "{prior_rule}every history of L blocks (2 transaction slots + coinbase shape each) after a fixed 8-block prefix that prepares taproot / non-taproot \
       commit outputs with 6 and 5 confirmations, with at most K deviations from 'empty block'; alphabet = {} transaction templates \
       (etchings x name kinds x commitment kinds x terms, cenotaphs, mints, edict/pointer transfers) and {} coinbase shapes; quick: K<=1 \
       over the full alphabet with L=3, K=2 over the core alphabet ({} templates) with L=2; each history runs on the real Index \
       (update() after every block) in lock-step with a reference model written from the runes specification; additionally {} hand-picked \
       3-block histories with 5-8 deviations each under both indexing modes (update() per block; one update() for all three); states = distinct index content hashes",
      TEMPLATES.len(),
      COINBASE_SHAPES.len(),
      TEMPLATES.iter().filter(|t| t.core).count(),
      DENSE.len()
    ),
  );
  report.set("space", json!({"templates": TEMPLATES.iter().map(|t| t.name).collect::<Vec<_>>(), "coinbase_shapes": COINBASE_SHAPES, "index": cfg.label()}));
  report.assume("environment = mockcore JSON-RPC driven by the harness node simulator (getrawtransaction / getblockheader answers come from the simulated chain)");
  report.assume("Runestone::decipher is used as given by the reference model (property C25) and Rune::minimum_at_height as given (property C33)");
  report.assume("regtest: runes active from height 0; amounts outside the alphabet are not covered");
  report
}
