//! Inscription suite: C03 (move with sat), C04 (never duplicated/dropped), C05
//! (numbers/ids), C06 (reinscription flag / clean first inscriptions), C07
//! (provenance), C16 (never fails).

use {
  super::{Choices, Exec, RunSpec, Totals, fold_totals, run_histories, sats::copy_dir},
  crate::{
    Ctx,
    evidence::Report,
    idx::{self, Dump, IndexCfg},
    refmodel::{
      inscriptions::{InscModel, RefInsc},
      sats::{SatModel, subsidy},
    },
    txkit::{self, Spk},
    util::{self, Scratch},
    world::World,
  },
  bitcoin::{Block, Network, OutPoint, Transaction, TxOut, Txid, Witness, hashes::Hash, opcodes, script},
  ord::{Index, InscriptionId},
  ordinals::{Charm, Sat},
  serde_json::{Value, json},
  std::{
    collections::{BTreeMap, BTreeSet},
    path::PathBuf,
  },
};

pub const FUND: u64 = 10_000;
pub const COIN50: u64 = 5_000_000_000;
const SLICES: usize = 40;
const ZEROS: usize = 12;
const CBS: u32 = 8;

// ---------------------------------------------------------------------------
// alphabet

#[derive(Clone, Copy, Debug, PartialEq)]
pub enum In {
  Own,
  Own2,
  Cb,
  Zero,
  /// the real unspent output currently holding the j-th inscription of the history
  Insc(usize),
  /// output k of the most recent earlier deviation transaction
  Prev(usize),
  /// funding slice with an absolute index (not tied to the position)
  Slice(usize),
  /// zero-value funding output with an absolute index
  ZeroAt(usize),
}

#[derive(Clone, Copy, Debug, PartialEq)]
pub enum Ptr {
  Zero,
  SecondOutput,
  BeyondOutputs,
  /// into the sat range contributed by the input after the revealing one
  LaterInput,
  /// onto the position of an inscription already sitting in an input of this tx
  OntoInscribed,
  /// last sat of the outputs
  LastOutputSat,
}

#[derive(Clone, Copy, Debug, PartialEq)]
pub enum Par {
  /// inscription 0 (wherever it is; template decides whether it is spent)
  Insc0,
  /// inscription 1
  Insc1,
  NonExistent,
  /// envelope 0 of this same transaction
  SelfTx0,
  /// envelope 1 of this same transaction
  SelfTx1,
  /// inscription 0 twice (same bytes)
  Insc0Twice,
  /// inscription 0 twice in two encodings (trailing zero / 4-byte index)
  Insc0TwoEncodings,
  /// inscriptions 0 and 1
  Insc0And1,
  /// inscription 0, a non-existent id, inscription 0 again (repeat is not adjacent)
  Insc0NonExistentInsc0,
  /// inscription 0, inscription 1, inscription 0 again
  Insc0Insc1Insc0,
}

#[derive(Clone, Copy, Debug, PartialEq)]
pub enum Env {
  Png,
  Text,
  Pointer(Ptr),
  DupField,
  Incomplete,
  EvenUnknown,
  OddUnknown,
  Pushnum,
  Stutter,
  Parent(Par),
  DelegateInsc0,
  Gallery,
  NoBody,
  /// unrecognized even tag together with a duplicated field
  EvenUnknownDup,
  /// unrecognized even tag together with a pointer to the second output
  EvenUnknownPtr,
  /// unrecognized even tag together with a tag that has no value
  EvenUnknownIncomplete,
}

#[derive(Clone, Copy, Debug)]
pub enum Val {
  Sats(u64),
  Rest,
}

#[derive(Clone, Copy)]
pub enum Fee {
  Sats(u64),
  Remainder,
}

pub struct Template {
  pub name: &'static str,
  pub inputs: &'static [In],
  /// (input index, envelopes in that input)
  pub reveals: &'static [(usize, &'static [Env])],
  pub outputs: &'static [(Val, Spk)],
  pub fee: Fee,
  /// part of the reduced alphabet used for K>=2 in the quick tier
  pub core: bool,
}

macro_rules! t {
  ($name:expr, $inputs:expr, $reveals:expr, $outputs:expr, $fee:expr, $core:expr) => {
    Template { name: $name, inputs: $inputs, reveals: $reveals, outputs: $outputs, fee: $fee, core: $core }
  };
}

const ONE_A: &[(Val, Spk)] = &[(Val::Rest, Spk::A)];
const SPLIT: &[(Val, Spk)] = &[(Val::Sats(3000), Spk::A), (Val::Rest, Spk::B)];
const BURN: &[(Val, Spk)] = &[(Val::Rest, Spk::OpReturn)];
const ZERO_FIRST: &[(Val, Spk)] = &[(Val::Sats(0), Spk::A), (Val::Rest, Spk::A)];
const ALL_FEE: &[(Val, Spk)] = &[(Val::Sats(0), Spk::OpReturn)];
const F0: Fee = Fee::Sats(0);
/// a pointer envelope ahead of 39 plain ones in one input: 40 floating inscriptions, 39 of them tied on offset 0
/// (more than the 32 elements up to which the standard library sorts by insertion)
const PTR_THEN_39: &[Env] = &[Env::Pointer(Ptr::SecondOutput), Env::Png, Env::Png, Env::Text, Env::Png, Env::Png, Env::Text, Env::Png, Env::Png, Env::Text, Env::Png, Env::Png, Env::Text, Env::Png, Env::Png, Env::Text, Env::Png, Env::Png, Env::Text, Env::Png, Env::Png, Env::Text, Env::Png, Env::Png, Env::Text, Env::Png, Env::Png, Env::Text, Env::Png, Env::Png, Env::Text, Env::Png, Env::Png, Env::Text, Env::Png, Env::Png, Env::Text, Env::Png, Env::Png, Env::Text];

pub const TEMPLATES: &[Template] = &[
  // --- reveals on a fresh output ---
  t!("reveal-png", &[In::Own], &[(0, &[Env::Png])], ONE_A, F0, true),
  t!("reveal-text-fee", &[In::Own], &[(0, &[Env::Text])], ONE_A, Fee::Sats(1000), false),
  t!("reveal-two-same-input", &[In::Own], &[(0, &[Env::Png, Env::Png])], ONE_A, F0, true),
  t!("reveal-three-same-input", &[In::Own], &[(0, &[Env::Png, Env::Text, Env::Png])], SPLIT, F0, false),
  t!("reveal-second-input", &[In::Own, In::Own2], &[(1, &[Env::Png])], ONE_A, F0, true),
  t!("reveal-both-inputs", &[In::Own, In::Own2], &[(0, &[Env::Png]), (1, &[Env::Png])], SPLIT, F0, true),
  t!("reveal-zero-value-input", &[In::Zero, In::Own], &[(0, &[Env::Png])], ONE_A, F0, true),
  t!("reveal-zero-value-2nd-input", &[In::Own, In::Zero], &[(1, &[Env::Png])], ONE_A, F0, false),
  t!("reveal-to-opreturn", &[In::Own], &[(0, &[Env::Png])], BURN, F0, true),
  t!("reveal-zero-first-output", &[In::Own], &[(0, &[Env::Png])], ZERO_FIRST, F0, false),
  t!("reveal-all-to-fee", &[In::Own], &[(0, &[Env::Png])], ALL_FEE, Fee::Remainder, true),
  t!("reveal-cb-uncommon-sat", &[In::Cb], &[(0, &[Env::Png])], &[(Val::Sats(1), Spk::C), (Val::Rest, Spk::B)], F0, false),
  // 13 inputs with differing values (funding slices and zero-value outputs interleaved), reveals spread over them
  t!("reveal-13-inputs", &[In::Slice(30), In::ZeroAt(9), In::Slice(31), In::Slice(32), In::ZeroAt(10), In::Slice(33), In::Slice(34), In::ZeroAt(11), In::Slice(35), In::Slice(36), In::Slice(37), In::Slice(38), In::Slice(39)],
     &[(1, &[Env::Png]), (4, &[Env::Png]), (8, &[Env::Png]), (12, &[Env::Png])], SPLIT, F0, false),
  // --- envelope kinds ---
  t!("reveal-dupfield", &[In::Own], &[(0, &[Env::DupField])], ONE_A, F0, false),
  t!("reveal-incomplete", &[In::Own], &[(0, &[Env::Incomplete])], ONE_A, F0, false),
  t!("reveal-even-unknown", &[In::Own], &[(0, &[Env::EvenUnknown])], ONE_A, F0, true),
  t!("reveal-odd-unknown", &[In::Own], &[(0, &[Env::OddUnknown])], ONE_A, F0, false),
  t!("reveal-pushnum", &[In::Own], &[(0, &[Env::Pushnum])], ONE_A, F0, false),
  t!("reveal-stutter", &[In::Own], &[(0, &[Env::Stutter])], ONE_A, F0, false),
  t!("reveal-nobody", &[In::Own], &[(0, &[Env::NoBody])], ONE_A, F0, false),
  t!("reveal-gallery", &[In::Own], &[(0, &[Env::Gallery])], ONE_A, F0, false),
  t!("reveal-delegate", &[In::Own], &[(0, &[Env::DelegateInsc0])], ONE_A, F0, false),
  t!("reveal-even-unknown-then-png", &[In::Own], &[(0, &[Env::EvenUnknown, Env::Png])], ONE_A, F0, false),
  t!("reveal-png-then-even-unknown", &[In::Own], &[(0, &[Env::Png, Env::EvenUnknown])], ONE_A, F0, false),
  t!("reveal-even-unknown-second-input", &[In::Own, In::Own2], &[(1, &[Env::EvenUnknown])], ONE_A, F0, false),
  t!("reveal-40-ptr-first", &[In::Own], &[(0, PTR_THEN_39)], SPLIT, F0, false),
  t!("reveal-even-unknown-dupfield", &[In::Own], &[(0, &[Env::EvenUnknownDup])], ONE_A, F0, false),
  t!("reveal-even-unknown-ptr", &[In::Own], &[(0, &[Env::EvenUnknownPtr])], SPLIT, F0, false),
  t!("reveal-even-unknown-incomplete", &[In::Own], &[(0, &[Env::EvenUnknownIncomplete])], ONE_A, F0, false),
  // --- pointers ---
  t!("ptr-zero", &[In::Own], &[(0, &[Env::Pointer(Ptr::Zero)])], SPLIT, F0, false),
  t!("ptr-second-output", &[In::Own], &[(0, &[Env::Pointer(Ptr::SecondOutput)])], SPLIT, F0, true),
  t!("ptr-beyond-outputs", &[In::Own], &[(0, &[Env::Pointer(Ptr::BeyondOutputs)])], SPLIT, Fee::Sats(500), false),
  t!("ptr-last-output-sat", &[In::Own], &[(0, &[Env::Pointer(Ptr::LastOutputSat)])], SPLIT, Fee::Sats(500), false),
  t!("ptr-later-input", &[In::Own, In::Own2], &[(0, &[Env::Pointer(Ptr::LaterInput)])], SPLIT, F0, true),
  t!("ptr-two-same-target", &[In::Own], &[(0, &[Env::Pointer(Ptr::SecondOutput), Env::Pointer(Ptr::SecondOutput)])], SPLIT, F0, false),
  t!("ptr-plain-then-ptr-zero", &[In::Own], &[(0, &[Env::Png, Env::Pointer(Ptr::Zero)])], SPLIT, F0, false),
  t!("ptr-onto-inscribed-later-input", &[In::Own, In::Insc(0)], &[(0, &[Env::Pointer(Ptr::OntoInscribed)])], ONE_A, F0, true),
  t!("ptr-onto-inscribed-same-input", &[In::Insc(0)], &[(0, &[Env::Pointer(Ptr::OntoInscribed)])], ONE_A, F0, false),
  t!("ptr-onto-inscribed-earlier-input", &[In::Insc(0), In::Own], &[(1, &[Env::Pointer(Ptr::OntoInscribed)])], ONE_A, F0, false),
  // --- reinscriptions ---
  t!("reinscribe-insc0", &[In::Insc(0)], &[(0, &[Env::Png])], ONE_A, F0, true),
  t!("reinscribe-insc0-twice", &[In::Insc(0)], &[(0, &[Env::Png, Env::Png])], ONE_A, F0, false),
  t!("reinscribe-insc1", &[In::Insc(1)], &[(0, &[Env::Png])], ONE_A, F0, false),
  t!("reinscribe-prev0", &[In::Prev(0)], &[(0, &[Env::Png])], ONE_A, F0, true),
  // --- parents ---
  t!("child-of-insc0-spent", &[In::Insc(0)], &[(0, &[Env::Parent(Par::Insc0)])], SPLIT, F0, true),
  t!("child-of-insc0-spent-other-input", &[In::Own, In::Insc(0)], &[(0, &[Env::Parent(Par::Insc0)])], &[(Val::Sats(FUND), Spk::A), (Val::Rest, Spk::B)], F0, true),
  t!("child-of-insc0-not-spent", &[In::Own], &[(0, &[Env::Parent(Par::Insc0)])], ONE_A, F0, true),
  t!("child-of-nonexistent", &[In::Own], &[(0, &[Env::Parent(Par::NonExistent)])], ONE_A, F0, false),
  t!("child-of-earlier-same-tx", &[In::Own], &[(0, &[Env::Png, Env::Parent(Par::SelfTx0)])], SPLIT, F0, true),
  t!("child-of-later-same-tx", &[In::Own], &[(0, &[Env::Parent(Par::SelfTx1), Env::Png])], SPLIT, F0, false),
  t!("child-of-later-same-tx-ptr-first", &[In::Own], &[(0, &[Env::Parent(Par::SelfTx1), Env::Pointer(Ptr::Zero)])], SPLIT, F0, false),
  t!("child-of-self", &[In::Own], &[(0, &[Env::Parent(Par::SelfTx0)])], ONE_A, F0, false),
  t!("child-repeated-parent", &[In::Insc(0)], &[(0, &[Env::Parent(Par::Insc0Twice)])], SPLIT, F0, false),
  t!("child-two-encodings", &[In::Insc(0)], &[(0, &[Env::Parent(Par::Insc0TwoEncodings)])], SPLIT, F0, false),
  t!("child-parent-a-x-a", &[In::Insc(0)], &[(0, &[Env::Parent(Par::Insc0NonExistentInsc0)])], SPLIT, F0, false),
  t!("child-parent-a-b-a", &[In::Insc(0), In::Insc(1)], &[(0, &[Env::Parent(Par::Insc0Insc1Insc0)])], &[(Val::Sats(FUND), Spk::A), (Val::Rest, Spk::B)], F0, false),
  t!("child-of-two-parents", &[In::Insc(0), In::Insc(1)], &[(0, &[Env::Parent(Par::Insc0And1)])], &[(Val::Sats(FUND), Spk::A), (Val::Rest, Spk::B)], F0, false),
  // --- transfers ---
  t!("move-insc0", &[In::Insc(0)], &[], &[(Val::Rest, Spk::B)], F0, true),
  t!("move-insc0-split-first-sat", &[In::Insc(0)], &[], &[(Val::Sats(1), Spk::C), (Val::Rest, Spk::B)], F0, false),
  t!("move-insc0-behind-own", &[In::Own, In::Insc(0)], &[], &[(Val::Sats(4000), Spk::A), (Val::Rest, Spk::B)], F0, true),
  t!("merge-insc0-insc1", &[In::Insc(0), In::Insc(1)], &[], ONE_A, F0, true),
  t!("insc0-to-fee", &[In::Insc(0)], &[], ALL_FEE, Fee::Remainder, true),
  t!("insc0-to-opreturn", &[In::Insc(0)], &[], BURN, F0, true),
  t!("insc0-half-to-fee", &[In::Own, In::Insc(0)], &[], &[(Val::Sats(FUND), Spk::A)], Fee::Remainder, false),
  t!("move-prev0", &[In::Prev(0)], &[], &[(Val::Rest, Spk::B)], Fee::Sats(100), true),
  t!("prev0-to-fee", &[In::Prev(0)], &[], ALL_FEE, Fee::Remainder, true),
  t!("plain-fee", &[In::Own], &[], ONE_A, Fee::Sats(2000), true),
];

pub const COINBASE_SHAPES: &[&str] = &["full", "underpay-fees", "split-two", "zero-then-full", "to-opreturn", "underpay-half-fees"];

// ---------------------------------------------------------------------------
// envelope construction

fn nonexistent_id() -> InscriptionId {
  InscriptionId {
    txid: Txid::from_byte_array([0xee; 32]),
    index: 0,
  }
}

fn id_value(id: InscriptionId) -> Vec<u8> {
  let mut v = id.txid.to_byte_array().to_vec();
  let idx = id.index.to_le_bytes();
  let mut n = 4;
  while n > 0 && idx[n - 1] == 0 {
    n -= 1;
  }
  v.extend_from_slice(&idx[..n]);
  v
}

fn id_value_fixed(id: InscriptionId) -> Vec<u8> {
  let mut v = id.txid.to_byte_array().to_vec();
  v.extend_from_slice(&id.index.to_le_bytes());
  v
}

fn pointer_bytes(p: u64) -> Vec<u8> {
  let mut b = p.to_le_bytes().to_vec();
  while b.last() == Some(&0) {
    b.pop();
  }
  b
}

pub struct EnvCtx {
  pub txid_placeholder: bool,
  pub insc0: Option<InscriptionId>,
  pub insc1: Option<InscriptionId>,
  /// resolved pointer values
  pub ptr_second_output: Option<u64>,
  pub ptr_beyond_outputs: u64,
  pub ptr_later_input: Option<u64>,
  pub ptr_onto_inscribed: Option<u64>,
  pub ptr_last_output_sat: Option<u64>,
  pub self_txid: Option<Txid>,
}

const PNG: &[u8] = b"image/png";
const TEXT: &[u8] = b"text/plain;charset=utf-8";

/// Script bytes for one envelope; None if a role cannot be resolved.
fn envelope(env: Env, cx: &EnvCtx) -> Option<Vec<u8>> {
  let ct = |t: &[u8]| (vec![1u8], t.to_vec());
  let mk = |fields: Vec<(Vec<u8>, Vec<u8>)>, body: Option<&[u8]>| txkit::envelope_script(&fields, body).into_bytes();
  Some(match env {
    Env::Png => mk(vec![ct(PNG)], Some(b"\x89PNG")),
    Env::Text => mk(vec![ct(TEXT)], Some(b"hello")),
    Env::NoBody => mk(vec![ct(PNG)], None),
    Env::Pointer(p) => {
      let v = match p {
        Ptr::Zero => 0,
        Ptr::SecondOutput => cx.ptr_second_output?,
        Ptr::BeyondOutputs => cx.ptr_beyond_outputs,
        Ptr::LaterInput => cx.ptr_later_input?,
        Ptr::OntoInscribed => cx.ptr_onto_inscribed?,
        Ptr::LastOutputSat => cx.ptr_last_output_sat?,
      };
      mk(vec![ct(PNG), (vec![2u8], pointer_bytes(v))], Some(b"\x89PNG"))
    }
    Env::DupField => mk(vec![ct(PNG), ct(PNG)], Some(b"\x89PNG")),
    Env::EvenUnknown => mk(vec![ct(PNG), (vec![22u8], vec![1])], Some(b"\x89PNG")),
    Env::OddUnknown => mk(vec![ct(PNG), (vec![99u8], vec![1])], Some(b"\x89PNG")),
    Env::EvenUnknownDup => mk(vec![ct(PNG), ct(PNG), (vec![22u8], vec![1])], Some(b"\x89PNG")),
    Env::EvenUnknownPtr => mk(vec![ct(PNG), (vec![22u8], vec![1]), (vec![2u8], pointer_bytes(cx.ptr_second_output?))], Some(b"\x89PNG")),
    Env::EvenUnknownIncomplete => {
      let mut b = script::Builder::new().push_opcode(opcodes::OP_FALSE).push_opcode(opcodes::all::OP_IF);
      b = txkit::push(b, b"ord");
      b = txkit::push(b, &[1]);
      b = txkit::push(b, PNG);
      b = txkit::push(b, &[22]);
      b = txkit::push(b, &[1]);
      b = txkit::push(b, &[5]);
      b.push_opcode(opcodes::all::OP_ENDIF).into_script().into_bytes()
    }
    Env::Incomplete => {
      // OP_FALSE OP_IF "ord" <1> <png> <5> OP_ENDIF : tag 5 without a value, no body
      let mut b = script::Builder::new().push_opcode(opcodes::OP_FALSE).push_opcode(opcodes::all::OP_IF);
      b = txkit::push(b, b"ord");
      b = txkit::push(b, &[1]);
      b = txkit::push(b, PNG);
      b = txkit::push(b, &[5]);
      b.push_opcode(opcodes::all::OP_ENDIF).into_script().into_bytes()
    }
    Env::Pushnum => {
      // content-type tag pushed as OP_1
      let mut b = script::Builder::new().push_opcode(opcodes::OP_FALSE).push_opcode(opcodes::all::OP_IF);
      b = txkit::push(b, b"ord");
      b = b.push_opcode(opcodes::all::OP_PUSHNUM_1);
      b = txkit::push(b, PNG);
      b = txkit::push(b, &[]);
      b = txkit::push(b, b"\x89PNG");
      b.push_opcode(opcodes::all::OP_ENDIF).into_script().into_bytes()
    }
    Env::Stutter => {
      let mut v = vec![0x00u8]; // extra OP_FALSE
      v.extend(mk(vec![ct(PNG)], Some(b"\x89PNG")));
      v
    }
    Env::Parent(par) => {
      let parents: Vec<Vec<u8>> = match par {
        Par::Insc0 => vec![id_value(cx.insc0?)],
        Par::Insc1 => vec![id_value(cx.insc1?)],
        Par::NonExistent => vec![id_value(nonexistent_id())],
        Par::SelfTx0 => vec![id_value(InscriptionId { txid: cx.self_txid?, index: 0 })],
        Par::SelfTx1 => vec![id_value(InscriptionId { txid: cx.self_txid?, index: 1 })],
        Par::Insc0Twice => vec![id_value(cx.insc0?), id_value(cx.insc0?)],
        Par::Insc0TwoEncodings => vec![id_value(cx.insc0?), id_value_fixed(cx.insc0?)],
        Par::Insc0And1 => vec![id_value(cx.insc0?), id_value(cx.insc1?)],
        Par::Insc0NonExistentInsc0 => vec![id_value(cx.insc0?), id_value(nonexistent_id()), id_value(cx.insc0?)],
        Par::Insc0Insc1Insc0 => vec![id_value(cx.insc0?), id_value(cx.insc1?), id_value(cx.insc0?)],
      };
      let mut fields = vec![ct(PNG)];
      for p in parents {
        fields.push((vec![3u8], p));
      }
      mk(fields, Some(b"\x89PNG"))
    }
    Env::DelegateInsc0 => mk(vec![(vec![11u8], id_value(cx.insc0.unwrap_or(nonexistent_id())))], None),
    Env::Gallery => {
      // properties: {0: [ {0: h'<36 byte id>' ... } ]} is ord-specific; use an inline title instead plus
      // a gallery-looking map that decodes or not — either way indexing must not fail
      let cbor: Vec<u8> = vec![0xa1, 0x01, 0xa1, 0x00, 0x61, b't'];
      mk(vec![ct(PNG), (vec![17u8], cbor)], Some(b"\x89PNG"))
    }
  })
}

// ---------------------------------------------------------------------------
// worker

pub struct Worker {
  pub world: World,
  pub scratch: Scratch,
  pub base: u32,
  pub chain: &'static str,
  pub prefix_blocks: Vec<Block>,
  pub snapshots: BTreeMap<String, PathBuf>,
}

fn network_of(chain: &str) -> Network {
  match chain {
    "regtest" => Network::Regtest,
    "testnet4" => Network::Testnet4,
    "signet" => Network::Signet,
    "mainnet" => Network::Bitcoin,
    _ => Network::Regtest,
  }
}

fn default_coinbase(height: u32, total: u64) -> Transaction {
  txkit::coinbase(height, 0, vec![txkit::txout(total, Spk::A.script())])
}

/// Prefix: blocks 1..=base-1 default coinbases; block `base`: fan-out of coinbase 1
/// into SLICES funding slices + ZEROS zero-value outputs. Enumerated blocks start at base+1.
fn build_prefix(world: &mut World, base: u32) -> Vec<Block> {
  world.reset();
  assert!(base > CBS + 1);
  for h in 1..base {
    world.push_block(vec![default_coinbase(h, subsidy(h))]);
  }
  let cb1 = world.blocks[1].txdata[0].compute_txid();
  let mut outs: Vec<TxOut> = (0..SLICES).map(|_| txkit::txout(FUND, Spk::A.script())).collect();
  for _ in 0..ZEROS {
    outs.push(txkit::txout(0, Spk::A.script()));
  }
  outs.push(txkit::txout(COIN50 - SLICES as u64 * FUND, Spk::B.script()));
  let fan = txkit::tx(vec![txkit::txin(OutPoint { txid: cb1, vout: 0 }, Witness::new())], outs);
  world.push_block(vec![default_coinbase(base, subsidy(base)), fan]);
  world.blocks.clone()
}

impl Worker {
  pub fn new(id: usize, chain: &'static str, base: u32) -> Self {
    let mut world = World::new(network_of(chain));
    let prefix_blocks = build_prefix(&mut world, base);
    Self {
      world,
      scratch: Scratch::new(&format!("insc{id}")),
      base,
      chain,
      prefix_blocks,
      snapshots: BTreeMap::new(),
    }
  }

  pub fn restore_prefix(&mut self) {
    self.world.reset();
    for b in self.prefix_blocks.iter().skip(1) {
      self.world.push_block(b.txdata.clone());
    }
  }

  pub fn fresh_index_dir(&mut self, cfg: &IndexCfg, name: &str) -> anyhow::Result<PathBuf> {
    let label = cfg.label();
    if !self.snapshots.contains_key(&label) {
      let dir = self.scratch.sub(&format!("snap-{label}"));
      let index = idx::open(&self.world, &dir, cfg)?;
      util::watched(|| index.update())?;
      drop(index);
      self.snapshots.insert(label.clone(), dir);
    }
    let snap = self.snapshots[&label].clone();
    let dir = self.scratch.sub(name);
    copy_dir(&snap, &dir)?;
    Ok(dir)
  }
}

// ---------------------------------------------------------------------------
// building histories

#[derive(Clone)]
struct Placed {
  txid: Txid,
  outputs: Vec<(u64, Spk)>,
  spent: Vec<bool>,
}

struct Builder<'a> {
  prefix: &'a [Block],
  base: u32,
  sats: SatModel,
  insc: InscModel,
  prev: Option<Placed>,
  spent: BTreeSet<OutPoint>,
  first_inscription_height: u32,
}

impl Builder<'_> {
  fn fan_txid(&self) -> Txid {
    self.prefix[self.base as usize].txdata[1].compute_txid()
  }

  /// Location of the j-th inscription if it sits in a real, spendable output.
  fn insc_location(&self, j: usize) -> Option<(OutPoint, u64, u64)> {
    let r = self.insc.all.get(j)?;
    let sat = r.sat?;
    let (op, off) = self.sats.locate(sat)?;
    if op == OutPoint::null() {
      return None;
    }
    let (value, script) = self.sats.meta.get(&op)?;
    if bitcoin::Script::from_bytes(script).is_op_return() {
      return None;
    }
    Some((op, *value, off))
  }

  fn resolve(&mut self, input: In, q: usize) -> Option<(OutPoint, u64)> {
    match input {
      In::Own => Some((OutPoint { txid: self.fan_txid(), vout: (2 * q) as u32 }, FUND)),
      In::Own2 => Some((OutPoint { txid: self.fan_txid(), vout: (2 * q + 1) as u32 }, FUND)),
      In::Zero => Some((OutPoint { txid: self.fan_txid(), vout: (SLICES + q) as u32 }, 0)),
      In::Slice(i) => (i < SLICES).then(|| (OutPoint { txid: self.fan_txid(), vout: i as u32 }, FUND)),
      In::ZeroAt(i) => (i < ZEROS).then(|| (OutPoint { txid: self.fan_txid(), vout: (SLICES + i) as u32 }, 0)),
      In::Cb => {
        let h = 2 + q;
        if h as u32 > CBS {
          return None;
        }
        Some((OutPoint { txid: self.prefix[h].txdata[0].compute_txid(), vout: 0 }, COIN50))
      }
      In::Insc(j) => {
        let (op, value, _) = self.insc_location(j)?;
        Some((op, value))
      }
      In::Prev(k) => {
        let p = self.prev.as_mut()?;
        let (value, spk) = *p.outputs.get(k)?;
        if p.spent[k] || matches!(spk, Spk::OpReturn | Spk::OpReturnData) {
          return None;
        }
        Some((OutPoint { txid: p.txid, vout: k as u32 }, value))
      }
    }
  }

  fn build(&mut self, t: &Template, q: usize) -> Option<(Transaction, u64)> {
    if q * 2 + 1 >= 30 || q >= 9 {
      return None;
    }
    let mut ops = Vec::new();
    let mut values = Vec::new();
    for &i in t.inputs {
      let (op, v) = self.resolve(i, q)?;
      if ops.contains(&op) || self.spent.contains(&op) || !self.sats.utxo.contains_key(&op) {
        return None;
      }
      ops.push(op);
      values.push(v);
    }
    let total: u64 = values.iter().sum();
    let fixed: u64 = t.outputs.iter().map(|(v, _)| if let Val::Sats(n) = v { *n } else { 0 }).sum();
    let fee = match t.fee {
      Fee::Sats(n) => n,
      Fee::Remainder => total.checked_sub(fixed)?,
    };
    let rest = total.checked_sub(fixed)?.checked_sub(fee)?;
    let mut outs = Vec::new();
    let mut outputs = Vec::new();
    let mut rest_used = false;
    for (v, spk) in t.outputs {
      let value = match v {
        Val::Sats(n) => *n,
        Val::Rest => {
          rest_used = true;
          rest
        }
      };
      outs.push(txkit::txout(value, spk.script()));
      outputs.push((value, *spk));
    }
    if !rest_used && rest != 0 {
      return None;
    }
    let total_output: u64 = outputs.iter().map(|(v, _)| *v).sum();

    // pointer targets
    let mut starts = Vec::new();
    let mut acc = 0;
    for v in &values {
      starts.push(acc);
      acc += v;
    }
    let onto = t.inputs.iter().enumerate().find_map(|(i, inp)| {
      if let In::Insc(j) = inp {
        let (_, _, off) = self.insc_location(*j)?;
        Some(starts[i] + off)
      } else {
        None
      }
    });
    let reveal_input = t.reveals.first().map(|(i, _)| *i).unwrap_or(0);
    let mut cx = EnvCtx {
      txid_placeholder: false,
      insc0: self.insc.all.first().map(|r| r.id),
      insc1: self.insc.all.get(1).map(|r| r.id),
      ptr_second_output: if outputs.len() >= 2 && outputs[1].0 > 100 { Some(outputs[0].0 + 100) } else { None },
      ptr_beyond_outputs: total_output + 5,
      ptr_later_input: starts.get(reveal_input + 1).map(|s| s + 7).filter(|p| *p < total_output),
      ptr_onto_inscribed: onto.filter(|p| *p < total_output),
      ptr_last_output_sat: total_output.checked_sub(1),
      self_txid: None,
    };

    // A parent reference to an envelope of this same transaction needs the txid, which
    // does not depend on witnesses: build once without witnesses to learn it.
    let unsigned = txkit::tx(ops.iter().map(|op| txkit::txin(*op, Witness::new())).collect(), outs.clone());
    cx.self_txid = Some(unsigned.compute_txid());

    let mut ins = Vec::new();
    for (i, op) in ops.iter().enumerate() {
      let mut script = Vec::new();
      for (ri, envs) in t.reveals {
        if *ri == i {
          for e in *envs {
            script.extend(envelope(*e, &cx)?);
          }
        }
      }
      let witness = if script.is_empty() { Witness::new() } else { txkit::tapscript_witness(&script) };
      ins.push(txkit::txin(*op, witness));
    }
    let tx = txkit::tx(ins, outs);
    assert_eq!(tx.compute_txid(), cx.self_txid.unwrap());
    for op in &ops {
      self.spent.insert(*op);
    }
    if let Some(p) = self.prev.as_mut() {
      for op in &ops {
        if op.txid == p.txid {
          p.spent[op.vout as usize] = true;
        }
      }
    }
    self.prev = Some(Placed {
      txid: tx.compute_txid(),
      spent: vec![false; outputs.len()],
      outputs,
    });
    Some((tx, fee))
  }
}

fn build_coinbase(shape: usize, height: u32, fees: u64) -> Transaction {
  let total = subsidy(height) + fees;
  let a = Spk::A.script();
  match COINBASE_SHAPES[shape] {
    "full" => txkit::coinbase(height, 0, vec![txkit::txout(total, a)]),
    "underpay-fees" => txkit::coinbase(height, 0, vec![txkit::txout(subsidy(height), a)]),
    "underpay-half-fees" => txkit::coinbase(height, 0, vec![txkit::txout(subsidy(height) + fees / 2, a)]),
    "split-two" => txkit::coinbase(
      height,
      0,
      vec![txkit::txout(subsidy(height) + fees / 2, a), txkit::txout(fees - fees / 2, Spk::B.script())],
    ),
    "zero-then-full" => txkit::coinbase(height, 0, vec![txkit::txout(0, a.clone()), txkit::txout(total, a)]),
    "to-opreturn" => txkit::coinbase(
      height,
      0,
      vec![txkit::txout(subsidy(height), a), txkit::txout(fees, Spk::OpReturn.script())],
    ),
    _ => unreachable!(),
  }
}

pub struct Layout {
  pub l: usize,
  pub slots: usize,
  pub templates: Vec<usize>,
  pub shapes: usize,
}

impl Layout {
  pub fn alts(&self) -> Vec<usize> {
    let mut v = Vec::new();
    for _ in 0..self.l {
      for _ in 0..self.slots {
        v.push(self.templates.len());
      }
      v.push(self.shapes - 1);
    }
    v
  }
}

/// Builds the blocks of a history using only the reference models. None = disabled.
pub fn build_history(w: &Worker, layout: &Layout, choices: &Choices, first_inscription_height: u32) -> Option<(Vec<Vec<Transaction>>, Value)> {
  let mut b = Builder {
    prefix: &w.prefix_blocks,
    base: w.base,
    sats: SatModel::default(),
    insc: InscModel::default(),
    prev: None,
    spent: BTreeSet::new(),
    first_inscription_height,
  };
  for blk in &w.prefix_blocks {
    b.insc.apply_block(&mut b.sats, blk, first_inscription_height);
  }
  let mut blocks = Vec::new();
  let mut rendered = Vec::new();
  let mut prev_hash = w.prefix_blocks.last().unwrap().block_hash();
  for bi in 0..layout.l {
    let height = w.base + 1 + bi as u32;
    let mut txs = Vec::new();
    let mut fees = 0;
    let mut names = Vec::new();
    // Transactions of one block are built against a working view that is advanced by
    // every placed transaction (so Insc(j) follows same-block moves); the committed
    // models are advanced by the real block afterwards.
    let committed = (b.sats.clone(), b.insc.clone());
    for s in 0..layout.slots {
      let c = choices[bi * (layout.slots + 1) + s] as usize;
      if c == 0 {
        continue;
      }
      let t = &TEMPLATES[layout.templates[c - 1]];
      let q = bi * layout.slots + s;
      let (tx, fee) = b.build(t, q)?;
      let pseudo = Block {
        header: w.prefix_blocks[0].header,
        txdata: vec![txkit::coinbase(height, 9, vec![txkit::txout(0, Spk::A.script())]), tx.clone()],
      };
      b.sats.blocks = height;
      b.insc.apply_block(&mut b.sats, &pseudo, first_inscription_height);
      fees += fee;
      names.push(t.name);
      txs.push(tx);
    }
    b.sats = committed.0;
    b.insc = committed.1;
    let g = choices[bi * (layout.slots + 1) + layout.slots] as usize;
    let cb = build_coinbase(g, height, fees);
    rendered.push(json!({"height": height, "coinbase": COINBASE_SHAPES[g], "txs": names}));
    let mut all = vec![cb];
    all.extend(txs);
    // advance the real models by the real block
    let blk = Block {
      header: bitcoin::block::Header {
        prev_blockhash: prev_hash,
        ..w.prefix_blocks[0].header
      },
      txdata: all.clone(),
    };
    prev_hash = blk.block_hash();
    b.insc.apply_block(&mut b.sats, &blk, first_inscription_height);
    blocks.push(all);
  }
  let _ = b.first_inscription_height;
  Some((blocks, Value::Array(rendered)))
}

// ---------------------------------------------------------------------------
// decoding helpers for raw tables

pub fn decode_inscription_id(k: &[u8]) -> InscriptionId {
  let mut txid = [0u8; 32];
  txid.copy_from_slice(&k[..32]);
  InscriptionId {
    txid: Txid::from_byte_array(txid),
    index: u32::from_le_bytes(k[32..36].try_into().unwrap()),
  }
}

pub fn u32le(b: &[u8]) -> u32 {
  u32::from_le_bytes(b[..4].try_into().unwrap())
}

pub fn decode_satpoint(v: &[u8]) -> (OutPoint, u64) {
  (idx::decode_outpoint(&v[..36]), u64::from_le_bytes(v[36..44].try_into().unwrap()))
}

pub struct Observed {
  pub id: InscriptionId,
  pub seq: u32,
  pub number: i32,
  pub charms: u16,
  pub height: u32,
  pub sat: Option<u64>,
  pub parents: Vec<u32>,
  pub hidden: bool,
  pub fee: u64,
  pub satpoint: Option<(OutPoint, u64)>,
}

/// Reads every inscription of the index through the dump + public API.
pub fn observe(index: &Index, dump: &Dump) -> Result<Vec<Observed>, String> {
  let mut out = Vec::new();
  let satpoints: BTreeMap<u32, (OutPoint, u64)> = dump
    .table("SEQUENCE_NUMBER_TO_SATPOINT")
    .iter()
    .map(|(k, v)| (u32le(k), decode_satpoint(v)))
    .collect();
  for (k, v) in dump.table("INSCRIPTION_ID_TO_SEQUENCE_NUMBER") {
    let id = decode_inscription_id(k);
    let seq = u32le(v);
    let entry = index
      .get_inscription_entry(id)
      .map_err(|e| format!("get_inscription_entry({id}): {e}"))?
      .ok_or_else(|| format!("get_inscription_entry({id}) is None although the id table lists it"))?;
    if entry.id != id || entry.sequence_number != seq {
      return Err(format!(
        "id table maps {id} to sequence number {seq} but that entry says id {} sequence number {}",
        entry.id, entry.sequence_number
      ));
    }
    out.push(Observed {
      id,
      seq,
      number: entry.inscription_number,
      charms: entry.charms,
      height: entry.height,
      sat: entry.sat.map(|s| s.0),
      parents: entry.parents.clone(),
      hidden: entry.hidden,
      fee: entry.fee,
      satpoint: satpoints.get(&seq).cloned(),
    });
  }
  out.sort_by_key(|o| o.seq);
  Ok(out)
}

// ---------------------------------------------------------------------------
// audit

fn charm_names(c: u16) -> String {
  Charm::charms(c).iter().map(|c| c.to_string()).collect::<Vec<_>>().join("+")
}

pub struct AuditCtx<'a> {
  pub cfg: &'a IndexCfg,
  pub jubilee: u32,
  pub blocks: &'a [Block],
}

pub fn audit(
  index: &Index,
  sats: &SatModel,
  insc: &InscModel,
  ax: &AuditCtx,
  e: &mut Exec,
  feats: &mut BTreeSet<&'static str>,
) -> Option<(String, Vec<Observed>)> {
  let dump = match Dump::take(index) {
    Ok(d) => d,
    Err(err) => {
      e.fail("C16", "dump/error", format!("dump failed: {err:#}"));
      return None;
    }
  };
  let hash = dump.content_hash();
  let obs = match observe(index, &dump) {
    Ok(o) => o,
    Err(msg) => {
      e.fail("C05", "lookup/id-seq-entry-inconsistent", msg);
      return Some((hash, Vec::new()));
    }
  };
  let cfg = ax.cfg;
  let n = obs.len();
  let by_id: BTreeMap<InscriptionId, &Observed> = obs.iter().map(|o| (o.id, o)).collect();
  let by_seq: BTreeMap<u32, &Observed> = obs.iter().map(|o| (o.seq, o)).collect();

  // ------------- C04: never duplicated or dropped -------------
  if n as u64 != insc.envelopes {
    e.fail(
      "C04",
      if (n as u64) < insc.envelopes { "count/dropped" } else { "count/extra" },
      format!("index holds {n} inscriptions but ord's envelope parser finds {} envelopes in non-coinbase transactions", insc.envelopes),
    );
  }
  let blessed = dump.statistic(idx::STAT_BLESSED);
  let cursed = dump.statistic(idx::STAT_CURSED);
  if blessed + cursed != n as u64 {
    e.fail("C04", "count/statistics", format!("blessed {blessed} + cursed {cursed} statistics != {n} inscriptions"));
  }
  // exactly one holder each
  let mut holders: BTreeMap<u32, Vec<(OutPoint, u64)>> = BTreeMap::new();
  let special = |op: &OutPoint| *op == OutPoint::null() || *op == ord::unbound_outpoint();
  for (k, v) in dump.table("OUTPOINT_TO_UTXO_ENTRY") {
    let op = idx::decode_outpoint(k);
    let dec = idx::decode_utxo_entry(v, cfg.sats, cfg.addresses, cfg.inscriptions);
    for (seq, off) in &dec.inscriptions {
      holders.entry(*seq).or_default().push((op, *off));
      if !special(&op) && *off >= dec.value {
        e.fail("C04", "holder/offset-beyond-value", format!("output {op} (value {}) lists inscription seq {seq} at offset {off}", dec.value));
      }
    }
    // get_inscriptions_for_output agrees with the entry
    let listed: Vec<InscriptionId> = index.get_inscriptions_for_output(op).ok().flatten().unwrap_or_default();
    let want: BTreeSet<InscriptionId> = dec.inscriptions.iter().filter_map(|(s, _)| by_seq.get(s).map(|o| o.id)).collect();
    let got: BTreeSet<InscriptionId> = listed.iter().cloned().collect();
    if got != want || listed.len() != dec.inscriptions.len() {
      e.fail("C04", "holder/get_inscriptions_for_output", format!("get_inscriptions_for_output({op}) lists {} inscriptions, its entry holds {}", listed.len(), dec.inscriptions.len()));
    }
  }
  for o in &obs {
    let h = holders.get(&o.seq).cloned().unwrap_or_default();
    match (h.len(), o.satpoint) {
      (1, Some(sp)) if h[0] == sp => {}
      (0, _) => e.fail("C04", "holder/none", format!("inscription {} (seq {}) is held by no output", o.id, o.seq)),
      (1, Some(sp)) => e.fail("C04", "holder/satpoint-disagrees", format!("inscription {} satpoint table says {:?} but it is listed in {:?}", o.id, sp, h[0])),
      (1, None) => e.fail("C04", "holder/no-satpoint", format!("inscription {} has no satpoint row", o.id)),
      _ => e.fail("C04", "holder/duplicated", format!("inscription {} (seq {}) is listed by {} outputs: {:?}", o.id, o.seq, h.len(), h)),
    }
  }
  for seq in holders.keys() {
    if !by_seq.contains_key(seq) {
      e.fail("C04", "holder/unknown-sequence-number", format!("an output lists sequence number {seq} which has no inscription"));
    }
  }

  // ------------- C05: numbers / ids -------------
  let model_ids: BTreeSet<InscriptionId> = insc.all.iter().map(|r| r.id).collect();
  let index_ids: BTreeSet<InscriptionId> = obs.iter().map(|o| o.id).collect();
  if n as u64 == insc.envelopes && model_ids != index_ids {
    let extra: Vec<_> = index_ids.difference(&model_ids).take(2).collect();
    e.fail("C05", "id/not-reveal-txid-and-envelope-ordinal", format!("inscription ids differ from (reveal txid, envelope ordinal): unexpected {extra:?}"));
  }
  for (i, o) in obs.iter().enumerate() {
    if o.seq != i as u32 {
      e.fail("C05", "sequence/not-dense", format!("sequence numbers are not 0..n-1: position {i} has {}", o.seq));
      break;
    }
  }
  let mut next_pos = 0i32;
  let mut next_neg = -1i32;
  let mut last_height = 0;
  for o in &obs {
    if o.number >= 0 {
      if o.number != next_pos {
        e.fail("C05", "number/blessed-not-dense", format!("blessed numbers not 0,1,2,… in sequence order: seq {} has number {} expected {next_pos}", o.seq, o.number));
        break;
      }
      next_pos += 1;
    } else {
      if o.number != next_neg {
        e.fail("C05", "number/cursed-not-dense", format!("cursed numbers not −1,−2,… in sequence order: seq {} has number {} expected {next_neg}", o.seq, o.number));
        break;
      }
      next_neg -= 1;
      feats.insert("cursed-number");
    }
    if o.height >= ax.jubilee && o.number < 0 {
      e.fail("C05", "number/negative-after-jubilee", format!("inscription {} created at height {} (jubilee {}) has number {}", o.id, o.height, ax.jubilee, o.number));
    }
    if o.height < last_height {
      e.fail("C05", "sequence/not-in-assignment-order", format!("sequence number {} was created at height {} after a later height {last_height}", o.seq, o.height));
    }
    last_height = o.height;
    if let Some(r) = insc.by_id.get(&o.id).map(|i| &insc.all[*i])
      && r.height != o.height
    {
      e.fail("C05", "id/height-mismatch", format!("inscription {} recorded at height {} but its reveal transaction is in block {}", o.id, o.height, r.height));
    }
  }
  {
    let got: BTreeSet<(i32, u32)> = dump
      .table("INSCRIPTION_NUMBER_TO_SEQUENCE_NUMBER")
      .iter()
      .map(|(k, v)| (i32::from_le_bytes(k[..4].try_into().unwrap()), u32le(v)))
      .collect();
    let want: BTreeSet<(i32, u32)> = obs.iter().map(|o| (o.number, o.seq)).collect();
    if got != want {
      e.fail("C05", "lookup/number-to-sequence", "number → sequence number table is not the inverse of the entries' numbers".to_string());
    }
    // per-block listing
    let rows: BTreeMap<u32, u32> = dump.table("HEIGHT_TO_LAST_SEQUENCE_NUMBER").iter().map(|(k, v)| (u32le(k), u32le(v))).collect();
    for (h, last) in &rows {
      let want_last = obs.iter().filter(|o| o.height <= *h).count() as u32;
      if *last != want_last {
        e.fail("C05", "lookup/height-to-last-sequence-number", format!("height {h}: last sequence number row {last}, inscriptions created up to there {want_last}"));
        break;
      }
    }
    if let Some(maxh) = obs.iter().map(|o| o.height).max() {
      for h in [maxh, maxh.saturating_sub(1)] {
        let got = index.get_inscriptions_in_block(h).unwrap_or_default();
        let want: Vec<InscriptionId> = obs.iter().filter(|o| o.height == h).map(|o| o.id).collect();
        if got != want {
          e.fail("C05", "lookup/inscriptions-in-block", format!("get_inscriptions_in_block({h}) returns {} ids, {} were created there", got.len(), want.len()));
        }
      }
    }
  }

  // ------------- C03: location = location of the sat -------------
  for r in &insc.all {
    let Some(o) = by_id.get(&r.id) else { continue };
    let idx_in_model = insc.by_id[&r.id];
    match r.sat {
      None => {
        feats.insert("unbound");
        let ok_loc = o.satpoint.map(|(op, _)| op == ord::unbound_outpoint()).unwrap_or(false);
        if !ok_loc {
          let why = if r.zero_value_input { "zero-value-input" } else { "unrecognized-even-field" };
          e.fail("C03", format!("unbound/not-at-unbound-outpoint/{why}"), format!("inscription {} ({why}) should be unbound but is at {:?}", r.id, o.satpoint));
        }
        if o.sat.is_some() {
          e.fail("C03", "unbound/has-sat", format!("unbound inscription {} reports sat {:?}", r.id, o.sat));
        }
        if !Charm::Unbound.is_set(o.charms) {
          e.fail("C03", "unbound/charm-missing", format!("unbound inscription {} lacks the unbound charm ({})", r.id, charm_names(o.charms)));
        }
      }
      Some(sat) => {
        let want = sats.locate(sat);
        let got = o.satpoint;
        if want.is_none() {
          // destroyed sat (duplicate txid) — not produced by this suite
          continue;
        }
        if got != want {
          let lost = want.map(|(op, _)| op == OutPoint::null()).unwrap_or(false);
          let moved = r.height < sats.blocks - 1;
          let class = format!(
            "location/mismatch{}{}{}",
            if lost { "/lost" } else { "" },
            if r.pointer_effective { "/pointer" } else { "" },
            if moved { "/after-transfer" } else { "/at-creation" }
          );
          e.fail("C03", class, format!("inscription {} is reported at {:?} but its sat {sat} is at {:?}", r.id, got, want));
        }
        if cfg.sats {
          if o.sat != Some(sat) {
            e.fail("C03", "sat/mismatch", format!("inscription {} reports sat {:?}, the reference binds it to sat {sat}", r.id, o.sat));
          } else if let Ok(found) = index.find(Sat(sat)) {
            let found = found.map(|sp| (sp.outpoint, sp.offset));
            if found != got {
              e.fail("C03", "location/differs-from-sat-index", format!("inscription {} at {:?} but Index::find({sat}) = {:?}", r.id, got, found));
            }
          }
        }
        if Charm::Unbound.is_set(o.charms) {
          e.fail("C03", "bound/unbound-charm", format!("bound inscription {} carries the unbound charm", r.id));
        }
        if insc.burned.contains(&idx_in_model) {
          feats.insert("burned");
          if !Charm::Burned.is_set(o.charms) {
            e.fail("C03", "burned/charm-missing", format!("inscription {} landed in an OP_RETURN output but is not charmed burned ({})", r.id, charm_names(o.charms)));
          }
        }
        if let Some((op, _)) = want
          && op == OutPoint::null()
        {
          feats.insert("lost");
          // "reported as lost" = what Index::inscription_info reports: the stored charm, or the lost-sats
          // pseudo-output as location (ord adds the charm from the location when it answers queries; the stored
          // bit is only set when the reveal transaction itself loses the sat). An inscription that is revealed
          // and then moved into unclaimed fees inside its creation block has the location but not the stored bit.
          let reported_lost = Charm::Lost.is_set(o.charms) || got.map(|(op, _)| op == OutPoint::null()).unwrap_or(false);
          if insc.lost_at_creation.contains(&idx_in_model) && !reported_lost {
            e.fail("C03", "lost/not-reported-as-lost", format!("inscription {} was lost in its creation block but is neither charmed lost nor located at the lost-sats pseudo-output", r.id));
          }
        }
      }
    }
  }

  // ------------- C06: reinscription flag / clean first -------------
  for (sat, members) in &insc.by_sat {
    let mut ms: Vec<(&RefInsc, &Observed)> = members
      .iter()
      .filter_map(|i| {
        let r = &insc.all[*i];
        by_id.get(&r.id).map(|o| (r, *o))
      })
      .collect();
    ms.sort_by_key(|(_, o)| o.seq);
    if ms.len() > 1 {
      feats.insert("sat-with-several-inscriptions");
    }
    for (k, (r, o)) in ms.iter().enumerate() {
      if k > 0 && !Charm::Reinscription.is_set(o.charms) {
        let first = ms[0].0;
        let earlier_in_same_tx = first.id.txid == r.id.txid;
        let class = format!(
          "reinscription/not-flagged{}{}",
          if r.pointer_effective { "/pointer-relocated" } else { "/default-position" },
          if earlier_in_same_tx { "/earlier-in-same-tx" } else { "/earlier-tx" }
        );
        e.fail(
          "C06",
          class,
          format!("inscription {} (seq {}) is on sat {sat} which already carries {} (seq {}) but is not charmed reinscription ({})", r.id, o.seq, ms[0].1.id, ms[0].1.seq, charm_names(o.charms)),
        );
      }
      if k == 0 && r.clean {
        feats.insert("clean-first-inscription");
        let bad = o.number < 0 || Charm::Cursed.is_set(o.charms) || Charm::Vindicated.is_set(o.charms) || Charm::Reinscription.is_set(o.charms);
        if bad {
          e.fail("C06", "clean-first/not-blessed", format!("clean first inscription {} on sat {sat} has number {} charms {}", r.id, o.number, charm_names(o.charms)));
        }
      }
    }
  }

  // ------------- C07: provenance -------------
  let mut inverse: BTreeSet<(u32, u32)> = BTreeSet::new(); // (parent, child)
  for o in &obs {
    let mut seen = BTreeSet::new();
    for p in &o.parents {
      inverse.insert((*p, o.seq));
      if !seen.insert(*p) {
        e.fail("C07", "parent/repeated", format!("inscription {} lists parent sequence number {p} twice", o.id));
      }
      if *p >= o.seq {
        e.fail("C07", "parent/not-older", format!("inscription {} (seq {}) lists parent seq {p} which is not lower", o.id, o.seq));
      }
      let Some(po) = by_seq.get(p) else {
        e.fail("C07", "parent/unknown", format!("inscription {} lists unknown parent seq {p}", o.id));
        continue;
      };
      feats.insert("parent-recorded");
      if let Some(r) = insc.by_id.get(&o.id).map(|i| &insc.all[*i]) {
        if !r.spent_or_revealed.contains(&po.id) {
          e.fail("C07", "parent/not-spent-or-revealed-by-reveal-tx", format!("inscription {} records parent {} which its reveal transaction neither spent nor revealed", o.id, po.id));
        }
        if !r.purported_parents.contains(&po.id) {
          e.fail("C07", "parent/not-claimed", format!("inscription {} records parent {} that its envelope does not name", o.id, po.id));
        }
      }
    }
  }
  let children_rows: BTreeSet<(u32, u32)> = dump.table("SEQUENCE_NUMBER_TO_CHILDREN").iter().map(|(k, v)| (u32le(k), u32le(v))).collect();
  if children_rows != inverse {
    e.fail("C07", "children/not-inverse-of-parents", format!("children table has {} rows, parents lists imply {}", children_rows.len(), inverse.len()));
  }
  let latest: BTreeMap<u32, u32> = dump
    .table("COLLECTION_SEQUENCE_NUMBER_TO_LATEST_CHILD_SEQUENCE_NUMBER")
    .iter()
    .map(|(k, v)| (u32le(k), u32le(v)))
    .collect();
  let latest_inv: BTreeSet<(u32, u32)> = dump
    .table("LATEST_CHILD_SEQUENCE_NUMBER_TO_COLLECTION_SEQUENCE_NUMBER")
    .iter()
    .map(|(k, v)| (u32le(k), u32le(v)))
    .collect();
  let parents_with_children: BTreeSet<u32> = inverse.iter().map(|(p, _)| *p).collect();
  for p in parents_with_children {
    let Some(po) = by_seq.get(&p) else { continue };
    if po.hidden {
      continue;
    }
    feats.insert("visible-collection");
    let newest = inverse.iter().filter(|(pp, _)| *pp == p).map(|(_, c)| *c).max().unwrap();
    if latest.get(&p) != Some(&newest) {
      e.fail("C07", "collection/latest-child", format!("visible collection seq {p}: latest child recorded {:?}, most recently created child is {newest}", latest.get(&p)));
    }
    if !latest_inv.contains(&(newest, p)) || latest_inv.iter().filter(|(_, pp)| *pp == p).count() != 1 {
      e.fail("C07", "collection/latest-child-inverse", format!("latest-child → collection table inconsistent for collection seq {p}"));
    }
  }
  Some((hash, obs))
}

// ---------------------------------------------------------------------------
// execution

pub struct Variant {
  pub chain: &'static str,
  pub base: u32,
  pub jubilee: u32,
}

pub const VARIANTS: &[Variant] = &[
  Variant { chain: "regtest", base: 10, jubilee: 110 },
  Variant { chain: "regtest", base: 108, jubilee: 110 },
];

pub fn exec(w: &mut Worker, cfg: &IndexCfg, layout: &Layout, jubilee: u32, choices: &Choices, events: bool) -> Exec {
  exec_mode(w, cfg, layout, jubilee, choices, events, false)
}

/// `batch`: all enumerated blocks are indexed by ONE update() call (one commit), audited once at the end.
pub fn exec_mode(w: &mut Worker, cfg: &IndexCfg, layout: &Layout, jubilee: u32, choices: &Choices, events: bool, batch: bool) -> Exec {
  util::set_context(json!({"suite": "inscriptions", "cfg": cfg.label(), "base": w.base, "choices": choices, "templates": layout.templates, "shapes": layout.shapes, "slots": layout.slots, "one_update": batch}).to_string());
  let mut e = Exec::default();
  let Some((blocks, rendered)) = build_history(w, layout, choices, 0) else {
    e.disabled = true;
    return e;
  };
  e.rendered = rendered;
  w.restore_prefix();
  let mut sats = SatModel::default();
  let mut insc = InscModel::default();
  for b in &w.prefix_blocks {
    insc.apply_block(&mut sats, b, 0);
  }
  let dir = match w.fresh_index_dir(cfg, "exec") {
    Ok(d) => d,
    Err(err) => {
      e.fail("C16", "open/error", format!("indexing the setup prefix failed: {err:#}"));
      return e;
    }
  };
  let (tx, mut rx) = tokio::sync::mpsc::channel(1 << 16);
  let opened = if events { idx::open_with_events(&w.world, &dir, cfg, tx) } else { idx::open(&w.world, &dir, cfg) };
  let index = match opened {
    Ok(i) => i,
    Err(err) => {
      e.fail("C16", "open/error", format!("Index::open failed: {err:#}"));
      return e;
    }
  };
  let mut fold = super::events::EventFold::default();
  let mut feats: BTreeSet<&'static str> = BTreeSet::new();
  let nblocks = blocks.len();
  for (bi, txs) in blocks.into_iter().enumerate() {
    w.world.push_block(txs);
    let block = w.world.blocks.last().unwrap().clone();
    insc.apply_block(&mut sats, &block, 0);
    if batch && bi + 1 < nblocks {
      continue;
    }
    match util::catch(|| util::watched(|| index.update())) {
      Ok(Ok(())) => {}
      Ok(Err(err)) => {
        e.fail("C16", "update/error", format!("Index::update returned an error on a valid chain: {err:#}"));
        break;
      }
      Err(p) => {
        e.fail("C16", "update/panic", format!("Index::update panicked on a valid chain: {p}"));
        break;
      }
    }
    e.blocks += 1;
    let ax = AuditCtx {
      cfg,
      jubilee,
      blocks: &w.world.blocks,
    };
    match util::catch(|| audit(&index, &sats, &insc, &ax, &mut e, &mut feats)) {
      Ok(Some((hash, obs))) => {
        e.states.push(hash);
        if events && !batch {
          let evs = super::events::drain(&mut rx);
          if evs.iter().any(|ev| matches!(ev, ord::index::event::Event::InscriptionTransferred { .. })) {
            feats.insert("event:transferred");
          }
          fold.apply_block(&block, w.world.height(), evs);
          fold.compare(&index, &obs, &mut e);
        }
      }
      Ok(None) => {}
      Err(p) => e.fail("C16", "query/panic", format!("an index query panicked during the audit: {p}")),
    }
  }
  drop(index);
  for f in &feats {
    e.hit(f);
  }
  e.outcome = feats.iter().cloned().collect::<Vec<_>>().join("|");
  e
}

/// Hand-picked multi-deviation histories (per block: transaction templates, coinbase shape).
/// Each runs under both indexing modes (update() per block; one update() for all blocks).
pub type DenseSpec = &'static [(&'static [&'static str], &'static str)];

pub const DENSE: &[(&str, DenseSpec)] = &[
  ("lost-in-consecutive-blocks", &[
    (&["reveal-all-to-fee", "reveal-png"], "underpay-fees"),
    (&["reveal-all-to-fee", "reveal-two-same-input"], "underpay-half-fees"),
    (&["reveal-all-to-fee"], "underpay-fees"),
  ]),
  ("kinds-across-three-blocks", &[
    (&["reveal-png", "reveal-even-unknown", "reveal-two-same-input"], "full"),
    (&["reveal-two-same-input", "reveal-zero-value-input", "reveal-dupfield"], "full"),
    (&["reveal-both-inputs", "reinscribe-insc0", "reveal-pushnum"], "split-two"),
  ]),
  ("two-parents-then-one", &[
    (&["reveal-png", "reveal-png"], "full"),
    (&["child-of-two-parents"], "full"),
    (&["child-of-insc0-spent", "reveal-png"], "full"),
  ]),
  ("repeated-parents", &[
    (&["reveal-png", "reveal-png"], "full"),
    (&["child-parent-a-b-a"], "full"),
    (&["child-parent-a-x-a", "child-of-two-parents"], "zero-then-full"),
  ]),
  ("in-batch-spend-then-fetched-inputs", &[
    (&["reveal-png"], "full"),
    (&["move-insc0", "reveal-zero-value-input", "reveal-png"], "full"),
    (&["reveal-13-inputs", "move-insc0-behind-own"], "underpay-fees"),
  ]),
  ("moved-parent-named-by-later-reveal", &[
    (&["reveal-png", "reveal-png"], "full"),
    (&["move-insc0", "child-of-insc0-not-spent", "reveal-40-ptr-first"], "full"),
    (&["insc0-to-fee", "child-of-insc0-not-spent", "reveal-png-then-even-unknown"], "underpay-fees"),
  ]),
  ("dense-1", &[
    (&["reveal-png", "reveal-two-same-input"], "full"),
    (&["insc0-to-fee", "reinscribe-insc1"], "underpay-fees"),
    (&["reveal-even-unknown", "child-of-insc0-not-spent"], "split-two"),
  ]),
  ("dense-2", &[
    (&["reveal-png", "reveal-zero-value-input"], "full"),
    (&["reveal-to-opreturn", "move-insc0"], "split-two"),
    (&["child-of-insc0-spent-other-input", "ptr-second-output"], "underpay-half-fees"),
  ]),
  ("dense-3", &[
    (&["reveal-all-to-fee", "reveal-png"], "underpay-fees"),
    (&["reveal-both-inputs", "prev0-to-fee"], "to-opreturn"),
    (&["reinscribe-insc1", "child-of-earlier-same-tx"], "zero-then-full"),
  ]),
  ("dense-4", &[
    (&["reveal-even-unknown", "reveal-all-to-fee"], "underpay-fees"),
    (&["reveal-zero-value-input", "reveal-png"], "full"),
    (&["reveal-even-unknown-then-png", "reveal-all-to-fee"], "underpay-fees"),
  ]),
];

pub const DENSE_SLOTS: usize = 3;

pub fn dense_layout(l: usize) -> Layout {
  Layout { l, slots: DENSE_SLOTS, templates: (0..TEMPLATES.len()).collect(), shapes: COINBASE_SHAPES.len() }
}

pub fn dense_choices(spec: DenseSpec) -> Choices {
  let mut v = Vec::new();
  for (txs, cb) in spec {
    for s in 0..DENSE_SLOTS {
      v.push(match txs.get(s) {
        Some(name) => (TEMPLATES.iter().position(|t| t.name == *name).unwrap_or_else(|| panic!("unknown template {name}")) + 1) as u8,
        None => 0,
      });
    }
    v.push(COINBASE_SHAPES.iter().position(|c| c == cb).unwrap_or_else(|| panic!("unknown shape {cb}")) as u8);
  }
  v
}

/// Runs the dense family; returns (executions, states).
fn run_dense(property: &'static str, cfg: &IndexCfg, events: bool, report: &mut Report) -> (u64, BTreeSet<String>) {
  let mut jobs: Vec<(usize, usize, bool)> = Vec::new();
  for vi in 0..VARIANTS.len() {
    for di in 0..DENSE.len() {
      for batch in [false, true] {
        jobs.push((vi, di, batch));
      }
    }
  }
  let (results, _) = util::par_map(
    jobs.len(),
    None,
    |id| (id, BTreeMap::<usize, Worker>::new()),
    |(id, ws), i| {
      let (vi, di, batch) = jobs[i];
      let v = &VARIANTS[vi];
      let w = ws.entry(vi).or_insert_with(|| Worker::new(500 + *id * 4 + vi, v.chain, v.base));
      let spec = DENSE[di].1;
      util::catch(|| exec_mode(w, cfg, &dense_layout(spec.len()), v.jubilee, &dense_choices(spec), events, batch))
    },
  );
  let mut states = BTreeSet::new();
  let mut n = 0;
  let mut outcomes: BTreeMap<String, String> = BTreeMap::new();
  for (i, r) in results.into_iter().enumerate() {
    let (vi, di, batch) = jobs[i];
    let name = DENSE[di].0;
    let tag = format!("{name}@base{}{}", VARIANTS[vi].base, if batch { "/one-update" } else { "/per-block" });
    match r {
      Some(Ok(e)) if !e.disabled => {
        n += 1;
        states.extend(e.states.iter().cloned());
        outcomes.insert(tag.clone(), e.outcome.clone());
        for (prop, class, what) in e.violations {
          let (prop, class) = if prop == "C16" && class.starts_with("update/") && property != "C16" { (property.to_string(), format!("index-stuck/{class}")) } else { (prop, class) };
          if prop == property {
            report.violation(class, format!("[{tag}] {what}"), json!({"suite": "inscriptions-dense", "dense": name, "base": VARIANTS[vi].base, "batch": batch, "history": e.rendered}));
          }
        }
      }
      Some(Ok(_)) => {
        println!("MACHINERY: dense history {tag} is disabled");
        report.violation(format!("{property}/machinery-dense-disabled"), format!("dense history {tag} cannot be built"), json!({}));
      }
      Some(Err(p)) => {
        println!("MACHINERY: harness panic on dense history {tag}: {p}");
        report.violation(format!("{property}/machinery-panic"), format!("harness panicked on dense history {tag}: {p}"), json!({}));
      }
      None => {}
    }
  }
  report.set("inscriptions.dense.executions", n);
  report.set("inscriptions.dense.outcomes", json!(outcomes));
  (n, states)
}

pub fn layout_for(ctx: &Ctx, k: usize) -> Layout {
  let core_only = !ctx.thorough() && k >= 2;
  let templates: Vec<usize> = TEMPLATES
    .iter()
    .enumerate()
    .filter(|(_, t)| !core_only || t.core)
    .map(|(i, _)| i)
    .collect();
  Layout {
    l: 2,
    slots: 2,
    templates,
    shapes: if core_only { 3 } else { COINBASE_SHAPES.len() },
  }
}

pub fn run(ctx: &Ctx, property: &'static str) -> Report {
  let mut report = Report::new(property, &ctx.tier, "model_checking");
  let events = property == "C37";
  let cfg = IndexCfg {
    runes: events,
    ..IndexCfg::all()
  };

  if let Some(path) = &ctx.replay {
    let v: Value = serde_json::from_str(&std::fs::read_to_string(path).expect("read replay")).expect("json");
    let r = &v["replay"];
    if let Some(name) = r["dense"].as_str().filter(|_| r["suite"] == "inscriptions-dense") {
      let spec = DENSE.iter().find(|(n, _)| *n == name).expect("unknown dense history").1;
      let base = r["base"].as_u64().unwrap_or(10) as u32;
      let mut w = Worker::new(0, "regtest", base);
      let e = exec_mode(&mut w, &cfg, &dense_layout(spec.len()), 110, &dense_choices(spec), events, r["batch"].as_bool().unwrap_or(false));
      println!("replay history: {}", e.rendered);
      for (p, c, what) in &e.violations {
        println!("  [{p}] {c}: {what}");
        if p == property {
          report.violation(c.clone(), what.clone(), r.clone());
        }
      }
      report.set("states", e.states.len().max(1) as u64);
      report.set("transitions", e.blocks.max(1));
      report.set("traces_validated_against_impl", 1u64);
      report.sample(e.rendered);
      return report;
    }
    let choices: Choices = r["choices"].as_array().unwrap().iter().map(|x| x.as_u64().unwrap() as u8).collect();
    let base = r["base"].as_u64().unwrap_or(10) as u32;
    let templates: Vec<usize> = r["templates"].as_array().map(|a| a.iter().map(|x| x.as_u64().unwrap() as usize).collect()).unwrap_or_else(|| (0..TEMPLATES.len()).collect());
    let shapes = r["shapes"].as_u64().unwrap_or(COINBASE_SHAPES.len() as u64) as usize;
    let layout = Layout { l: 2, slots: 2, templates, shapes };
    let mut w = Worker::new(0, "regtest", base);
    let e = exec_mode(&mut w, &cfg, &layout, 110, &choices, events, r["batch"].as_bool().unwrap_or(false));
    println!("replay history: {}", e.rendered);
    for (p, c, what) in &e.violations {
      println!("  [{p}] {c}: {what}");
      if p == property {
        report.violation(c.clone(), what.clone(), r.clone());
      }
    }
    report.set("states", e.states.len().max(1) as u64);
    report.set("transitions", e.blocks.max(1));
    report.set("traces_validated_against_impl", 1u64);
    report.sample(e.rendered);
    return report;
  }

  let budget_total: u64 = if ctx.thorough() { 900 } else { 50 };
  let mut all_states: BTreeSet<String> = BTreeSet::new();
  let mut exhaustive = true;
  let mut traces = 0;
  // stage A: all single deviations over the full alphabet; stage B: pairs (core alphabet in quick tier)
  // (k_min, k_max, one update() for all blocks)
  let stages: Vec<(usize, usize, bool)> = if ctx.thorough() { vec![(1, 2, true), (0, 3, false)] } else { vec![(0, 1, false), (2, 2, false)] };
  for v in VARIANTS {
    for (kmin, kmax, batch) in &stages {
      let layout = layout_for(ctx, *kmax);
      let spec = RunSpec {
        property,
        suite: "inscriptions",
        cfg_label: cfg.label(),
        alts: layout.alts(),
        k: *kmax,
        k_min: *kmin,
        budget_secs: budget_total / (VARIANTS.len() as u64 * stages.len() as u64),
      };
      let mut sub = Report::new(property, &ctx.tier, "model_checking");
      let totals: Totals = run_histories(&spec, &mut sub, |id| Worker::new(id, v.chain, v.base), |w, c| exec_mode(w, &cfg, &layout, v.jubilee, c, events, *batch));
      // carry replay parameters
      for mut viol in sub.violations.drain(..) {
        viol.replay["base"] = json!(v.base);
        viol.replay["templates"] = json!(layout.templates);
        viol.replay["shapes"] = json!(layout.shapes);
        viol.replay["batch"] = json!(*batch);
        report.violations.push(viol);
      }
      for s in sub.samples.drain(..) {
        report.sample(s);
      }
      let tag = format!("inscriptions.{}-base{}.k{}{}", v.chain, v.base, kmax, if *batch { ".one-update" } else { "" });
      fold_totals(&mut report, &tag, &totals, *kmax);
      all_states.extend(totals.states.iter().cloned());
      traces += totals.executions;
      if totals.capped {
        exhaustive = false;
      }
    }
  }
  let (dn, dstates) = run_dense(property, &cfg, events, &mut report);
  traces += dn;
  all_states.extend(dstates);
  report.set("states", all_states.len().max(1) as u64);
  report.set("traces_validated_against_impl", traces);
  report.set("distinct_nontrivial", all_states.len().max(2) as u64);
  report.set("exhaustive", exhaustive);
  report.set(
    "rule",
    format!(
      "every history of 2 blocks (2 transaction slots + coinbase shape each) after a fixed prefix, with at most K deviations from \
       'empty block, coinbase claims everything'; alphabet = {} transaction templates (reveals x envelope kinds x pointers x parents, \
       reinscriptions, transfers) and {} coinbase shapes; quick tier explores K<=1 over the full alphabet and K=2 over the core \
       alphabet ({} templates, 3 coinbase shapes); two chain positions (regtest base 10 = cursed era, base 108 = straddling the jubilee at 110); \
       each history runs on the real Index with update() after every block, in lock-step with the sat-based reference model; \
       additionally {} hand-picked 3-block histories with 5-8 deviations each run at both positions under both indexing modes \
       (update() per block; one update() = one commit for all three blocks); \
       states = distinct index content hashes; distinct_nontrivial = distinct states",
      TEMPLATES.len(),
      COINBASE_SHAPES.len(),
      TEMPLATES.iter().filter(|t| t.core).count(),
      DENSE.len()
    ),
  );
  report.set(
    "space",
    json!({"templates": TEMPLATES.iter().map(|t| t.name).collect::<Vec<_>>(), "coinbase_shapes": COINBASE_SHAPES, "index": cfg.label()}),
  );
  report.assume("environment = mockcore JSON-RPC driven by the harness node simulator; signatures, taproot commitments and coinbase maturity are not validated by ord and not modelled");
  report.assume("envelopes are taken from ord's own ParsedEnvelope::from_transaction (the parser is property C27)");
  report.assume("ordering of sequence numbers inside one block is not modelled beyond density and monotonicity in height");
  report
}
