//! C15: optional indexes do not change inscription or rune results.
//!
//! Every history of the inscription and rune suites (deviation-bounded) is
//! indexed under every combination of {index-sats, index-addresses,
//! index-transactions} (runes on) plus the node-fetch configuration (no sat /
//! address index and the first inscription height moved to the end of the setup
//! prefix, so spent values come from the node). The `inscriptions+runes`
//! projection must be identical across configurations after every block.

use {
  super::{Choices, Exec, RunSpec, Totals, fold_totals, inscriptions, run_histories, runes},
  crate::{
    Ctx,
    evidence::Report,
    idx::{self, Dump, IndexCfg},
    util,
  },
  bitcoin::Transaction,
  ord::Index,
  ordinals::Charm,
  serde_json::{Value, json},
  std::collections::BTreeSet,
};

fn sat_derived_mask() -> u16 {
  Charm::Coin.flag()
    | Charm::Uncommon.flag()
    | Charm::Rare.flag()
    | Charm::Epic.flag()
    | Charm::Legendary.flag()
    | Charm::Mythic.flag()
    | Charm::Nineball.flag()
    | Charm::Palindrome.flag()
}

/// The projection named by the property: ids, numbers, locations, parents, fees, heights,
/// non-sat-derived charms; rune entries and balances.
pub fn projection(index: &Index) -> Result<Value, String> {
  let dump = Dump::take(index).map_err(|e| format!("dump: {e:#}"))?;
  let obs = inscriptions::observe(index, &dump)?;
  let mask = !sat_derived_mask();
  let insc: Vec<Value> = obs
    .iter()
    .map(|o| {
      json!({
        "id": o.id.to_string(),
        "seq": o.seq,
        "number": o.number,
        "satpoint": o.satpoint.map(|(op, off)| format!("{op}:{off}")),
        "parents": o.parents,
        "fee": o.fee,
        "height": o.height,
        "charms": o.charms & mask,
      })
    })
    .collect();
  let runes: Vec<Value> = index
    .runes()
    .map_err(|e| format!("runes: {e:#}"))?
    .iter()
    .map(|(id, e)| json!({"id": id.to_string(), "entry": format!("{e:?}")}))
    .collect();
  let balances: Vec<Value> = index
    .get_rune_balances()
    .map_err(|e| format!("balances: {e:#}"))?
    .iter()
    .map(|(op, l)| json!({"outpoint": op.to_string(), "balances": l.iter().map(|(id, a)| format!("{id}={a}")).collect::<Vec<_>>()}))
    .collect();
  let raw = |name: &str| -> Vec<String> { dump.table(name).iter().map(|(k, v)| format!("{}:{}", hex::encode(k), hex::encode(v))).collect() };
  Ok(json!({
    "inscriptions": insc,
    "runes": runes,
    "balances": balances,
    "children": raw("SEQUENCE_NUMBER_TO_CHILDREN"),
    "number_to_seq": raw("INSCRIPTION_NUMBER_TO_SEQUENCE_NUMBER"),
    "blessed": dump.statistic(idx::STAT_BLESSED),
    "cursed": dump.statistic(idx::STAT_CURSED),
    "unbound": dump.statistic(idx::STAT_UNBOUND),
  }))
}

pub fn config_set(full: bool, node_fetch_height: u32) -> Vec<IndexCfg> {
  let mut v = Vec::new();
  let combos: Vec<(bool, bool, bool)> = if full {
    (0..8).map(|m| (m & 1 != 0, m & 2 != 0, m & 4 != 0)).collect()
  } else {
    vec![(false, false, false), (true, true, true)]
  };
  for (sats, addresses, transactions) in combos {
    v.push(IndexCfg { sats, addresses, transactions, ..IndexCfg::all() });
  }
  v.push(IndexCfg {
    sats: false,
    addresses: false,
    transactions: false,
    first_inscription_height: Some(node_fetch_height),
    ..IndexCfg::all()
  });
  v
}

fn first_diff(a: &Value, b: &Value) -> String {
  for key in ["inscriptions", "runes", "balances", "children", "number_to_seq", "blessed", "cursed", "unbound"] {
    if a[key] != b[key] {
      if let (Some(x), Some(y)) = (a[key].as_array(), b[key].as_array()) {
        for i in 0..x.len().max(y.len()) {
          if x.get(i) != y.get(i) {
            return format!("{key}[{i}]: {} vs {}", x.get(i).unwrap_or(&Value::Null), y.get(i).unwrap_or(&Value::Null));
          }
        }
      }
      return format!("{key}: {} vs {}", a[key], b[key]);
    }
  }
  "identical".into()
}

/// Runs `blocks` under every configuration and compares projections block by block.
pub fn exec_configs(
  e: &mut Exec,
  cfgs: &[IndexCfg],
  blocks: &[Vec<Transaction>],
  mut fresh: impl FnMut(&IndexCfg) -> Result<(Index, std::path::PathBuf), String>,
  mut push: impl FnMut(&[Transaction]),
  mut restore: impl FnMut(),
  batch: bool,
) {
  let mut reference: Option<(String, Vec<Value>)> = None;
  for cfg in cfgs {
    util::set_context(json!({"engine": "configs", "cfg": cfg.label(), "history": e.rendered, "one_update": batch}).to_string());
    restore();
    let (index, _dir) = match fresh(cfg) {
      Ok(x) => x,
      Err(err) => {
        e.fail("C16", "open/error", format!("{}: {err}", cfg.label()));
        continue;
      }
    };
    let mut projections = Vec::new();
    let mut failed = false;
    for (bi, txs) in blocks.iter().enumerate() {
      push(txs);
      // batch: ONE update() for all blocks, compared once at the end
      if batch && bi + 1 < blocks.len() {
        continue;
      }
      match util::catch(|| util::watched(|| index.update())) {
        Ok(Ok(())) => {}
        Ok(Err(err)) => {
          e.fail("C16", "update/error", format!("configuration {}: Index::update returned an error on a valid chain: {err:#}", cfg.label()));
          failed = true;
          break;
        }
        Err(p) => {
          e.fail("C16", "update/panic", format!("configuration {}: Index::update panicked on a valid chain: {p}", cfg.label()));
          failed = true;
          break;
        }
      }
      e.blocks += 1;
      match projection(&index) {
        Ok(p) => {
          e.states.push(util::sha256_hex(format!("{}{}", cfg.label(), p).as_bytes()));
          projections.push(p);
        }
        Err(msg) => {
          e.fail("C15", "projection/error", format!("configuration {}: {msg}", cfg.label()));
          failed = true;
          break;
        }
      }
    }
    drop(index);
    if failed {
      continue;
    }
    match &reference {
      None => reference = Some((cfg.label(), projections)),
      Some((rl, rp)) => {
        for (i, (a, b)) in rp.iter().zip(projections.iter()).enumerate() {
          if a != b {
            let node_fetch = cfg.first_inscription_height.is_some();
            let class = if node_fetch { "results-differ/node-fetch-vs-local-tracking" } else { "results-differ/optional-index" };
            e.fail("C15", class, format!("after block {i}: configuration {} vs {}: {}", rl, cfg.label(), first_diff(a, b)));
            break;
          }
        }
      }
    }
  }
  ord::index::verif::knobs::set_first_inscription_height(None);
}

fn exec_insc(w: &mut inscriptions::Worker, cfgs: &[IndexCfg], layout: &inscriptions::Layout, choices: &Choices) -> Exec {
  exec_insc_mode(w, cfgs, layout, choices, false)
}

fn exec_insc_mode(w: &mut inscriptions::Worker, cfgs: &[IndexCfg], layout: &inscriptions::Layout, choices: &Choices, batch: bool) -> Exec {
  let mut e = Exec::default();
  let Some((blocks, rendered)) = inscriptions::build_history(w, layout, choices, 0) else {
    e.disabled = true;
    return e;
  };
  e.rendered = rendered;
  let wp: *mut inscriptions::Worker = w;
  // SAFETY: the three closures are called strictly sequentially by exec_configs
  exec_configs(
    &mut e,
    cfgs,
    &blocks,
    |cfg| unsafe {
      let w = &mut *wp;
      let dir = w.fresh_index_dir(cfg, "exec").map_err(|e| format!("{e:#}"))?;
      let index = idx::open(&w.world, &dir, cfg).map_err(|e| format!("{e:#}"))?;
      Ok((index, dir))
    },
    |txs| unsafe { (*wp).world.push_block(txs.to_vec()); },
    || unsafe { (*wp).restore_prefix() },
    batch,
  );
  e.outcome = format!("{} inscriptions", e.states.len());
  e
}

fn exec_runes(w: &mut runes::Worker, cfgs: &[IndexCfg], layout: &runes::Layout, choices: &Choices) -> Exec {
  exec_runes_mode(w, cfgs, layout, choices, false)
}

fn exec_runes_mode(w: &mut runes::Worker, cfgs: &[IndexCfg], layout: &runes::Layout, choices: &Choices, batch: bool) -> Exec {
  let mut e = Exec::default();
  let Some((blocks, rendered)) = runes::build_history(w, layout, choices) else {
    e.disabled = true;
    return e;
  };
  e.rendered = rendered;
  let wp: *mut runes::Worker = w;
  exec_configs(
    &mut e,
    cfgs,
    &blocks,
    |cfg| unsafe {
      let w = &mut *wp;
      let dir = w.fresh_index_dir(cfg, "exec").map_err(|e| format!("{e:#}"))?;
      let index = idx::open(&w.world, &dir, cfg).map_err(|e| format!("{e:#}"))?;
      Ok((index, dir))
    },
    |txs| unsafe { (*wp).world.push_block(txs.to_vec()); },
    || unsafe { (*wp).restore_prefix() },
    batch,
  );
  e.outcome = format!("{} states", e.states.len());
  e
}

pub fn run(ctx: &Ctx) -> Report {
  let property = "C15";
  let mut report = Report::new(property, &ctx.tier, "model_checking");
  let budget_total: u64 = if ctx.thorough() { 1200 } else { 75 };

  if let Some(path) = &ctx.replay {
    let v: Value = serde_json::from_str(&std::fs::read_to_string(path).expect("read replay")).expect("json");
    let r = &v["replay"];
    if let Some(name) = r["dense"].as_str() {
      let batch = r["batch"].as_bool().unwrap_or(false);
      let e = if r["suite"] == "runes-dense" {
        let spec = runes::DENSE.iter().find(|(n, _)| *n == name).expect("dense").1;
        exec_runes_mode(&mut runes::Worker::new(0), &config_set(true, runes::BASE + 1), &runes::dense_layout(spec.len()), &runes::dense_choices(spec), batch)
      } else {
        let spec = inscriptions::DENSE.iter().find(|(n, _)| *n == name).expect("dense").1;
        exec_insc_mode(&mut inscriptions::Worker::new(0, "regtest", 10), &config_set(true, 11), &inscriptions::dense_layout(spec.len()), &inscriptions::dense_choices(spec), batch)
      };
      println!("replay history: {}", e.rendered);
      for (p, c, what) in &e.violations {
        println!("  [{p}] {c}: {what}");
        if p == property {
          report.violation(c.clone(), what.clone(), r.clone());
        }
      }
      report.set("states", e.states.len().max(1) as u64);
      report.set("transitions", e.blocks.max(1));
      report.set("traces_validated_against_impl", 1u64);
      report.sample(e.rendered);
      return report;
    }
    let choices: Choices = r["choices"].as_array().unwrap().iter().map(|x| x.as_u64().unwrap() as u8).collect();
    let templates: Vec<usize> = r["templates"].as_array().unwrap().iter().map(|x| x.as_u64().unwrap() as usize).collect();
    let shapes = r["shapes"].as_u64().unwrap() as usize;
    let l = r["l"].as_u64().unwrap_or(2) as usize;
    let e = if r["suite"] == "runes" {
      let layout = runes::Layout { l, slots: 2, templates, shapes };
      let mut w = runes::Worker::new(0);
      exec_runes(&mut w, &config_set(true, runes::BASE + 1), &layout, &choices)
    } else {
      let base = r["base"].as_u64().unwrap_or(10) as u32;
      let layout = inscriptions::Layout { l, slots: 2, templates, shapes };
      let mut w = inscriptions::Worker::new(0, "regtest", base);
      exec_insc(&mut w, &config_set(true, base + 1), &layout, &choices)
    };
    println!("replay history: {}", e.rendered);
    for (p, c, what) in &e.violations {
      println!("  [{p}] {c}: {what}");
      if p == property {
        report.violation(c.clone(), what.clone(), r.clone());
      }
    }
    report.set("states", e.states.len().max(1) as u64);
    report.set("transitions", e.blocks.max(1));
    report.set("traces_validated_against_impl", 1u64);
    report.sample(e.rendered);
    return report;
  }

  let mut all_states: BTreeSet<String> = BTreeSet::new();
  let mut exhaustive = true;
  let mut traces = 0;
  // (suite, k_min, k_max, full config set)
  let stages: Vec<(&str, usize, usize, bool)> = if ctx.thorough() {
    vec![("inscriptions", 0, 2, true), ("runes", 0, 2, true)]
  } else {
    vec![("inscriptions", 0, 1, true), ("runes", 0, 1, true), ("inscriptions", 2, 2, false)]
  };
  for (suite, kmin, kmax, full) in &stages {
    let mut sub = Report::new(property, &ctx.tier, "model_checking");
    let totals: Totals;
    let extra: Value;
    if *suite == "inscriptions" {
      let base = 10;
      let layout = inscriptions::layout_for(ctx, *kmax);
      let cfgs = config_set(*full, base + 1);
      let spec = RunSpec { property, suite, cfg_label: format!("{} configurations", cfgs.len()), alts: layout.alts(), k: *kmax, k_min: *kmin, budget_secs: budget_total / stages.len() as u64 };
      totals = run_histories(&spec, &mut sub, |id| inscriptions::Worker::new(id, "regtest", base), |w, c| exec_insc(w, &cfgs, &layout, c));
      extra = json!({"suite": "inscriptions", "base": base, "templates": layout.templates, "shapes": layout.shapes, "l": layout.l});
      report.set(&format!("configs.{suite}.k{kmax}"), json!(cfgs.iter().map(|c| c.label()).collect::<Vec<_>>()));
    } else {
      let layout = runes::layout_for(ctx, *kmax, 2);
      let cfgs = config_set(*full, runes::BASE + 1);
      let spec = RunSpec { property, suite, cfg_label: format!("{} configurations", cfgs.len()), alts: layout.alts(), k: *kmax, k_min: *kmin, budget_secs: budget_total / stages.len() as u64 };
      totals = run_histories(&spec, &mut sub, runes::Worker::new, |w, c| exec_runes(w, &cfgs, &layout, c));
      extra = json!({"suite": "runes", "templates": layout.templates, "shapes": layout.shapes, "l": layout.l});
      report.set(&format!("configs.{suite}.k{kmax}"), json!(cfgs.iter().map(|c| c.label()).collect::<Vec<_>>()));
    }
    for mut viol in sub.violations.drain(..) {
      for (k, v) in extra.as_object().unwrap() {
        viol.replay[k] = v.clone();
      }
      report.violations.push(viol);
    }
    for s in sub.samples.drain(..) {
      report.sample(s);
    }
    fold_totals(&mut report, &format!("{suite}.k{kmax}"), &totals, *kmax);
    all_states.extend(totals.states.iter().cloned());
    traces += totals.executions;
    if totals.capped {
      exhaustive = false;
    }
  }
  // dense multi-deviation families under every configuration, update() per block and one update() for all blocks
  {
    let mut jobs: Vec<(bool, usize, bool)> = Vec::new(); // (runes?, dense index, batch)
    for d in 0..inscriptions::DENSE.len() {
      for b in [false, true] {
        jobs.push((false, d, b));
      }
    }
    for d in 0..runes::DENSE.len() {
      for b in [false, true] {
        jobs.push((true, d, b));
      }
    }
    let (results, _) = util::par_map(
      jobs.len(),
      None,
      |id| id,
      |id, i| {
        let (is_runes, d, batch) = jobs[i];
        util::catch(|| {
          if is_runes {
            let spec = runes::DENSE[d].1;
            exec_runes_mode(&mut runes::Worker::new(800 + *id), &config_set(true, runes::BASE + 1), &runes::dense_layout(spec.len()), &runes::dense_choices(spec), batch)
          } else {
            let spec = inscriptions::DENSE[d].1;
            exec_insc_mode(&mut inscriptions::Worker::new(800 + *id, "regtest", 10), &config_set(true, 11), &inscriptions::dense_layout(spec.len()), &inscriptions::dense_choices(spec), batch)
          }
        })
      },
    );
    let mut n = 0u64;
    for (i, r) in results.into_iter().enumerate() {
      let (is_runes, d, batch) = jobs[i];
      let name = if is_runes { runes::DENSE[d].0 } else { inscriptions::DENSE[d].0 };
      let tag = format!("{}/{name}{}", if is_runes { "runes" } else { "inscriptions" }, if batch { "/one-update" } else { "/per-block" });
      match r {
        Some(Ok(e)) if !e.disabled => {
          n += 1;
          all_states.extend(e.states.iter().cloned());
          report.add("transitions", e.blocks);
          for (p, c, what) in &e.violations {
            let (p, c) = if p == "C16" && c.starts_with("update/") { (property.to_string(), format!("index-stuck/{c}")) } else { (p.clone(), c.clone()) };
            if p == property {
              report.violation(c, format!("[{tag}] {what}"), json!({"suite": if is_runes { "runes-dense" } else { "inscriptions-dense" }, "dense": name, "batch": batch}));
            }
          }
        }
        Some(Ok(_)) => report.violation("machinery/dense-disabled", format!("dense history {tag} cannot be built"), json!({})),
        Some(Err(p)) => report.violation("machinery/harness-panic", format!("dense history {tag}: {p}"), json!({})),
        None => {}
      }
    }
    traces += n;
    report.set("dense.executions", n);
  }
  report.set("states", all_states.len().max(1) as u64);
  report.set("traces_validated_against_impl", traces);
  report.set("distinct_nontrivial", all_states.len().max(2) as u64);
  report.set("exhaustive", exhaustive);
  report.set(
    "rule",
    "every history of the inscription suite and the rune suite with <=K deviations (same alphabets as C03 / C08) is indexed once per configuration: all 8 combinations of \
     {index-sats, index-addresses, index-transactions} with runes on, plus the node-fetch configuration (no sat/address index, first inscription height moved to the first \
     enumerated block through the verif knob so that every spent setup output is fetched from the node); quick: K<=1 under all 9 configurations, K=2 (core alphabet) under \
     {none, all, node-fetch}; the projection (ids, numbers, satpoints, parents, fees, heights, non-sat-derived charms, children / number / per-block tables, rune entries and balances) \
     must be identical after every block; plus the dense 3-block families of both suites under all 9 configurations, indexed block by block and by one update() for all three blocks \
     (so that outputs created earlier in the same uncommitted batch are spent next to node-fetched inputs); states = distinct (configuration, projection) pairs reached",
  );
  report.assume("environment = mockcore JSON-RPC; the node-fetch path is reached through a guarded knob that overrides Settings::first_inscription_height on the worker thread");
  report.assume("the setup prefix loses no sats, so lost-sat offsets before the first inscription height are zero in every configuration");
  report
}
