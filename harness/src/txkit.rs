//! Transaction / script / witness builders. No randomness anywhere.

use bitcoin::{
  Amount, OutPoint, ScriptBuf, Sequence, Transaction, TxIn, TxOut, Witness,
  absolute::LockTime,
  opcodes,
  script::{self, PushBytesBuf},
  transaction::Version,
};

/// Fixed script alphabet.
#[derive(Clone, Copy, Debug, PartialEq, Eq, Hash, PartialOrd, Ord)]
pub enum Spk {
  /// p2wpkh with hash 0x11..
  A,
  /// p2tr with x-only key bytes 0x22..
  B,
  /// p2tr with x-only key bytes 0x33..
  C,
  /// empty script
  Empty,
  /// OP_RETURN (bare)
  OpReturn,
  /// OP_RETURN with a data push (not a runestone)
  OpReturnData,
}

impl Spk {
  pub fn script(self) -> ScriptBuf {
    match self {
      Spk::A => ScriptBuf::from_bytes([vec![0x00, 0x14], vec![0x11; 20]].concat()),
      Spk::B => ScriptBuf::from_bytes([vec![0x51, 0x20], vec![0x22; 32]].concat()),
      Spk::C => ScriptBuf::from_bytes([vec![0x51, 0x20], vec![0x33; 32]].concat()),
      Spk::Empty => ScriptBuf::new(),
      Spk::OpReturn => ScriptBuf::from_bytes(vec![0x6a]),
      Spk::OpReturnData => ScriptBuf::from_bytes(vec![0x6a, 0x02, 0xde, 0xad]),
    }
  }
}

pub fn txout(value: u64, spk: ScriptBuf) -> TxOut {
  TxOut {
    value: Amount::from_sat(value),
    script_pubkey: spk,
  }
}

pub fn txin(outpoint: OutPoint, witness: Witness) -> TxIn {
  TxIn {
    previous_output: outpoint,
    script_sig: ScriptBuf::new(),
    sequence: Sequence::MAX,
    witness,
  }
}

pub fn tx(inputs: Vec<TxIn>, outputs: Vec<TxOut>) -> Transaction {
  Transaction {
    version: Version(2),
    lock_time: LockTime::ZERO,
    input: inputs,
    output: outputs,
  }
}

/// Coinbase with a BIP34-like height push plus a tag (so that two coinbases
/// at the same height on different branches differ).
pub fn coinbase(height: u32, tag: u32, outputs: Vec<TxOut>) -> Transaction {
  let script_sig = script::Builder::new()
    .push_int(height.into())
    .push_int(tag.into())
    .into_script();
  Transaction {
    version: Version(2),
    lock_time: LockTime::ZERO,
    input: vec![TxIn {
      previous_output: OutPoint::null(),
      script_sig,
      sequence: Sequence::MAX,
      witness: Witness::new(),
    }],
    output: outputs,
  }
}

/// A script-path-looking witness: [tapscript, control block].
pub fn tapscript_witness(script: &[u8]) -> Witness {
  let mut w = Witness::new();
  w.push(script);
  w.push([0xc0u8; 33]);
  w
}

pub fn push(builder: script::Builder, data: &[u8]) -> script::Builder {
  builder.push_slice(PushBytesBuf::try_from(data.to_vec()).unwrap())
}

/// `OP_FALSE OP_IF "ord" <fields...> [<> body...] OP_ENDIF` from raw pushes.
pub fn envelope_script(fields: &[(Vec<u8>, Vec<u8>)], body: Option<&[u8]>) -> ScriptBuf {
  let mut b = script::Builder::new()
    .push_opcode(opcodes::OP_FALSE)
    .push_opcode(opcodes::all::OP_IF);
  b = push(b, b"ord");
  for (k, v) in fields {
    b = push(b, k);
    b = push(b, v);
  }
  if let Some(body) = body {
    b = push(b, &[]);
    for chunk in body.chunks(520) {
      b = push(b, chunk);
    }
  }
  b.push_opcode(opcodes::all::OP_ENDIF).into_script()
}
