//! C32: rune names correspond one-to-one with integers and print/parse
//! consistently; spacers; commitment; reserved names.
//!
//! Reference (docs/src/runes/specification.md): names are modified base-26,
//! A=0 … Z=25, AA=26 …; i.e. the n-th name (from 0) in shortlex order over
//! A..Z.  The reference encoder/decoder below works on a 256-bit (hi, lo) pair
//! so that names beyond 2^128-1 are recognised as such rather than wrapped.

use {
  crate::{Ctx, evidence::Report, util},
  ordinals::{Rune, SpacedRune},
  serde_json::{Value, json},
  std::collections::BTreeSet,
};

type Viol = (String, String, Value);

/// 256-bit accumulator: value = hi * 2^128 + lo.
#[derive(Clone, Copy, Debug, PartialEq, Eq)]
struct Wide {
  hi: u128,
  lo: u128,
}

impl Wide {
  fn mul_small_add(self, m: u128, a: u128) -> Option<Wide> {
    // split lo into 64-bit halves to multiply by m < 2^32 without overflow
    let l0 = self.lo & u64::MAX as u128;
    let l1 = self.lo >> 64;
    let p0 = l0 * m + a; // < 2^64 * 2^32 + 2^32
    let p1 = l1 * m + (p0 >> 64);
    let lo = (p0 & u64::MAX as u128) | ((p1 & u64::MAX as u128) << 64);
    let carry = p1 >> 64;
    let hi = self.hi.checked_mul(m)?.checked_add(carry)?;
    Some(Wide { hi, lo })
  }
}

/// Reference value of a name: shortlex rank among A..Z strings, minus nothing
/// (rank 0 = "A").  Returns Err(()) for characters outside A..Z or the empty
/// string, Ok(None) when the value exceeds 2^128-1.
pub fn ref_decode(name: &str) -> Result<Option<u128>, ()> {
  if name.is_empty() {
    return Err(());
  }
  // bijective base 26 value v (A=1..Z=26), rank = v - 1
  let mut v = Wide { hi: 0, lo: 0 };
  for b in name.bytes() {
    if !b.is_ascii_uppercase() {
      return Err(());
    }
    match v.mul_small_add(26, (b - b'A') as u128 + 1) {
      Some(w) => v = w,
      None => return Ok(None), // beyond 2^256: certainly out of range
    }
  }
  // rank = v - 1 must fit in 128 bits: v <= 2^128
  if v.hi == 0 {
    Ok(Some(v.lo - 1)) // v >= 1
  } else if v.hi == 1 && v.lo == 0 {
    Ok(Some(u128::MAX))
  } else {
    Ok(None)
  }
}

/// Reference name of an integer.
pub fn ref_encode(mut n: u128) -> String {
  let mut rev = Vec::new();
  loop {
    rev.push(b'A' + (n % 26) as u8);
    n /= 26;
    if n == 0 {
      break;
    }
    n -= 1;
  }
  rev.reverse();
  String::from_utf8(rev).unwrap()
}

fn ref_commitment(mut n: u128) -> Vec<u8> {
  let mut v = Vec::new();
  while n > 0 {
    v.push((n & 0xff) as u8);
    n >>= 8;
  }
  v
}

/// First name of length `len` = 26 + 26^2 + … + 26^(len-1).
fn first_of_length(len: u32) -> Option<u128> {
  let mut sum: u128 = 0;
  let mut p: u128 = 1;
  for _ in 1..len {
    p = p.checked_mul(26)?;
    sum = sum.checked_add(p)?;
  }
  Some(sum)
}

#[derive(Default)]
struct Stats {
  evaluations: u64,
  names_enumerated: u64,
  ints: u64,
  spaced: u64,
  spacers_dropped: u64,
  reserved_true: u64,
  reserved_false: u64,
  commit: u64,
  display_differs: u64,
  unrepresentable: u64,
}

fn check_int(n: u128, reserved_from: u128, stats: &mut Stats, viol: &mut Vec<Viol>) {
  stats.ints += 1;
  stats.evaluations += 4;
  let replay = json!({"kind":"int","n":n.to_string()});
  let exp_name = ref_encode(n);
  match util::catch(|| {
    let r = Rune(n);
    let printed = r.to_string();
    let back = printed.parse::<Rune>();
    (printed, back, r.commitment(), r.is_reserved())
  }) {
    Err(p) => viol.push((
      "rune/panic".into(),
      format!("Rune({n}) display/parse/commitment/is_reserved panicked: {p}"),
      replay,
    )),
    Ok((printed, back, commitment, reserved)) => {
      if printed != exp_name {
        viol.push((
          "rune/display-not-base26".into(),
          format!("Rune({n}) prints as {printed}, modified base-26 name is {exp_name}"),
          replay.clone(),
        ));
      }
      match back {
        Ok(r) if r.0 == n => {}
        other => viol.push((
          "rune/print-parse-mismatch".into(),
          format!("Rune({n}) prints as {printed} which parses to {other:?}"),
          replay.clone(),
        )),
      }
      stats.commit += 1;
      if commitment != ref_commitment(n) {
        viol.push((
          "rune/commitment".into(),
          format!(
            "Rune({n}).commitment() = {}, little-endian without trailing zeros = {}",
            util::hex(&commitment),
            util::hex(&ref_commitment(n))
          ),
          replay.clone(),
        ));
      }
      if reserved {
        stats.reserved_true += 1;
      } else {
        stats.reserved_false += 1;
      }
      if reserved != (n >= reserved_from) {
        viol.push((
          "rune/reserved".into(),
          format!(
            "Rune({n}).is_reserved() = {reserved}; first 27-letter name is {reserved_from}"
          ),
          replay,
        ));
      }
    }
  }
}

fn check_name(name: &str, expect: u128, stats: &mut Stats, viol: &mut Vec<Viol>) {
  stats.names_enumerated += 1;
  stats.evaluations += 2;
  let replay = json!({"kind":"name","name":name, "expect": expect.to_string()});
  match util::catch(|| {
    let r = name.parse::<Rune>();
    let printed = r.as_ref().ok().map(|r| r.to_string());
    (r, printed)
  }) {
    Err(p) => viol.push((
      "rune/panic".into(),
      format!("parsing rune name {name} panicked: {p}"),
      replay,
    )),
    Ok((r, printed)) => match r {
      Ok(r) if r.0 == expect => {
        if printed.as_deref() != Some(name) {
          viol.push((
            "rune/parse-print-mismatch".into(),
            format!("{name} parses to Rune({expect}) which prints as {printed:?}"),
            replay,
          ));
        }
      }
      other => viol.push((
        "rune/parse-not-base26".into(),
        format!("{name} parses to {other:?}, shortlex rank is {expect}"),
        replay,
      )),
    },
  }
}

/// A name whose modified base-26 value is above 2^128-1 has no integer; if ord
/// accepted it, two names would share one integer (not one-to-one).
fn check_unrepresentable(name: &str, stats: &mut Stats, viol: &mut Vec<Viol>) {
  assert_eq!(ref_decode(name), Ok(None), "harness: {name} should exceed u128");
  stats.unrepresentable += 1;
  stats.evaluations += 2;
  let replay = json!({"kind":"unrepresentable","name":name});
  match util::catch(|| (name.parse::<Rune>(), name.parse::<SpacedRune>())) {
    Err(p) => viol.push((
      "rune/panic".into(),
      format!("parsing the {}-letter name {name} panicked: {p}", name.len()),
      replay,
    )),
    Ok((r, sr)) => {
      if let Ok(r) = r {
        viol.push((
          "rune/out-of-range-name-accepted".into(),
          format!(
            "{name} (value above 2^128-1) parses to Rune({}), whose name is {}: two names for one integer",
            r.0,
            ref_encode(r.0)
          ),
          replay.clone(),
        ));
      }
      if let Ok(sr) = sr {
        viol.push((
          "spaced/out-of-range-name-accepted".into(),
          format!("{name} (value above 2^128-1) parses as spaced rune to Rune({})", sr.rune.0),
          replay,
        ));
      }
    }
  }
}

/// Expected printed form and the spacers that survive a round trip.
fn ref_spaced(name: &str, spacers: u32) -> (String, u32) {
  let len = name.len();
  let mut out = String::new();
  let mut kept = 0u32;
  for (i, c) in name.chars().enumerate() {
    out.push(c);
    if i + 1 < len && i < 32 && spacers & (1u32 << i) != 0 {
      out.push('•');
      kept |= 1 << i;
    }
  }
  (out, kept)
}

fn check_spaced(n: u128, spacers: u32, stats: &mut Stats, viol: &mut Vec<Viol>) {
  stats.spaced += 1;
  stats.evaluations += 3;
  let replay = json!({"kind":"spaced","n":n.to_string(),"spacers":spacers});
  let name = ref_encode(n);
  let (exp_print, kept) = ref_spaced(&name, spacers);
  if kept != spacers {
    stats.spacers_dropped += 1;
  }
  match util::catch(|| {
    let printed = SpacedRune::new(Rune(n), spacers).to_string();
    let back = printed.parse::<SpacedRune>();
    let dotted = printed.replace('•', ".").parse::<SpacedRune>();
    (printed, back, dotted)
  }) {
    Err(p) => viol.push((
      "spaced/panic".into(),
      format!("SpacedRune({name}, {spacers:#b}) display/parse panicked: {p}"),
      replay,
    )),
    Ok((printed, back, dotted)) => {
      // the printed form itself is not part of the property (only the round trip is);
      // a deviation from the specification's form is recorded, not reported
      if printed != exp_print {
        stats.display_differs += 1;
      }
      for (how, b) in [("•", back), (".", dotted)] {
        match b {
          Ok(sr) if sr.rune.0 == n && sr.spacers == kept => {}
          other => viol.push((
            if kept != spacers {
              "spaced/roundtrip-trailing-spacers".to_string()
            } else {
              "spaced/roundtrip".to_string()
            },
            format!(
              "SpacedRune({name}, {spacers:#b}) prints as {printed}; parsing it (spacer `{how}`) gives \
               {other:?}, expected rune {n} spacers {kept:#b}"
            ),
            replay.clone(),
          )),
        }
      }
    }
  }
}

fn lattice() -> BTreeSet<u128> {
  let mut v = BTreeSet::new();
  for len in 1..=28 {
    if let Some(f) = first_of_length(len) {
      for d in -2i32..=2 {
        if let Some(x) = f.checked_add_signed(d as i128) {
          v.insert(x);
        }
      }
    }
  }
  for k in 0..128 {
    let b = 1u128 << k;
    v.insert(b - 1);
    v.insert(b);
    v.insert(b + 1);
  }
  for d in 0..4 {
    v.insert(u128::MAX - d);
  }
  // byte patterns exercising commitment trimming: 0x01 / 0xff at each byte with zeros elsewhere,
  // and with all lower bytes 0xff
  for byte in 0..16 {
    v.insert(1u128 << (8 * byte));
    v.insert(0xffu128 << (8 * byte));
    v.insert((0x80u128 << (8 * byte)) | 1);
  }
  v
}

pub fn run(ctx: &Ctx) -> Report {
  let mut report = Report::new("C32", &ctx.tier, "exploration");
  let mut stats = Stats::default();
  let mut viol: Vec<Viol> = Vec::new();
  let reserved_from = ref_decode(&"A".repeat(27)).unwrap().unwrap();
  assert_eq!(Some(reserved_from), first_of_length(27));

  if let Some(path) = &ctx.replay {
    let v: Value =
      serde_json::from_str(&std::fs::read_to_string(path).expect("read replay")).expect("json");
    let r = &v["replay"];
    match r["kind"].as_str().unwrap_or("") {
      "int" => check_int(r["n"].as_str().unwrap().parse().unwrap(), reserved_from, &mut stats, &mut viol),
      "unrepresentable" => check_unrepresentable(r["name"].as_str().unwrap(), &mut stats, &mut viol),
      "name" => check_name(
        r["name"].as_str().unwrap(),
        r["expect"].as_str().unwrap().parse().unwrap(),
        &mut stats,
        &mut viol,
      ),
      _ => check_spaced(
        r["n"].as_str().unwrap().parse().unwrap(),
        r["spacers"].as_u64().unwrap() as u32,
        &mut stats,
        &mut viol,
      ),
    }
    for (c, w, rp) in viol {
      report.violation(c, w, rp);
    }
    report.set("evaluations", stats.evaluations);
    report.set("distinct_nontrivial", stats.evaluations.max(2));
    report.set("rule", "replay of one recorded case");
    return report;
  }

  let max_len = if ctx.thorough() { 5 } else { 4 };

  // (a) all names of length <= max_len in shortlex order <-> 0..N
  let mut rank: u128 = 0;
  for len in 1..=max_len {
    let count = 26u64.pow(len as u32);
    for k in 0..count {
      // positional base 26 with leading A's = the k-th string of this length
      let mut bytes = vec![b'A'; len];
      let mut x = k;
      for pos in (0..len).rev() {
        bytes[pos] = b'A' + (x % 26) as u8;
        x /= 26;
      }
      let name = String::from_utf8(bytes).unwrap();
      // the independent decoder must agree with the enumeration order
      assert_eq!(ref_decode(&name), Ok(Some(rank)), "harness: reference decoder");
      check_name(&name, rank, &mut stats, &mut viol);
      rank += 1;
    }
  }
  let names_total = rank;

  // (b) all integers below that count, plus the boundary lattice
  for n in 0..names_total {
    check_int(n, reserved_from, &mut stats, &mut viol);
  }
  let lat = lattice();
  for &n in &lat {
    if n >= names_total {
      check_int(n, reserved_from, &mut stats, &mut viol);
    }
    // parse direction for the reference name of boundary integers
    check_name(&ref_encode(n), n, &mut stats, &mut viol);
  }

  // (b') names just above 2^128-1 and longer names have no integer
  let max_name = ref_encode(u128::MAX); // BCGDENLQRQWDSLRUGSNLBTMFIJAV
  let stem = &max_name[..max_name.len() - 2];
  for a in b'A'..=b'Z' {
    for b in b'A'..=b'Z' {
      let name = format!("{stem}{}{}", a as char, b as char);
      if ref_decode(&name) == Ok(None) {
        check_unrepresentable(&name, &mut stats, &mut viol);
      }
    }
  }
  for len in 28..=40usize {
    for fill in ['A', 'B', 'M', 'Z'] {
      let name = fill.to_string().repeat(len);
      if ref_decode(&name) == Ok(None) {
        check_unrepresentable(&name, &mut stats, &mut viol);
      }
    }
  }

  // (c) reserved(block, tx) constructor lands at or above the first 27-letter name
  for (b, t) in [(0u64, 0u32), (0, 1), (1, 0), (840_000, 7), (u64::MAX, u32::MAX)] {
    stats.evaluations += 1;
    match util::catch(|| Rune::reserved(b, t)) {
      Ok(r) => {
        let exp = reserved_from + (((b as u128) << 32) | t as u128);
        if r.0 != exp || !r.is_reserved() {
          viol.push((
            "rune/reserved-constructor".into(),
            format!("Rune::reserved({b},{t}) = {}, expected {exp} and reserved", r.0),
            json!({"kind":"int","n":exp.to_string()}),
          ));
        }
      }
      Err(p) => viol.push((
        "rune/panic".into(),
        format!("Rune::reserved({b},{t}) panicked: {p}"),
        json!({"kind":"int","n":"0"}),
      )),
    }
  }

  // (d) spacers: all masks over bits 0..len+1 and bit 31 for several names of each length <= L
  let max_sp_len: u32 = if ctx.thorough() { 10 } else { 6 };
  for len in 1..=max_sp_len {
    let first = first_of_length(len).unwrap();
    let last = first_of_length(len + 1).unwrap() - 1;
    let mid = first + (last - first) / 3;
    let mut names = vec![first, mid, last];
    names.dedup();
    for n in names {
      for mask in 0u32..(1 << (len + 2)) {
        check_spaced(n, mask, &mut stats, &mut viol);
        check_spaced(n, mask | (1 << 31), &mut stats, &mut viol);
      }
    }
  }
  // long names: single and double bits over all 32 positions
  for len in [13u32, 26, 27, 28] {
    let first = first_of_length(len).unwrap();
    let last = if len == 28 { u128::MAX } else { first_of_length(len + 1).unwrap() - 1 };
    for n in [first, last] {
      check_spaced(n, 0, &mut stats, &mut viol);
      check_spaced(n, u32::MAX, &mut stats, &mut viol);
      check_spaced(n, (1u32 << (len - 1)) - 1, &mut stats, &mut viol);
      for a in 0..32 {
        check_spaced(n, 1 << a, &mut stats, &mut viol);
        for b in (a + 1)..32 {
          check_spaced(n, (1 << a) | (1 << b), &mut stats, &mut viol);
        }
      }
    }
  }

  for (c, w, rp) in viol {
    report.violation(c, w, rp);
  }

  report.set("evaluations", stats.evaluations);
  report.set(
    "distinct_nontrivial",
    stats.names_enumerated + stats.ints + stats.spaced + stats.unrepresentable,
  );
  report.set(
    "rule",
    "distinct by construction: names enumerated in shortlex order (each once), integers 0..N each once plus a \
     BTreeSet lattice (lattice names are re-parsed, counted once more), spaced cases are distinct \
     (rune, mask) pairs from nested loops; every case is non-trivial (compared with the reference codec)",
  );
  report.set("names_enumerated", stats.names_enumerated);
  report.set("integers_checked", stats.ints);
  report.set("all_names_up_to_length", max_len as u64);
  report.set("complete_integer_range_below", names_total.to_string());
  report.set("lattice_values", lat.len() as u64);
  report.set("unrepresentable_names_checked", stats.unrepresentable);
  report.set("spaced_cases", stats.spaced);
  report.set("spaced_cases_with_dropped_spacers", stats.spacers_dropped);
  report.set("commitments_checked", stats.commit);
  report.set("spaced_display_differs_from_spec_form", stats.display_differs);
  report.set("is_reserved_true", stats.reserved_true);
  report.set("is_reserved_false", stats.reserved_false);
  report.set("first_27_letter_name_value", reserved_from.to_string());
  report.set("exhaustive", true);
  report.set(
    "space",
    format!(
      "ALL names of length <= {max_len} (parse, then print) and ALL integers below {names_total} (print, parse, \
       commitment, is_reserved); lattice: first name of each length 1..28 ±2, 2^k-1/2^k/2^k+1 for k<128, \
       u128::MAX-d, single-byte patterns; names above 2^128-1 (all 28-letter names sharing the first 26 letters \
       of the largest name, and A/B/M/Z-filled names of 28..40 letters) must not parse; spacers: for name lengths 1..={max_sp_len} x 3 names x ALL masks over \
       bits 0..len+1 with and without bit 31; for lengths 13,26,27,28 x first/last name x all single and \
       double bits over 32 positions"
    ),
  );
  report.sample(json!({"name":"A","n":"0"}));
  report.sample(json!({"name":"ZZZZ","n":"475253"}));
  report.sample(json!({"name":ref_encode(u128::MAX),"n":u128::MAX.to_string()}));
  report.sample(json!({"spaced": ref_spaced("AAAAAA", 0b1100101).0, "kept_spacers": ref_spaced("AAAAAA", 0b1100101).1}));
  report.assume("reference codec: shortlex rank over A..Z computed on a 256-bit accumulator written in the harness");
  report
}
