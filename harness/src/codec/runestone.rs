//! C25: runestones round-trip and deciphering is total with the documented flaws.
//!
//! (a) round trip: decipher(encipher(r)) = r with edicts ordered by rune id, over
//!     complete products of edict lists and etching / terms / mint / pointer
//!     boundary values;
//! (b) decipher: complete enumerations of integer sequences and of raw output
//!     scripts, compared with a reference decipher written here from
//!     docs/src/runes/specification.md and the property statement.

use {
  crate::{
    Ctx,
    codec::{Acc, Stats, for_each_seq},
    evidence::Report,
    util,
  },
  bitcoin::{
    Amount, ScriptBuf, Transaction, TxOut, absolute::LockTime, transaction::Version,
  },
  ordinals::{Artifact, Cenotaph, Edict, Etching, Flaw, Rune, RuneId, Runestone, Terms},
  serde_json::{Value, json},
  std::collections::BTreeMap,
};

const MAX_DIVISIBILITY: u128 = 38;
const MAX_SPACERS: u128 = 0b00000111_11111111_11111111_11111111;

// ---------------------------------------------------------------------------
// reference
// ---------------------------------------------------------------------------

/// canonical LEB128 (independent of ordinals::varint)
fn leb128(mut n: u128, out: &mut Vec<u8>) {
  loop {
    let digit = (n % 128) as u8;
    n /= 128;
    if n == 0 {
      out.push(digit);
      return;
    }
    out.push(digit | 0x80);
  }
}

fn encode_integers(ints: &[u128]) -> Vec<u8> {
  let mut out = Vec::new();
  for &i in ints {
    leb128(i, &mut out);
  }
  out
}

/// one data push of `data`, minimal push opcode
fn push(data: &[u8], out: &mut Vec<u8>) {
  let n = data.len();
  if n <= 75 {
    out.push(n as u8);
  } else if n <= 255 {
    out.push(0x4c);
    out.push(n as u8);
  } else if n <= 65535 {
    out.push(0x4d);
    out.extend_from_slice(&(n as u16).to_le_bytes());
  } else {
    out.push(0x4e);
    out.extend_from_slice(&(n as u32).to_le_bytes());
  }
  out.extend_from_slice(data);
}

fn runestone_script(payload: &[u8], style: u8) -> Vec<u8> {
  let mut s = vec![0x6a, 0x5d];
  match style {
    // single push
    0 => push(payload, &mut s),
    // two pushes split in the middle (possibly inside a varint)
    1 => {
      let mid = payload.len() / 2;
      push(&payload[..mid], &mut s);
      push(&payload[mid..], &mut s);
    }
    // one push per byte, separated by empty pushes, PUSHDATA1 for the last byte
    _ => {
      for (i, b) in payload.iter().enumerate() {
        if i + 1 == payload.len() {
          s.extend_from_slice(&[0x4c, 0x01, *b]);
        } else {
          s.extend_from_slice(&[0x01, *b, 0x00]);
        }
      }
    }
  }
  s
}

/// Result of scanning the scripts for a runestone payload.
enum RefPayload {
  None,
  Flaw(Flaw),
  Bytes(Vec<u8>),
}

/// "Find the first transaction output whose script pubkey begins with OP_RETURN
/// OP_13. Concatenate all following data pushes into a payload buffer."
fn ref_payload(scripts: &[Vec<u8>]) -> RefPayload {
  for s in scripts {
    if s.len() < 2 || s[0] != 0x6a || s[1] != 0x5d {
      continue;
    }
    let mut payload = Vec::new();
    let mut i = 2;
    while i < s.len() {
      let op = s[i];
      i += 1;
      let len = match op {
        0x00..=0x4b => op as usize,
        0x4c => {
          if i + 1 > s.len() {
            return RefPayload::Flaw(Flaw::InvalidScript);
          }
          let n = s[i] as usize;
          i += 1;
          n
        }
        0x4d => {
          if i + 2 > s.len() {
            return RefPayload::Flaw(Flaw::InvalidScript);
          }
          let n = u16::from_le_bytes([s[i], s[i + 1]]) as usize;
          i += 2;
          n
        }
        0x4e => {
          if i + 4 > s.len() {
            return RefPayload::Flaw(Flaw::InvalidScript);
          }
          let n = u32::from_le_bytes([s[i], s[i + 1], s[i + 2], s[i + 3]]) as usize;
          i += 4;
          n
        }
        _ => return RefPayload::Flaw(Flaw::Opcode),
      };
      if len > s.len() - i {
        return RefPayload::Flaw(Flaw::InvalidScript);
      }
      payload.extend_from_slice(&s[i..i + len]);
      i += len;
    }
    return RefPayload::Bytes(payload);
  }
  RefPayload::None
}

/// LEB128 integers; None = bad varint (truncated, longer than 19 bytes, or > u128::MAX)
fn ref_integers(payload: &[u8]) -> Option<Vec<u128>> {
  let mut out = Vec::new();
  let mut i = 0;
  while i < payload.len() {
    let mut n: u128 = 0;
    let mut k = 0usize;
    loop {
      if i >= payload.len() {
        return None; // truncated
      }
      if k >= 19 {
        return None; // more than 19 bytes
      }
      let b = payload[i];
      i += 1;
      let v = (b & 0x7f) as u128;
      if v != 0 {
        if 7 * k >= 128 {
          return None;
        }
        let shifted = v << (7 * k);
        if shifted >> (7 * k) != v {
          return None; // overflow
        }
        n |= shifted;
      }
      k += 1;
      if b & 0x80 == 0 {
        break;
      }
    }
    out.push(n);
  }
  Some(out)
}

type Fields = BTreeMap<u128, Vec<u128>>;

fn take1(fields: &mut Fields, tag: u128, ok: impl Fn(u128) -> bool) -> Option<u128> {
  let values = fields.get_mut(&tag)?;
  let x = *values.first()?;
  if !ok(x) {
    return None;
  }
  values.remove(0);
  if values.is_empty() {
    fields.remove(&tag);
  }
  Some(x)
}

fn fits_u64(x: u128) -> bool {
  x <= u64::MAX as u128
}

fn fits_u32(x: u128) -> bool {
  x <= u32::MAX as u128
}

fn is_char(x: u128) -> bool {
  x <= 0x10FFFF && !(0xD800..=0xDFFF).contains(&x)
}

fn ref_supply(premine: Option<u128>, cap: Option<u128>, amount: Option<u128>) -> Option<u128> {
  let p = premine.unwrap_or(0);
  let c = cap.unwrap_or(0);
  let a = amount.unwrap_or(0);
  // c * a with explicit overflow test
  let prod = if c == 0 || a == 0 {
    0
  } else {
    if c > u128::MAX / a {
      return None;
    }
    c * a
  };
  if prod > u128::MAX - p {
    return None;
  }
  Some(p + prod)
}

/// Reference decipher on the integer sequence for a transaction with `outputs` outputs.
fn ref_message(ints: &[u128], outputs: usize) -> Artifact {
  let outputs = outputs as u128;
  let mut flaw: Option<Flaw> = None;
  let mut fields: Fields = BTreeMap::new();
  let mut edicts: Vec<Edict> = Vec::new();

  let mut i = 0;
  while i < ints.len() {
    let tag = ints[i];
    if tag == 0 {
      let rest = &ints[i + 1..];
      let mut base_block: u64 = 0;
      let mut base_tx: u32 = 0;
      let mut j = 0;
      while j < rest.len() {
        if rest.len() - j < 4 {
          flaw = Some(Flaw::TrailingIntegers);
          break;
        }
        let (db, dt, amount, output) = (rest[j], rest[j + 1], rest[j + 2], rest[j + 3]);
        // rune id
        let id = (|| {
          if !fits_u64(db) {
            return None;
          }
          let block = base_block.checked_add(db as u64)?;
          let tx = if db == 0 {
            if !fits_u32(dt) {
              return None;
            }
            base_tx.checked_add(dt as u32)?
          } else {
            if !fits_u32(dt) {
              return None;
            }
            dt as u32
          };
          if block == 0 && tx > 0 {
            return None;
          }
          Some((block, tx))
        })();
        let Some((block, tx)) = id else {
          flaw = Some(Flaw::EdictRuneId);
          break;
        };
        if !fits_u32(output) || output > outputs {
          flaw = Some(Flaw::EdictOutput);
          break;
        }
        base_block = block;
        base_tx = tx;
        edicts.push(Edict {
          id: RuneId { block, tx },
          amount,
          output: output as u32,
        });
        j += 4;
      }
      break;
    }
    if i + 1 >= ints.len() {
      flaw = Some(Flaw::TruncatedField);
      break;
    }
    fields.entry(tag).or_default().push(ints[i + 1]);
    i += 2;
  }

  let mut flags = take1(&mut fields, 2, |_| true).unwrap_or(0);

  let mut etching: Option<Etching> = None;
  if flags & 1 != 0 {
    flags &= !1;
    let divisibility = take1(&mut fields, 1, |x| x <= MAX_DIVISIBILITY).map(|x| x as u8);
    let premine = take1(&mut fields, 6, |_| true);
    let rune = take1(&mut fields, 4, |_| true).map(Rune);
    let spacers = take1(&mut fields, 3, |x| x <= MAX_SPACERS).map(|x| x as u32);
    let symbol = take1(&mut fields, 5, is_char).map(|x| char::from_u32(x as u32).unwrap());
    let terms = if flags & 2 != 0 {
      flags &= !2;
      let cap = take1(&mut fields, 8, |_| true);
      let h0 = take1(&mut fields, 12, fits_u64).map(|x| x as u64);
      let h1 = take1(&mut fields, 14, fits_u64).map(|x| x as u64);
      let amount = take1(&mut fields, 10, |_| true);
      let o0 = take1(&mut fields, 16, fits_u64).map(|x| x as u64);
      let o1 = take1(&mut fields, 18, fits_u64).map(|x| x as u64);
      Some(Terms {
        amount,
        cap,
        height: (h0, h1),
        offset: (o0, o1),
      })
    } else {
      None
    };
    let turbo = flags & 4 != 0;
    flags &= !4;
    etching = Some(Etching {
      divisibility,
      premine,
      rune,
      spacers,
      symbol,
      terms,
      turbo,
    });
  }

  // mint: two integers, block fits u64, tx fits u32, not (block 0 and tx > 0)
  let mint = (|| {
    let values = fields.get(&20)?;
    if values.len() < 2 {
      return None;
    }
    let (b, t) = (values[0], values[1]);
    if !fits_u64(b) || !fits_u32(t) || (b == 0 && t > 0) {
      return None;
    }
    let values = fields.get_mut(&20).unwrap();
    values.drain(0..2);
    if values.is_empty() {
      fields.remove(&20);
    }
    Some(RuneId {
      block: b as u64,
      tx: t as u32,
    })
  })();

  let pointer = take1(&mut fields, 22, |x| fits_u32(x) && x < outputs).map(|x| x as u32);

  if let Some(e) = &etching
    && flaw.is_none()
    && ref_supply(
      e.premine,
      e.terms.and_then(|t| t.cap),
      e.terms.and_then(|t| t.amount),
    )
    .is_none()
  {
    flaw = Some(Flaw::SupplyOverflow);
  }

  if flaw.is_none() && flags != 0 {
    flaw = Some(Flaw::UnrecognizedFlag);
  }

  if flaw.is_none() && fields.keys().any(|t| t % 2 == 0) {
    flaw = Some(Flaw::UnrecognizedEvenTag);
  }

  if let Some(flaw) = flaw {
    return Artifact::Cenotaph(Cenotaph {
      flaw: Some(flaw),
      mint,
      etching: etching.and_then(|e| e.rune),
    });
  }

  Artifact::Runestone(Runestone {
    edicts,
    etching,
    mint,
    pointer,
  })
}

fn ref_decipher(scripts: &[Vec<u8>]) -> Option<Artifact> {
  let payload = match ref_payload(scripts) {
    RefPayload::None => return None,
    RefPayload::Flaw(flaw) => {
      return Some(Artifact::Cenotaph(Cenotaph {
        flaw: Some(flaw),
        mint: None,
        etching: None,
      }));
    }
    RefPayload::Bytes(b) => b,
  };
  let Some(ints) = ref_integers(&payload) else {
    return Some(Artifact::Cenotaph(Cenotaph {
      flaw: Some(Flaw::Varint),
      mint: None,
      etching: None,
    }));
  };
  Some(ref_message(&ints, scripts.len()))
}

// ---------------------------------------------------------------------------
// checks
// ---------------------------------------------------------------------------

fn tx_of(scripts: &[Vec<u8>]) -> Transaction {
  Transaction {
    version: Version(2),
    lock_time: LockTime::ZERO,
    input: Vec::new(),
    output: scripts
      .iter()
      .map(|s| TxOut {
        value: Amount::from_sat(0),
        script_pubkey: ScriptBuf::from_bytes(s.clone()),
      })
      .collect(),
  }
}

fn outcome_key(a: &Option<Artifact>) -> String {
  match a {
    None => "none".into(),
    Some(Artifact::Runestone(_)) => "runestone".into(),
    Some(Artifact::Cenotaph(c)) => format!(
      "cenotaph/{}{}{}",
      c.flaw.map(|f| format!("{f:?}")).unwrap_or("noflaw".into()),
      if c.etching.is_some() { "+etching" } else { "" },
      if c.mint.is_some() { "+mint" } else { "" }
    ),
  }
}

fn scripts_replay(scripts: &[Vec<u8>]) -> Value {
  json!({"kind":"scripts","scripts": scripts.iter().map(|s| util::hex(s)).collect::<Vec<_>>()})
}

fn flaw_name(f: Option<Flaw>) -> String {
  f.map(|f| format!("{f:?}")).unwrap_or("none".into())
}

fn classify(expected: &Option<Artifact>, got: &Option<Artifact>) -> String {
  match (expected, got) {
    (None, Some(_)) => "decipher/locate/artifact-without-runestone-output".into(),
    (Some(_), None) => "decipher/locate/none-for-runestone-output".into(),
    (Some(Artifact::Cenotaph(e)), Some(Artifact::Cenotaph(g))) => {
      if e.flaw != g.flaw {
        format!(
          "decipher/flaw-order/expected-{:?}-got-{}",
          e.flaw.unwrap(),
          flaw_name(g.flaw)
        )
      } else if e.etching != g.etching {
        "decipher/cenotaph/kept-etching".into()
      } else {
        "decipher/cenotaph/kept-mint".into()
      }
    }
    (Some(Artifact::Cenotaph(e)), Some(Artifact::Runestone(_))) => {
      format!("decipher/missed-flaw/{:?}", e.flaw.unwrap())
    }
    (Some(Artifact::Runestone(_)), Some(Artifact::Cenotaph(g))) => {
      format!("decipher/spurious-flaw/{}", flaw_name(g.flaw))
    }
    (Some(Artifact::Runestone(e)), Some(Artifact::Runestone(g))) => {
      if e.edicts != g.edicts {
        "decipher/runestone/edicts".into()
      } else if e.etching != g.etching {
        "decipher/runestone/etching".into()
      } else if e.mint != g.mint {
        "decipher/runestone/mint".into()
      } else {
        "decipher/runestone/pointer".into()
      }
    }
    (None, None) => unreachable!(),
  }
}

/// Decipher a transaction with the given output scripts and compare with the reference.
fn check_scripts(scripts: &[Vec<u8>], stats: &mut Stats) {
  stats.evaluations += 1;
  let tx = tx_of(scripts);
  let got = match util::catch(|| Runestone::decipher(&tx)) {
    Ok(g) => g,
    Err(p) => {
      stats.bump("panic");
      stats.violation(
        "decipher/panic".into(),
        format!("Runestone::decipher panicked: {p}"),
        scripts_replay(scripts),
      );
      return;
    }
  };
  let expected = ref_decipher(scripts);
  stats.bump(&outcome_key(&got));
  if got != expected {
    stats.violation(
      classify(&expected, &got),
      format!(
        "decipher(outputs {:?}) = {:?}, reference says {:?}",
        scripts.iter().map(|s| util::hex(s)).collect::<Vec<_>>(),
        got,
        expected
      ),
      scripts_replay(scripts),
    );
  }
}

fn check_integers(ints: &[u128], outputs: usize, style: u8, stats: &mut Stats) {
  let payload = encode_integers(ints);
  let mut scripts = vec![runestone_script(&payload, style)];
  for k in 1..outputs {
    scripts.push(if k == 1 {
      [vec![0x00, 0x14], vec![0x11; 20]].concat()
    } else {
      [vec![0x51, 0x20], vec![0x22; 32]].concat()
    });
  }
  check_scripts(&scripts, stats);
}

// ---- round trip -----------------------------------------------------------

fn opt_str<T: ToString>(v: Option<T>) -> Value {
  match v {
    Some(x) => Value::String(x.to_string()),
    None => Value::Null,
  }
}

fn runestone_json(r: &Runestone) -> Value {
  json!({
    "edicts": r.edicts.iter().map(|e| json!([e.id.block.to_string(), e.id.tx.to_string(), e.amount.to_string(), e.output.to_string()])).collect::<Vec<_>>(),
    "etching": r.etching.map(|e| json!({
      "divisibility": opt_str(e.divisibility),
      "premine": opt_str(e.premine),
      "rune": opt_str(e.rune.map(|r| r.0)),
      "spacers": opt_str(e.spacers),
      "symbol": opt_str(e.symbol.map(|c| c as u32)),
      "turbo": e.turbo,
      "terms": e.terms.map(|t| json!({
        "amount": opt_str(t.amount),
        "cap": opt_str(t.cap),
        "height": [opt_str(t.height.0), opt_str(t.height.1)],
        "offset": [opt_str(t.offset.0), opt_str(t.offset.1)],
      })),
    })),
    "mint": r.mint.map(|m| json!([m.block.to_string(), m.tx.to_string()])),
    "pointer": opt_str(r.pointer),
  })
}

fn parse_opt<T: std::str::FromStr>(v: &Value) -> Option<T> {
  v.as_str().and_then(|s| s.parse().ok())
}

fn runestone_from_json(v: &Value) -> Runestone {
  let edicts = v["edicts"]
    .as_array()
    .unwrap()
    .iter()
    .map(|e| Edict {
      id: RuneId {
        block: parse_opt(&e[0]).unwrap(),
        tx: parse_opt(&e[1]).unwrap(),
      },
      amount: parse_opt(&e[2]).unwrap(),
      output: parse_opt(&e[3]).unwrap(),
    })
    .collect();
  let etching = if v["etching"].is_null() {
    None
  } else {
    let e = &v["etching"];
    Some(Etching {
      divisibility: parse_opt(&e["divisibility"]),
      premine: parse_opt(&e["premine"]),
      rune: parse_opt::<u128>(&e["rune"]).map(Rune),
      spacers: parse_opt(&e["spacers"]),
      symbol: parse_opt::<u32>(&e["symbol"]).and_then(char::from_u32),
      turbo: e["turbo"].as_bool().unwrap_or(false),
      terms: if e["terms"].is_null() {
        None
      } else {
        let t = &e["terms"];
        Some(Terms {
          amount: parse_opt(&t["amount"]),
          cap: parse_opt(&t["cap"]),
          height: (parse_opt(&t["height"][0]), parse_opt(&t["height"][1])),
          offset: (parse_opt(&t["offset"][0]), parse_opt(&t["offset"][1])),
        })
      },
    })
  };
  let mint = if v["mint"].is_null() {
    None
  } else {
    Some(RuneId {
      block: parse_opt(&v["mint"][0]).unwrap(),
      tx: parse_opt(&v["mint"][1]).unwrap(),
    })
  };
  Runestone {
    edicts,
    etching,
    mint,
    pointer: parse_opt(&v["pointer"]),
  }
}

/// stable insertion sort by (block, tx)
fn sorted_edicts(edicts: &[Edict]) -> Vec<Edict> {
  let mut out: Vec<Edict> = Vec::with_capacity(edicts.len());
  for e in edicts {
    let mut pos = out.len();
    while pos > 0 {
      let p = out[pos - 1].id;
      if (p.block, p.tx) > (e.id.block, e.id.tx) {
        pos -= 1;
      } else {
        break;
      }
    }
    out.insert(pos, *e);
  }
  out
}

/// `r` must be well formed for a transaction with `outputs` outputs.
fn check_roundtrip(r: &Runestone, outputs: usize, stats: &mut Stats) {
  stats.evaluations += 1;
  let replay = || json!({"kind":"roundtrip","runestone": runestone_json(r), "outputs": outputs});
  let script = match util::catch(|| r.encipher()) {
    Ok(s) => s,
    Err(p) => {
      stats.bump("roundtrip/panic");
      stats.violation(
        "roundtrip/panic/encipher".into(),
        format!("encipher panicked on {r:?}: {p}"),
        replay(),
      );
      return;
    }
  };
  // transaction: [p2wpkh, runestone, p2tr, p2tr, ...] with `outputs` outputs (>= 2)
  let mut scripts: Vec<Vec<u8>> = Vec::new();
  scripts.push([vec![0x00, 0x14], vec![0x11; 20]].concat());
  scripts.push(script.as_bytes().to_vec());
  while scripts.len() < outputs {
    scripts.push([vec![0x51, 0x20], vec![0x22; 32]].concat());
  }
  let tx = tx_of(&scripts);
  let got = match util::catch(|| Runestone::decipher(&tx)) {
    Ok(g) => g,
    Err(p) => {
      stats.bump("roundtrip/panic");
      stats.violation(
        "roundtrip/panic/decipher".into(),
        format!("decipher(encipher({r:?})) panicked: {p}"),
        replay(),
      );
      return;
    }
  };

  let overflow = r
    .etching
    .map(|e| {
      ref_supply(
        e.premine,
        e.terms.and_then(|t| t.cap),
        e.terms.and_then(|t| t.amount),
      )
      .is_none()
    })
    .unwrap_or(false);

  let expected = if overflow {
    Artifact::Cenotaph(Cenotaph {
      flaw: Some(Flaw::SupplyOverflow),
      etching: r.etching.and_then(|e| e.rune),
      mint: r.mint,
    })
  } else {
    Artifact::Runestone(Runestone {
      edicts: sorted_edicts(&r.edicts),
      etching: r.etching,
      mint: r.mint,
      pointer: r.pointer,
    })
  };

  stats.bump(&format!("roundtrip/{}", outcome_key(&got)));

  if got.as_ref() != Some(&expected) {
    let class = match (&expected, &got) {
      (_, None) => "roundtrip/not-found".to_string(),
      (Artifact::Runestone(e), Some(Artifact::Runestone(g))) => {
        if e.edicts != g.edicts {
          let mut a = e.edicts.clone();
          let mut b = g.edicts.clone();
          let key = |x: &Edict| (x.id.block, x.id.tx, x.amount, x.output);
          a.sort_by_key(key);
          b.sort_by_key(key);
          if a == b {
            let ordered = g
              .edicts
              .windows(2)
              .all(|w| (w[0].id.block, w[0].id.tx) <= (w[1].id.block, w[1].id.tx));
            if ordered {
              "roundtrip/edicts/equal-id-order-not-kept".to_string()
            } else {
              "roundtrip/edicts/not-ordered-by-id".to_string()
            }
          } else {
            "roundtrip/edicts/changed".to_string()
          }
        } else if e.etching != g.etching {
          let (a, b) = (e.etching, g.etching);
          match (a, b) {
            (Some(a), Some(b)) => {
              if a.terms != b.terms {
                "roundtrip/etching/terms".to_string()
              } else if a.turbo != b.turbo {
                "roundtrip/etching/turbo".to_string()
              } else {
                "roundtrip/etching/field".to_string()
              }
            }
            _ => "roundtrip/etching/presence".to_string(),
          }
        } else if e.mint != g.mint {
          "roundtrip/mint".to_string()
        } else {
          "roundtrip/pointer".to_string()
        }
      }
      (Artifact::Runestone(_), Some(Artifact::Cenotaph(c))) => {
        format!("roundtrip/cenotaph/{}", flaw_name(c.flaw))
      }
      (Artifact::Cenotaph(_), Some(Artifact::Runestone(_))) => {
        "roundtrip/supply-overflow-not-flagged".to_string()
      }
      (Artifact::Cenotaph(_), Some(Artifact::Cenotaph(c))) => {
        format!("roundtrip/overflow-cenotaph/{}", flaw_name(c.flaw))
      }
    };
    stats.violation(
      class,
      format!("decipher(encipher({r:?})) with {outputs} outputs = {got:?}, expected {expected:?}"),
      replay(),
    );
  }
}

// ---- enumeration helpers ----------------------------------------------------

fn edict_alphabet(outputs: u32, ids: &[RuneId]) -> Vec<Edict> {
  let mut v = Vec::new();
  for &id in ids {
    for amount in [0u128, 1, u128::MAX] {
      for output in [0u32, 1, outputs] {
        v.push(Edict { id, amount, output });
      }
    }
  }
  v
}

struct EtchingLattice {
  divisibility: Vec<Option<u8>>,
  premine: Vec<Option<u128>>,
  rune: Vec<Option<Rune>>,
  spacers: Vec<Option<u32>>,
  symbol: Vec<Option<char>>,
}

fn terms_for(subset: u8, pattern: u8) -> Terms {
  // subset bits: 0 amount, 1 cap, 2 height.0, 3 height.1, 4 offset.0, 5 offset.1
  let (amount, cap, h0, h1, o0, o1): (u128, u128, u64, u64, u64, u64) = match pattern {
    0 => (0, 0, 0, 0, 0, 0),
    1 => (1, 1, 1, 1, 1, 1),
    2 => (u128::MAX, u128::MAX, u64::MAX, u64::MAX, u64::MAX, u64::MAX),
    _ => (1, u128::MAX, 1 << 32, u64::MAX - 1, (1 << 32) - 1, 840_000),
  };
  let on = |b: u8| subset & (1 << b) != 0;
  Terms {
    amount: on(0).then_some(amount),
    cap: on(1).then_some(cap),
    height: (on(2).then_some(h0), on(3).then_some(h1)),
    offset: (on(4).then_some(o0), on(5).then_some(o1)),
  }
}

fn all_terms() -> Vec<Option<Terms>> {
  let mut v = vec![None];
  for subset in 0..64u8 {
    for pattern in 0..4u8 {
      if subset == 0 && pattern > 0 {
        continue;
      }
      v.push(Some(terms_for(subset, pattern)));
    }
  }
  v
}

pub fn run(ctx: &Ctx) -> Report {
  let mut report = Report::new("C25", &ctx.tier, "exploration");

  if let Some(path) = &ctx.replay {
    let v: Value =
      serde_json::from_str(&std::fs::read_to_string(path).expect("read replay")).expect("json");
    let r = &v["replay"];
    let mut stats = Stats::default();
    if r["kind"] == "scripts" {
      let scripts: Vec<Vec<u8>> = r["scripts"]
        .as_array()
        .unwrap()
        .iter()
        .map(|s| hex::decode(s.as_str().unwrap()).unwrap())
        .collect();
      check_scripts(&scripts, &mut stats);
    } else {
      let rs = runestone_from_json(&r["runestone"]);
      check_roundtrip(&rs, r["outputs"].as_u64().unwrap() as usize, &mut stats);
    }
    for (c, w, r) in stats.viol {
      report.violation(c, w, r);
    }
    report.set("evaluations", stats.evaluations);
    report.set("distinct_nontrivial", stats.evaluations.max(2));
    report.set("rule", "replay of one recorded case");
    return report;
  }

  let thorough = ctx.thorough();
  let budget = util::Budget::new(if thorough { 780 } else { 33 });
  let mut acc = Acc::default();

  // ------------------------------------------------------------------
  // (a1) all edict lists of length <= 3 over the edict alphabet x 2 contexts
  // ------------------------------------------------------------------
  const OUTPUTS: usize = 3;
  let ids = [
    RuneId { block: 0, tx: 0 },
    RuneId { block: 1, tx: 0 },
    RuneId { block: 1, tx: 1 },
    RuneId { block: 2, tx: 0 },
    RuneId {
      block: u64::MAX,
      tx: u32::MAX,
    },
  ];
  let edicts = edict_alphabet(OUTPUTS as u32, &ids);
  let ne = edicts.len();
  let rich_etching = Etching {
    divisibility: Some(38),
    premine: Some(u128::MAX - 1),
    rune: Some(Rune(u128::MAX)),
    spacers: Some(MAX_SPACERS as u32),
    symbol: Some('\u{10FFFF}'),
    terms: Some(terms_for(63, 1)),
    turbo: true,
  };
  {
    // work items: first edict index (or none) -> all lists starting with it
    let (results, capped) = util::par_map(
      ne + 1,
      Some(budget),
      |_| (),
      |_, item| {
        let mut stats = Stats::default();
        let mut lists: Vec<Vec<Edict>> = Vec::new();
        if item == ne {
          lists.push(vec![]);
        } else {
          lists.push(vec![edicts[item]]);
          for b in 0..ne {
            lists.push(vec![edicts[item], edicts[b]]);
            for c in 0..ne {
              lists.push(vec![edicts[item], edicts[b], edicts[c]]);
            }
          }
        }
        for list in lists {
          check_roundtrip(
            &Runestone {
              edicts: list.clone(),
              etching: None,
              mint: None,
              pointer: None,
            },
            OUTPUTS,
            &mut stats,
          );
          check_roundtrip(
            &Runestone {
              edicts: list,
              etching: Some(rich_etching),
              mint: Some(RuneId {
                block: u64::MAX,
                tx: u32::MAX,
              }),
              pointer: Some(OUTPUTS as u32 - 1),
            },
            OUTPUTS,
            &mut stats,
          );
        }
        stats
      },
    );
    acc.absorb("roundtrip/edict-lists", results, capped);
  }

  // ------------------------------------------------------------------
  // (a2) etching lattice x all term subsets x mint x pointer x edict context
  // ------------------------------------------------------------------
  let lattice = if thorough {
    EtchingLattice {
      divisibility: vec![None, Some(0), Some(1), Some(38)],
      premine: vec![None, Some(0), Some(1), Some(1 << 64), Some(u128::MAX)],
      rune: vec![None, Some(Rune(0)), Some(Rune(1 << 64)), Some(Rune(u128::MAX))],
      spacers: vec![None, Some(0), Some(1), Some(MAX_SPACERS as u32)],
      symbol: vec![None, Some('\0'), Some('a'), Some('\u{D7FF}'), Some('\u{10FFFF}')],
    }
  } else {
    EtchingLattice {
      divisibility: vec![None, Some(0), Some(38)],
      premine: vec![None, Some(0), Some(1), Some(u128::MAX)],
      rune: vec![None, Some(Rune(0)), Some(Rune(u128::MAX))],
      spacers: vec![None, Some(0), Some(MAX_SPACERS as u32)],
      symbol: vec![None, Some('\0'), Some('a'), Some('\u{10FFFF}')],
    }
  };
  let terms = all_terms();
  let mints = [
    None,
    Some(RuneId { block: 0, tx: 0 }),
    Some(RuneId { block: 1, tx: 0 }),
    Some(RuneId {
      block: u64::MAX,
      tx: u32::MAX,
    }),
  ];
  let pointers = [None, Some(0u32), Some(OUTPUTS as u32 - 1)];
  let edict_contexts: Vec<Vec<Edict>> = vec![
    vec![],
    vec![Edict {
      id: RuneId { block: 1, tx: 1 },
      amount: 1,
      output: OUTPUTS as u32,
    }],
    vec![
      Edict {
        id: RuneId { block: 2, tx: 7 },
        amount: u128::MAX,
        output: 0,
      },
      Edict {
        id: RuneId { block: 2, tx: 3 },
        amount: 0,
        output: 1,
      },
    ],
  ];
  {
    // work items: (divisibility, premine, rune, spacers) tuples
    let mut heads = Vec::new();
    for &d in &lattice.divisibility {
      for &p in &lattice.premine {
        for &r in &lattice.rune {
          for &s in &lattice.spacers {
            heads.push((d, p, r, s));
          }
        }
      }
    }
    let (results, capped) = util::par_map(
      heads.len() + 1,
      Some(budget),
      |_| (),
      |_, item| {
        let mut stats = Stats::default();
        let rest = |etching: Option<Etching>, stats: &mut Stats| {
          for &mint in &mints {
            for &pointer in &pointers {
              for ec in &edict_contexts {
                check_roundtrip(
                  &Runestone {
                    edicts: ec.clone(),
                    etching,
                    mint,
                    pointer,
                  },
                  OUTPUTS,
                  stats,
                );
              }
            }
          }
        };
        if item == heads.len() {
          rest(None, &mut stats);
          return stats;
        }
        let (divisibility, premine, rune, spacers) = heads[item];
        for &symbol in &lattice.symbol {
          for &t in &terms {
            for turbo in [false, true] {
              rest(
                Some(Etching {
                  divisibility,
                  premine,
                  rune,
                  spacers,
                  symbol,
                  terms: t,
                  turbo,
                }),
                &mut stats,
              );
            }
          }
        }
        stats
      },
    );
    acc.absorb("roundtrip/etching-lattice", results, capped);
  }

  // ------------------------------------------------------------------
  // (b1) all integer sequences of length <= L over the 23-symbol alphabet,
  //      for 1, 2 and 3 outputs
  // ------------------------------------------------------------------
  let big: Vec<u128> = vec![
    0,
    1,
    2,
    3,
    4,
    5,
    6,
    7,
    8,
    10,
    12,
    14,
    16,
    18,
    20,
    22,
    126,
    127,
    (1 << 32) - 1,
    1 << 32,
    (1 << 64) - 1,
    1 << 64,
    u128::MAX,
  ];
  let big_len = if thorough { 6 } else { 5 };
  {
    let nb = big.len();
    // items: 0 => lengths 0 and 1 (with all three push styles); 1.. => prefix (a, b)
    let (results, capped) = util::par_map(
      1 + nb * nb,
      Some(budget),
      |_| (),
      |_, item| {
        let mut stats = Stats::default();
        if item == 0 {
          for outputs in 1..=3 {
            for style in 0..3u8 {
              check_integers(&[], outputs, style, &mut stats);
              for &a in &big {
                check_integers(&[a], outputs, style, &mut stats);
              }
            }
          }
          return stats;
        }
        let a = big[(item - 1) / nb];
        let b = big[(item - 1) % nb];
        for outputs in 1..=3 {
          for style in 0..3u8 {
            check_integers(&[a, b], outputs, style, &mut stats);
          }
          for extra in 1..=(big_len - 2) {
            for_each_seq(nb, extra, |idx| {
              let mut ints = vec![a, b];
              ints.extend(idx.iter().map(|&i| big[i]));
              check_integers(&ints, outputs, 0, &mut stats);
              if ints.len() == 3 {
                check_integers(&ints, outputs, 1, &mut stats);
                check_integers(&ints, outputs, 2, &mut stats);
              }
            });
          }
        }
        stats
      },
    );
    acc.absorb("decipher/integers-23-alphabet", results, capped);
  }

  // ------------------------------------------------------------------
  // (b2) longer sequences over the 6-symbol alphabet {0,1,2,4,20,22}
  // ------------------------------------------------------------------
  let small: Vec<u128> = vec![0, 1, 2, 4, 20, 22];
  let small_max = if thorough { 10 } else { 8 };
  {
    let ns = small.len();
    // lengths big_len+1 ..= small_max; items = prefixes of length 3
    let (results, capped) = util::par_map(
      ns * ns * ns,
      Some(budget),
      |_| (),
      |_, item| {
        let mut stats = Stats::default();
        let prefix = [
          small[item / (ns * ns)],
          small[(item / ns) % ns],
          small[item % ns],
        ];
        for len in (big_len + 1)..=small_max {
          for_each_seq(ns, len - 3, |idx| {
            let mut ints = prefix.to_vec();
            ints.extend(idx.iter().map(|&i| small[i]));
            for outputs in 1..=3 {
              check_integers(&ints, outputs, 0, &mut stats);
            }
          });
        }
        stats
      },
    );
    acc.absorb("decipher/integers-6-alphabet", results, capped);
  }

  // ------------------------------------------------------------------
  // (b3) sequences of (tag, value) pairs followed by a body fragment
  // ------------------------------------------------------------------
  let pairs: Vec<(u128, u128)> = vec![
    (2, 1),
    (2, 3),
    (2, 7),
    (2, 9),
    (2, 11),
    (2, 2),
    (4, 5),
    (6, u128::MAX),
    (8, u128::MAX),
    (10, 2),
    (12, 1 << 64),
    (20, 1),
    (20, 0),
    (20, 1 << 64),
    (22, 0),
    (22, 2),
    (1, 39),
    (5, 0xD800),
    (13, 9),
    (24, 0),
    (126, 0),
  ];
  let bodies: Vec<Vec<u128>> = vec![
    vec![],
    vec![0],
    vec![0, 1, 0, 5, 0],
    vec![0, 1, 0, 5, 3],
    vec![0, 0, 1, 5, 0],
    vec![0, 1, 0, 5],
    vec![4],
    vec![0, 1, 0, 5, 0, 0, 0, 7, 1],
    vec![0, 1, 1, 5, 0, 0, u32::MAX as u128, 7, 1],
    vec![0, 1, 0, 5, 1 << 32],
  ];
  let pair_max = if thorough { 5 } else { 4 };
  {
    let np = pairs.len();
    let in_other_family = |ints: &[u128]| -> bool {
      (ints.len() <= big_len && ints.iter().all(|i| big.contains(i)))
        || (ints.len() > big_len
          && ints.len() <= small_max
          && ints.iter().all(|i| small.contains(i)))
    };
    let (results, capped) = util::par_map(
      1 + np * np,
      Some(budget),
      |_| (),
      |_, item| {
        let mut stats = Stats::default();
        let emit = |head: &[(u128, u128)], stats: &mut Stats| {
          for body in &bodies {
            let mut ints: Vec<u128> = Vec::new();
            for (t, v) in head {
              ints.push(*t);
              ints.push(*v);
            }
            ints.extend_from_slice(body);
            if in_other_family(&ints) {
              stats.bump("skipped-duplicate-of-other-family");
              continue;
            }
            for outputs in 1..=3 {
              check_integers(&ints, outputs, 0, stats);
            }
          }
        };
        if item == 0 {
          emit(&[], &mut stats);
          for &p in &pairs {
            emit(&[p], &mut stats);
          }
          return stats;
        }
        let a = pairs[(item - 1) / np];
        let b = pairs[(item - 1) % np];
        emit(&[a, b], &mut stats);
        for extra in 1..=(pair_max - 2) {
          for_each_seq(np, extra, |idx| {
            let mut head = vec![a, b];
            head.extend(idx.iter().map(|&i| pairs[i]));
            emit(&head, &mut stats);
          });
        }
        stats
      },
    );
    acc.absorb("decipher/pairs+body", results, capped);
  }

  // ------------------------------------------------------------------
  // (b4) raw scripts: OP_RETURN OP_13 ++ all byte strings of length <= R
  //      and all byte strings of length <= 2 as a whole script
  // ------------------------------------------------------------------
  let raw_len = 3;
  {
    let (results, capped) = util::par_map(
      257,
      Some(budget),
      |_| (),
      |_, item| {
        let mut stats = Stats::default();
        if item == 256 {
          check_scripts(&[vec![0x6a, 0x5d]], &mut stats);
          // whole scripts of length <= 2 (non-runestone unless 6a 5d)
          check_scripts(&[vec![]], &mut stats);
          check_scripts(&[], &mut stats);
          for a in 0..=255u8 {
            check_scripts(&[vec![a]], &mut stats);
            for b in 0..=255u8 {
              if (a, b) != (0x6a, 0x5d) {
                check_scripts(&[vec![a, b]], &mut stats);
                // a non-matching first output never hides a matching second one
                if b % 16 == 0 {
                  check_scripts(&[vec![a, b], vec![0x6a, 0x5d, 0x02, 0x14, 0x01]], &mut stats);
                }
              }
            }
          }
          return stats;
        }
        let a = item as u8;
        check_scripts(&[vec![0x6a, 0x5d, a]], &mut stats);
        for b in 0..=255u8 {
          check_scripts(&[vec![0x6a, 0x5d, a, b]], &mut stats);
          if raw_len >= 3 {
            for c in 0..=255u8 {
              check_scripts(&[vec![0x6a, 0x5d, a, b, c]], &mut stats);
            }
          }
        }
        stats
      },
    );
    acc.absorb("decipher/raw-scripts", results, capped);
  }

  // ------------------------------------------------------------------
  // (b5) output location: products of first / second output scripts; long varints
  // ------------------------------------------------------------------
  {
    let mut stats = Stats::default();
    let non_matching: Vec<Vec<u8>> = vec![
      vec![],
      vec![0x6a],
      vec![0x6a, 0x5c],
      vec![0x6a, 0x5e],
      vec![0x5d, 0x6a],
      vec![0x6a, 0x01, 0x5d],
      vec![0x6a, 0x4c],
      vec![0x6a, 0x4c, 0x01, 0x5d],
      vec![0x00, 0x6a, 0x5d],
      vec![0x6a, 0x6a, 0x5d],
      vec![0x6a, 0x00, 0x5d],
      vec![0x6a, 0x02, 0xde, 0xad],
      [vec![0x00, 0x14], vec![0x11; 20]].concat(),
      [vec![0x51, 0x20], vec![0x22; 32]].concat(),
    ];
    let matching: Vec<Vec<u8>> = vec![
      vec![0x6a, 0x5d],
      vec![0x6a, 0x5d, 0x02, 0x14, 0x01],
      vec![0x6a, 0x5d, 0x04, 0x02, 0x01, 0x04, 0x07],
      vec![0x6a, 0x5d, 0x51],
      vec![0x6a, 0x5d, 0x05, 0x00],
      vec![0x6a, 0x5d, 0x01, 0x80],
      vec![0x6a, 0x5d, 0x01, 0x04],
      vec![0x6a, 0x5d, 0x02, 0x16, 0x01],
      vec![0x6a, 0x5d, 0x02, 0x16, 0x02],
      vec![0x6a, 0x5d, 0x05, 0x00, 0x01, 0x00, 0x05, 0x03],
    ];
    let all: Vec<Vec<u8>> = non_matching.iter().chain(matching.iter()).cloned().collect();
    for a in &all {
      for b in &all {
        check_scripts(&[a.clone(), b.clone()], &mut stats);
        for c in &matching {
          check_scripts(&[a.clone(), b.clone(), c.clone()], &mut stats);
        }
      }
    }
    // varints of 18, 19, 20 bytes and overflow in the 19th byte, alone and after a tag
    for n in 16..=20usize {
      for last in [0x00u8, 0x01, 0x03, 0x04, 0x7f, 0x80] {
        for first in [0x80u8, 0x81, 0xff] {
          let mut payload = vec![first];
          payload.extend(std::iter::repeat_n(0x80, n.saturating_sub(2)));
          payload.push(last);
          for prefix in [vec![], vec![0x7fu8], vec![0x02]] {
            let mut p = prefix.clone();
            p.extend_from_slice(&payload);
            for suffix in [vec![], vec![0x00u8], vec![0x05]] {
              let mut q = p.clone();
              q.extend_from_slice(&suffix);
              check_scripts(&[runestone_script(&q, 0)], &mut stats);
            }
          }
        }
      }
    }
    // pushes using PUSHDATA1/2/4 with exact, short and long lengths
    for declared in [0usize, 1, 2, 3, 75, 76, 255, 256] {
      for actual in [0usize, 1, 2, 3, 75, 76, 255, 256] {
        for op in [0x4cu8, 0x4d, 0x4e] {
          let mut s = vec![0x6a, 0x5d, op];
          match op {
            0x4c => s.push(declared as u8),
            0x4d => s.extend_from_slice(&(declared as u16).to_le_bytes()),
            _ => s.extend_from_slice(&(declared as u32).to_le_bytes()),
          }
          s.extend(std::iter::repeat_n(0x7f, actual));
          check_scripts(&[s], &mut stats);
        }
      }
    }
    acc.absorb_one("decipher/output-location+long-varints+pushdata", stats);
  }


  let skipped = acc
    .total
    .hist
    .remove("skipped-duplicate-of-other-family")
    .unwrap_or(0);
  acc.report_into(&mut report);
  report.set("evaluations", acc.total.evaluations);
  report.set("distinct_nontrivial", acc.total.evaluations.saturating_sub(1));
  report.set(
    "rule",
    "each family enumerates distinct cases by construction (nested loops / odometers over explicit \
     alphabets; a case = output scripts + output count + push style, or a runestone value); families \
     are kept disjoint: the 6-symbol family only has lengths above the 23-symbol family's bound, and a \
     pairs+body sequence that also belongs to one of the two is skipped (counted in \
     skipped_duplicates); the small hand-listed location/pushdata family may repeat raw-script cases \
     (<= 4000 cases). Non-trivial = everything except the transaction without outputs",
  );
  report.set("skipped_duplicates", skipped);
  report.set(
    "space",
    format!(
      "round trip: (a1) ALL edict lists of length <= 3 over 5 ids x amounts {{0,1,MAX}} x outputs {{0,1,3}} \
       (45 edicts) x {{bare, rich etching+mint+pointer}}; (a2) divisibility {} x premine {} x rune {} x spacers {} x \
       symbol {} x terms {{None, 64 subsets x 4 value patterns}} x turbo 2 x mint 4 x pointer 3 x 3 edict contexts, \
       3-output transaction. decipher: (b1) ALL integer sequences of length <= {} over a 23-symbol alphabet x 1..3 \
       outputs (3 push styles for length <= 3); (b2) ALL sequences of length {}..={} over {{0,1,2,4,20,22}} x 1..3 \
       outputs; (b3) ALL sequences of <= {} (tag,value) pairs over a 21-pair alphabet x 10 body fragments x 1..3 \
       outputs; (b4) OP_RETURN OP_13 ++ ALL byte strings of length <= {}, ALL scripts of length <= 2; (b5) products \
       of 24 first x 24 second (x 10 third) output scripts, 16..20-byte varints, PUSHDATA length lattices",
      lattice.divisibility.len(),
      lattice.premine.len(),
      lattice.rune.len(),
      lattice.spacers.len(),
      lattice.symbol.len(),
      big_len,
      big_len + 1,
      small_max,
      pair_max,
      raw_len
    ),
  );
  report.sample(json!({"integers": ["2","1","4","4","20","1","20","0","22"], "outputs": 1,
    "expected": "cenotaph TruncatedField keeping etching 4 and mint 1:0"}));
  report.sample(json!({"scripts": ["6a5d4c"], "expected": "cenotaph InvalidScript"}));
  report.sample(json!({"scripts": ["6a", "6a5d020201"], "expected": "cenotaph UnrecognizedFlag (flags=2 without etching) from the second output"}));
  report.sample(json!({"roundtrip": runestone_json(&Runestone{
    edicts: edict_contexts[2].clone(), etching: Some(rich_etching), mint: mints[3], pointer: Some(2)}),
    "expected": "same runestone, edicts 2:3 before 2:7"}));
  report.assume(
    "reference decipher written from docs/src/runes/specification.md: a recognized field whose value is \
     invalid (pointer >= outputs, u64/u32 overflow, mint with fewer than two integers, fields of an absent \
     etching/terms, repeated fields) stays in the message and, if its tag is even, counts as an unrecognized \
     even tag; the terms and turbo flags are only recognized together with the etching flag",
  );
  report.assume(
    "a varint is bad if it is truncated, longer than 19 bytes or exceeds u128::MAX (non-minimal encodings are accepted)",
  );
  report.assume("round trip domain: divisibility <= 38, spacers <= 2^27-1, pointer < outputs, edict output <= outputs, valid rune ids; an etching whose supply overflows is predicted to decipher to a SupplyOverflow cenotaph keeping rune and mint");
  report
}
