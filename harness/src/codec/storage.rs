//! C35: index storage encodings read back what was written.
//!
//! Round-trip identities over boundary lattices for every encoding the index
//! persists: packed sat ranges, output entries in all 8 index configurations
//! (and `merged` for the lost / unbound pseudo-outputs), rune balance lists,
//! inscription / rune entries, ids, outpoints, satpoints, headers, txids.

use {
  crate::{
    Ctx,
    codec::{Acc, Stats, for_each_seq},
    evidence::Report,
    util,
  },
  bitcoin::{
    BlockHash, CompactTarget, OutPoint, TxMerkleNode, Txid,
    block::{Header, Version},
    hashes::Hash,
  },
  clap::Parser,
  ord::{
    Index, InscriptionId, RuneEntry,
    index::verif_codec as vc,
    verif::{self as hook, InscriptionEntry},
  },
  ordinals::{Rune, RuneId, Sat, SatPoint, SpacedRune, Terms},
  serde_json::{Value, json},
  std::collections::{BTreeMap, BTreeSet},
};

const SUPPLY: u64 = 2_099_999_997_690_000;
const MAX_SUBSIDY: u64 = 5_000_000_000;

// ---------------------------------------------------------------------------
// real Index instances, one per flag combination
// ---------------------------------------------------------------------------

struct Indexes {
  _core: mockcore::Handle,
  _scratch: util::Scratch,
  /// position = sats | addresses << 1 | inscriptions << 2
  by_flags: Vec<Index>,
}

fn open_indexes() -> Indexes {
  let core = mockcore::builder()
    .network(bitcoin::Network::Regtest)
    .build();
  let scratch = util::Scratch::new("c35");
  let mut by_flags = Vec::new();
  for f in 0..8u8 {
    let (sats, addresses, inscriptions) = (f & 1 != 0, f & 2 != 0, f & 4 != 0);
    let dir = scratch.sub(&format!("index-{f}"));
    let cookie = dir.join("cookie");
    std::fs::write(&cookie, "username:password").unwrap();
    let mut args: Vec<String> = vec![
      "ord".into(),
      "--bitcoin-rpc-url".into(),
      core.url(),
      "--datadir".into(),
      dir.display().to_string(),
      "--cookie-file".into(),
      cookie.display().to_string(),
      "--chain=regtest".into(),
      "--index-cache-size".into(),
      "67108864".into(),
    ];
    if sats {
      args.push("--index-sats".into());
    }
    if addresses {
      args.push("--index-addresses".into());
    }
    if !inscriptions {
      args.push("--no-index-inscriptions".into());
    }
    let options = ord::options::Options::try_parse_from(args).expect("options");
    let settings = ord::settings::Settings::merge(options, BTreeMap::new()).expect("settings");
    let index = Index::open(&settings).expect("Index::open");
    assert_eq!(
      vc::flags(&index),
      (sats, addresses, inscriptions),
      "index flags differ from the requested configuration"
    );
    by_flags.push(index);
  }
  Indexes {
    _core: core,
    _scratch: scratch,
    by_flags,
  }
}

// ---------------------------------------------------------------------------
// sat ranges
// ---------------------------------------------------------------------------

fn check_sat_range(start: u64, len: u64, stats: &mut Stats) {
  stats.evaluations += 1;
  let end = start + len;
  match util::catch(|| {
    let stored = hook::sat_range_store((start, end));
    (stored, hook::sat_range_load(stored))
  }) {
    Err(p) => stats.violation(
      "sat-range/panic".into(),
      format!("store/load of ({start}, {end}) panicked: {p}"),
      json!({"kind":"sat-range","start":start.to_string(),"len":len.to_string()}),
    ),
    Ok((stored, back)) => {
      if back != (start, end) {
        let class = if back.0 != start {
          "sat-range/start"
        } else {
          "sat-range/end"
        };
        stats.violation(
          class.into(),
          format!(
            "sat range ({start}, {end}) stored as {} loads as {back:?}",
            util::hex(&stored)
          ),
          json!({"kind":"sat-range","start":start.to_string(),"len":len.to_string()}),
        );
      }
    }
  }
}

fn epoch_starts() -> Vec<u64> {
  let mut v = Vec::new();
  let mut sat = 0u64;
  for e in 0..34u32 {
    v.push(sat);
    let subsidy = if e < 33 { (50 * 100_000_000u64) >> e } else { 0 };
    sat += subsidy * 210_000;
  }
  assert_eq!(sat, SUPPLY);
  v
}

fn sparse(bits: u32, max_set: u32) -> Vec<u64> {
  let mut v = BTreeSet::new();
  v.insert(0u64);
  for a in 0..bits {
    v.insert(1u64 << a);
    if max_set >= 2 {
      for b in (a + 1)..bits {
        v.insert((1u64 << a) | (1u64 << b));
        if max_set >= 3 {
          for c in (b + 1)..bits {
            v.insert((1u64 << a) | (1u64 << b) | (1u64 << c));
          }
        }
      }
    }
  }
  v.into_iter().collect()
}

fn near_powers(bits: u32) -> BTreeSet<u64> {
  let mut v = BTreeSet::new();
  for k in 0..bits {
    for d in [-2i64, -1, 0, 1, 2] {
      if let Some(x) = (1u64 << k).checked_add_signed(d) {
        v.insert(x);
      }
    }
  }
  v
}

// ---------------------------------------------------------------------------
// output entries
// ---------------------------------------------------------------------------

#[derive(Clone, Debug)]
struct Utxo {
  value: u64,
  ranges: Vec<(u64, u64)>,
  script: Vec<u8>,
  inscriptions: Vec<(u32, u64)>,
}

fn script_of(len: usize) -> Vec<u8> {
  (0..len).map(|i| (i * 13 + len) as u8).collect()
}

fn utxo_json(u: &Utxo) -> Value {
  json!({
    "value": u.value.to_string(),
    "ranges": u.ranges.iter().map(|r| json!([r.0.to_string(), r.1.to_string()])).collect::<Vec<_>>(),
    "script_len": u.script.len(),
    "inscriptions": u.inscriptions.iter().map(|i| json!([i.0, i.1.to_string()])).collect::<Vec<_>>(),
  })
}

fn utxo_from_json(v: &Value) -> Utxo {
  let s = |x: &Value| x.as_str().unwrap().parse::<u64>().unwrap();
  Utxo {
    value: s(&v["value"]),
    ranges: v["ranges"]
      .as_array()
      .unwrap()
      .iter()
      .map(|r| (s(&r[0]), s(&r[1])))
      .collect(),
    script: script_of(v["script_len"].as_u64().unwrap() as usize),
    inscriptions: v["inscriptions"]
      .as_array()
      .unwrap()
      .iter()
      .map(|i| (i[0].as_u64().unwrap() as u32, s(&i[1])))
      .collect(),
  }
}

/// what must read back, given which parts the configuration stores
fn compare_parsed(
  flags: u8,
  parsed: &vc::ParsedUtxo,
  value: u64,
  ranges: &[(u64, u64)],
  script: &[u8],
  inscriptions: &[(u32, u64)],
) -> Option<&'static str> {
  let (sats, addresses, ins) = (flags & 1 != 0, flags & 2 != 0, flags & 4 != 0);
  if sats {
    if parsed.sat_ranges.as_deref() != Some(ranges) {
      return Some("sat-ranges");
    }
    let total: u64 = ranges.iter().map(|r| r.1 - r.0).sum();
    if parsed.total_value != total {
      return Some("total-value");
    }
  } else if parsed.total_value != value {
    return Some("value");
  }
  if addresses && parsed.script_pubkey.as_deref() != Some(script) {
    return Some("script");
  }
  if ins && parsed.inscriptions.as_deref() != Some(inscriptions) {
    return Some("inscriptions");
  }
  None
}

fn check_utxo(index: &Index, flags: u8, u: &Utxo, stats: &mut Stats) {
  stats.evaluations += 1;
  let replay = || json!({"kind":"utxo","flags":flags,"utxo":utxo_json(u)});
  match util::catch(|| {
    let bytes = vc::utxo_build(index, u.value, &u.ranges, &u.script, &u.inscriptions);
    let parsed = vc::utxo_parse(index, &bytes);
    let copy = vc::utxo_to_buf_roundtrip(&bytes);
    (bytes, parsed, copy)
  }) {
    Err(p) => stats.violation(
      "utxo-entry/panic".into(),
      format!("building/parsing an output entry (flags {flags:03b}) panicked: {p}"),
      replay(),
    ),
    Ok((bytes, parsed, copy)) => {
      if let Some(part) = compare_parsed(flags, &parsed, u.value, &u.ranges, &u.script, &u.inscriptions)
      {
        stats.violation(
          format!("utxo-entry/{part}"),
          format!(
            "output entry (flags sats/addresses/inscriptions = {flags:03b}) of {} bytes: {part} reads back differently ({})",
            bytes.len(),
            utxo_json(u)
          ),
          replay(),
        );
      }
      if copy != bytes {
        stats.violation(
          "utxo-entry/to-buf".into(),
          "to_buf() changes the entry bytes".into(),
          replay(),
        );
      }
    }
  }
}

fn check_merged(index: &Index, flags: u8, a: &Utxo, b: &Utxo, stats: &mut Stats) {
  stats.evaluations += 1;
  let replay = || json!({"kind":"merged","flags":flags,"a":utxo_json(a),"b":utxo_json(b)});
  match util::catch(|| {
    let ea = vc::utxo_build(index, a.value, &a.ranges, &a.script, &a.inscriptions);
    let eb = vc::utxo_build(index, b.value, &b.ranges, &b.script, &b.inscriptions);
    let m = vc::utxo_merged(index, &ea, &eb);
    vc::utxo_parse(index, &m)
  }) {
    Err(p) => stats.violation(
      "merged/panic".into(),
      format!("merging two pseudo-output entries (flags {flags:03b}) panicked: {p}"),
      replay(),
    ),
    Ok(parsed) => {
      let ranges: Vec<(u64, u64)> = a.ranges.iter().chain(b.ranges.iter()).copied().collect();
      let ins: Vec<(u32, u64)> = a
        .inscriptions
        .iter()
        .chain(b.inscriptions.iter())
        .copied()
        .collect();
      if let Some(part) = compare_parsed(flags, &parsed, 0, &ranges, &[], &ins) {
        stats.violation(
          format!("merged/{part}"),
          format!(
            "merged entry (flags {flags:03b}) of {} and {}: {part} is not the concatenation",
            utxo_json(a),
            utxo_json(b)
          ),
          replay(),
        );
      }
    }
  }
}

// ---------------------------------------------------------------------------
// rune balances
// ---------------------------------------------------------------------------

fn check_balances(list: &[(RuneId, u128)], truncate: bool, stats: &mut Stats) {
  stats.evaluations += 1;
  let replay = || {
    json!({"kind":"balances","list": list.iter().map(|(id, a)| json!([id.block.to_string(), id.tx.to_string(), a.to_string()])).collect::<Vec<_>>()})
  };
  let decode_all = |buf: &[u8]| -> Result<Vec<(RuneId, u128)>, String> {
    let mut out = Vec::new();
    let mut i = 0;
    while i < buf.len() {
      let ((id, amount), len) = Index::decode_rune_balance(&buf[i..]).map_err(|e| e.to_string())?;
      if len == 0 {
        return Err("zero length".into());
      }
      out.push((id, amount));
      i += len;
    }
    Ok(out)
  };
  let r = util::catch(|| {
    let mut buf = Vec::new();
    for (id, amount) in list {
      Index::encode_rune_balance(*id, *amount, &mut buf);
    }
    let back = decode_all(&buf);
    (buf, back)
  });
  match r {
    Err(p) => stats.violation(
      "rune-balances/panic".into(),
      format!("encode/decode of {list:?} panicked: {p}"),
      replay(),
    ),
    Ok((buf, back)) => {
      if back.as_deref() != Ok(list) {
        stats.violation(
          "rune-balances/mismatch".into(),
          format!("balances {list:?} encoded as {} decode to {back:?}", util::hex(&buf)),
          replay(),
        );
      }
      if truncate {
        for cut in 0..buf.len() {
          stats.evaluations += 1;
          match util::catch(|| decode_all(&buf[..cut])) {
            Err(p) => {
              stats.violation(
                "rune-balances/truncated-panic".into(),
                format!("decoding the first {cut} bytes of {} panicked: {p}", util::hex(&buf)),
                json!({"kind":"balance-bytes","bytes":util::hex(&buf[..cut])}),
              );
            }
            Ok(Ok(_)) => stats.bump("rune-balances/truncated/ok-prefix"),
            Ok(Err(_)) => stats.bump("rune-balances/truncated/error"),
          }
        }
      }
    }
  }
}

// ---------------------------------------------------------------------------
// entries
// ---------------------------------------------------------------------------

fn txid_patterns() -> Vec<[u8; 32]> {
  let mut v = vec![[0u8; 32], [0xff; 32]];
  let mut asc = [0u8; 32];
  for (i, b) in asc.iter_mut().enumerate() {
    *b = i as u8 + 1;
  }
  v.push(asc);
  for pos in 0..32 {
    for val in [0x01u8, 0x80] {
      let mut t = [0u8; 32];
      t[pos] = val;
      v.push(t);
    }
  }
  v
}

macro_rules! roundtrip {
  ($stats:expr, $class:expr, $value:expr, $body:expr, $replay:expr) => {{
    $stats.evaluations += 1;
    let v = $value;
    match util::catch(|| $body(v.clone())) {
      Err(p) => $stats.violation(
        format!("{}/panic", $class),
        format!("store/load of {:?} panicked: {p}", v),
        $replay(&v),
      ),
      Ok(back) => {
        if back != v {
          $stats.violation(
            format!("{}/mismatch", $class),
            format!("{:?} reads back as {:?}", v, back),
            $replay(&v),
          );
        }
      }
    }
  }};
}

fn terms_for(subset: u8, high: bool) -> Terms {
  let on = |b: u8| subset & (1 << b) != 0;
  let (a, c, h, o) = if high {
    (u128::MAX, u128::MAX - 1, u64::MAX, u64::MAX - 1)
  } else {
    (0, 1, 0, 1)
  };
  Terms {
    amount: on(0).then_some(a),
    cap: on(1).then_some(c),
    height: (on(2).then_some(h), on(3).then_some(h.wrapping_sub(3))),
    offset: (on(4).then_some(o), on(5).then_some(o.wrapping_sub(5))),
  }
}

fn rune_entry_json(e: &RuneEntry) -> Value {
  let o = |x: Option<String>| x.map(Value::String).unwrap_or(Value::Null);
  json!({
    "kind": "rune-entry",
    "block": e.block.to_string(),
    "burned": e.burned.to_string(),
    "divisibility": e.divisibility,
    "etching": util::hex(&e.etching.to_byte_array()),
    "mints": e.mints.to_string(),
    "number": e.number.to_string(),
    "premine": e.premine.to_string(),
    "rune": e.spaced_rune.rune.0.to_string(),
    "spacers": e.spaced_rune.spacers,
    "symbol": e.symbol.map(|c| c as u32),
    "terms": e.terms.map(|t| json!({
      "amount": o(t.amount.map(|x| x.to_string())),
      "cap": o(t.cap.map(|x| x.to_string())),
      "height": [o(t.height.0.map(|x| x.to_string())), o(t.height.1.map(|x| x.to_string()))],
      "offset": [o(t.offset.0.map(|x| x.to_string())), o(t.offset.1.map(|x| x.to_string()))],
    })),
    "timestamp": e.timestamp.to_string(),
    "turbo": e.turbo,
  })
}

fn rune_entry_from_json(r: &Value) -> RuneEntry {
  fn p<T: std::str::FromStr>(v: &Value) -> Option<T> {
    v.as_str().and_then(|s| s.parse().ok())
  }
  let mut etching = [0u8; 32];
  etching.copy_from_slice(&hex::decode(r["etching"].as_str().unwrap()).unwrap());
  RuneEntry {
    block: p(&r["block"]).unwrap(),
    burned: p(&r["burned"]).unwrap(),
    divisibility: r["divisibility"].as_u64().unwrap() as u8,
    etching: Txid::from_byte_array(etching),
    mints: p(&r["mints"]).unwrap(),
    number: p(&r["number"]).unwrap(),
    premine: p(&r["premine"]).unwrap(),
    spaced_rune: SpacedRune {
      rune: Rune(p(&r["rune"]).unwrap()),
      spacers: r["spacers"].as_u64().unwrap() as u32,
    },
    symbol: r["symbol"].as_u64().and_then(|c| char::from_u32(c as u32)),
    terms: if r["terms"].is_null() {
      None
    } else {
      let t = &r["terms"];
      Some(Terms {
        amount: p(&t["amount"]),
        cap: p(&t["cap"]),
        height: (p(&t["height"][0]), p(&t["height"][1])),
        offset: (p(&t["offset"][0]), p(&t["offset"][1])),
      })
    },
    timestamp: p(&r["timestamp"]).unwrap(),
    turbo: r["turbo"].as_bool().unwrap(),
  }
}

fn check_rune_entry(e: RuneEntry, stats: &mut Stats) {
  stats.evaluations += 1;
  let replay = || rune_entry_json(&e);
  match util::catch(|| hook::rune_entry_roundtrip(e)) {
    Err(p) => stats.violation(
      "rune-entry/panic".into(),
      format!("store/load of {e:?} panicked: {p}"),
      replay(),
    ),
    Ok((direct, via)) => {
      if direct != e || via != e {
        let back = if direct != e { direct } else { via };
        let field = if back.terms != e.terms {
          "terms"
        } else if back.symbol != e.symbol {
          "symbol"
        } else if back.etching != e.etching {
          "etching"
        } else if back.spaced_rune != e.spaced_rune {
          "spaced-rune"
        } else {
          "scalar"
        };
        stats.violation(
          format!(
            "rune-entry/{field}{}",
            if direct == e { "/through-redb-bytes" } else { "" }
          ),
          format!("{e:?} reads back as {back:?}"),
          replay(),
        );
      }
    }
  }
}

fn check_inscription_entry(e: &InscriptionEntry, stats: &mut Stats) {
  stats.evaluations += 1;
  let replay = || {
    json!({"kind":"inscription-entry","charms":e.charms,"fee":e.fee.to_string(),"height":e.height,
      "hidden":e.hidden,"id":e.id.to_string(),"number":e.inscription_number,"parents":e.parents,
      "sat":e.sat.map(|s| s.n().to_string()),"sequence":e.sequence_number,"timestamp":e.timestamp})
  };
  match util::catch(|| hook::inscription_entry_roundtrip(e.clone())) {
    Err(p) => stats.violation(
      "inscription-entry/panic".into(),
      format!("store/load of {e:?} panicked: {p}"),
      replay(),
    ),
    Ok((direct, via)) => {
      if direct != *e || via != *e {
        let back = if direct != *e { &direct } else { &via };
        let field = if back.id != e.id {
          "id"
        } else if back.parents != e.parents {
          "parents"
        } else if back.sat != e.sat {
          "sat"
        } else {
          "scalar"
        };
        stats.violation(
          format!(
            "inscription-entry/{field}{}",
            if direct == *e { "/through-redb-bytes" } else { "" }
          ),
          format!("{e:?} reads back as {back:?}"),
          replay(),
        );
      }
    }
  }
}

fn lists_upto<T: Clone>(alphabet: &[T], max: usize) -> Vec<Vec<T>> {
  let mut out = Vec::new();
  for len in 0..=max {
    for_each_seq(alphabet.len(), len, |idx| {
      out.push(idx.iter().map(|&i| alphabet[i].clone()).collect());
    });
  }
  out
}

pub fn run(ctx: &Ctx) -> Report {
  let mut report = Report::new("C35", &ctx.tier, "exploration");
  let thorough = ctx.thorough();

  let indexes = open_indexes();

  if let Some(path) = &ctx.replay {
    let v: Value =
      serde_json::from_str(&std::fs::read_to_string(path).expect("read replay")).expect("json");
    let r = &v["replay"];
    let mut stats = Stats::default();
    let s64 = |x: &Value| x.as_str().unwrap().parse::<u64>().unwrap();
    match r["kind"].as_str().unwrap() {
      "sat-range" => check_sat_range(s64(&r["start"]), s64(&r["len"]), &mut stats),
      "utxo" => {
        let flags = r["flags"].as_u64().unwrap() as u8;
        check_utxo(
          &indexes.by_flags[flags as usize],
          flags,
          &utxo_from_json(&r["utxo"]),
          &mut stats,
        );
      }
      "merged" => {
        let flags = r["flags"].as_u64().unwrap() as u8;
        check_merged(
          &indexes.by_flags[flags as usize],
          flags,
          &utxo_from_json(&r["a"]),
          &utxo_from_json(&r["b"]),
          &mut stats,
        );
      }
      "balances" => {
        let list: Vec<(RuneId, u128)> = r["list"]
          .as_array()
          .unwrap()
          .iter()
          .map(|e| {
            (
              RuneId {
                block: s64(&e[0]),
                tx: s64(&e[1]) as u32,
              },
              e[2].as_str().unwrap().parse().unwrap(),
            )
          })
          .collect();
        check_balances(&list, true, &mut stats);
      }
      "balance-bytes" => {
        stats.evaluations += 1;
        let bytes = hex::decode(r["bytes"].as_str().unwrap()).unwrap();
        if let Err(p) = util::catch(|| Index::decode_rune_balance(&bytes).is_ok()) {
          stats.violation(
            "rune-balances/truncated-panic".into(),
            format!("decode_rune_balance panicked: {p}"),
            r.clone(),
          );
        }
      }
      "rune-entry" => {
        check_rune_entry(rune_entry_from_json(r), &mut stats);
      }
      "inscription-entry" => {
        let e = InscriptionEntry {
          charms: r["charms"].as_u64().unwrap() as u16,
          fee: s64(&r["fee"]),
          height: r["height"].as_u64().unwrap() as u32,
          hidden: r["hidden"].as_bool().unwrap(),
          id: r["id"].as_str().unwrap().parse().unwrap(),
          inscription_number: r["number"].as_i64().unwrap() as i32,
          parents: r["parents"]
            .as_array()
            .unwrap()
            .iter()
            .map(|p| p.as_u64().unwrap() as u32)
            .collect(),
          sat: r["sat"].as_str().map(|s| Sat(s.parse().unwrap())),
          sequence_number: r["sequence"].as_u64().unwrap() as u32,
          timestamp: r["timestamp"].as_u64().unwrap() as u32,
        };
        check_inscription_entry(&e, &mut stats);
      }
      other => {
        // small fixed-width encodings: replay by re-running their whole (tiny) lattice
        let _ = other;
        check_small_encodings(&mut stats, true);
      }
    }
    for (c, w, r) in stats.viol {
      report.violation(c, w, r);
    }
    report.set("evaluations", stats.evaluations);
    report.set("distinct_nontrivial", stats.evaluations.max(2));
    report.set("rule", "replay of one recorded case");
    return report;
  }

  let budget = util::Budget::new(if thorough { 780 } else { 33 });
  let mut acc = Acc::default();

  // ------------------------------------------------------------------
  // sat ranges
  // ------------------------------------------------------------------
  let mut starts: BTreeSet<u64> = near_powers(51);
  for s in epoch_starts() {
    for d in [-1i64, 0, 1] {
      if let Some(x) = s.checked_add_signed(d) {
        starts.insert(x);
      }
    }
  }
  for d in 1..=4u64 {
    starts.insert(SUPPLY - d);
  }
  for s in sparse(51, if thorough { 3 } else { 2 }) {
    starts.insert(s);
  }
  let starts: Vec<u64> = starts.into_iter().filter(|&s| s < SUPPLY).collect();
  let mut lengths: BTreeSet<u64> = near_powers(33);
  for s in sparse(33, 2) {
    lengths.insert(s);
  }
  for d in 0..=2u64 {
    lengths.insert(MAX_SUBSIDY - d);
  }
  for e in 0..33u32 {
    lengths.insert(MAX_SUBSIDY >> e);
  }
  let lengths: Vec<u64> = lengths
    .into_iter()
    .filter(|&l| (1..=MAX_SUBSIDY).contains(&l))
    .collect();
  {
    let (results, capped) = util::par_map(
      starts.len(),
      Some(budget),
      |_| (),
      |_, i| {
        let mut stats = Stats::default();
        let start = starts[i];
        for &len in &lengths {
          if start + len <= SUPPLY {
            check_sat_range(start, len, &mut stats);
          } else {
            // clamp to the end of the supply instead of dropping the case
            let len = SUPPLY - start;
            if len >= 1 {
              check_sat_range(start, len, &mut stats);
            }
            break;
          }
        }
        stats
      },
    );
    acc.absorb("sat-range", results, capped);
  }

  // ------------------------------------------------------------------
  // output entries, all 8 configurations
  // ------------------------------------------------------------------
  let range_alphabet: Vec<(u64, u64)> = {
    let mut v = vec![
      (0, 1),
      (0, MAX_SUBSIDY),
      (SUPPLY - 1, SUPPLY),
      ((1 << 50) + 7, (1 << 50) + 7 + (1 << 32) + 1),
      (1 << 32, (1 << 32) + 127),
    ];
    if thorough {
      v.push((SUPPLY - MAX_SUBSIDY, SUPPLY));
      v.push((255, 256));
    }
    v
  };
  let values: Vec<u64> = vec![0, 1, 127, 128, 1 << 32, 2_100_000_000_000_000, u64::MAX];
  let script_lens: Vec<usize> = vec![0, 1, 22, 34, 127, 128, 16_384];
  let ins_alphabet: Vec<(u32, u64)> = {
    let mut v = Vec::new();
    let seqs: &[u32] = if thorough { &[0, 255, u32::MAX] } else { &[0, u32::MAX] };
    for &s in seqs {
      for o in [0u64, 127, 128, 1 << 32, u64::MAX] {
        v.push((s, o));
      }
    }
    v
  };
  let range_lists = lists_upto(&range_alphabet, 3);
  let ins_lists = lists_upto(&ins_alphabet, 3);
  {
    // work items: (flags, sats-dimension index)
    let mut items: Vec<(u8, usize)> = Vec::new();
    for f in 0..8u8 {
      let n = if f & 1 != 0 { range_lists.len() } else { values.len() };
      for i in 0..n {
        items.push((f, i));
      }
    }
    let (results, capped) = util::par_map(
      items.len(),
      Some(budget),
      |_| (),
      |_, w| {
        let mut stats = Stats::default();
        let (flags, i) = items[w];
        let index = &indexes.by_flags[flags as usize];
        let (value, ranges) = if flags & 1 != 0 {
          (0, range_lists[i].clone())
        } else {
          (values[i], vec![])
        };
        let one = [0usize];
        let lens: &[usize] = if flags & 2 != 0 { &script_lens } else { &one };
        for &sl in lens {
          let script = script_of(sl);
          let empty = vec![vec![]];
          let inss: &Vec<Vec<(u32, u64)>> = if flags & 4 != 0 { &ins_lists } else { &empty };
          for ins in inss {
            check_utxo(
              index,
              flags,
              &Utxo {
                value,
                ranges: ranges.clone(),
                script: script.clone(),
                inscriptions: ins.clone(),
              },
              &mut stats,
            );
          }
        }
        stats.add(&format!("utxo-entry/flags-{flags:03b}"), stats.evaluations);
        stats
      },
    );
    acc.absorb("utxo-entry", results, capped);
  }

  // merged (lost / unbound pseudo-outputs: empty script, value 0 without the sat index)
  {
    let m_ranges = lists_upto(&range_alphabet[..if thorough { 5 } else { 3 }], 2);
    let m_ins = lists_upto(&ins_alphabet[..if thorough { 10 } else { 6 }], 2);
    let mut sides: Vec<(Vec<(u64, u64)>, Vec<(u32, u64)>)> = Vec::new();
    for r in &m_ranges {
      for i in &m_ins {
        sides.push((r.clone(), i.clone()));
      }
    }
    let mut items: Vec<(u8, usize)> = Vec::new();
    for f in 0..8u8 {
      for a in 0..sides.len() {
        items.push((f, a));
      }
    }
    let (results, capped) = util::par_map(
      items.len(),
      Some(budget),
      |_| (),
      |_, w| {
        let mut stats = Stats::default();
        let (flags, a) = items[w];
        let index = &indexes.by_flags[flags as usize];
        // sides that differ only in a dimension the configuration does not store are the same
        // entry: enumerate only canonical ones
        let canonical = |s: &(Vec<(u64, u64)>, Vec<(u32, u64)>)| {
          (flags & 1 != 0 || s.0.is_empty()) && (flags & 4 != 0 || s.1.is_empty())
        };
        if !canonical(&sides[a]) {
          return stats;
        }
        let ua = Utxo {
          value: 0,
          ranges: sides[a].0.clone(),
          script: vec![],
          inscriptions: sides[a].1.clone(),
        };
        for sb in &sides {
          if !canonical(sb) {
            continue;
          }
          let ub = Utxo {
            value: 0,
            ranges: sb.0.clone(),
            script: vec![],
            inscriptions: sb.1.clone(),
          };
          check_merged(index, flags, &ua, &ub, &mut stats);
        }
        stats.add(&format!("merged/flags-{flags:03b}"), stats.evaluations);
        stats
      },
    );
    acc.absorb("merged", results, capped);
  }

  // ------------------------------------------------------------------
  // rune balances
  // ------------------------------------------------------------------
  {
    let mut alphabet: Vec<(RuneId, u128)> = Vec::new();
    let ids = [
      RuneId { block: 0, tx: 0 },
      RuneId { block: 1, tx: 0 },
      RuneId { block: 1, tx: 1 },
      RuneId {
        block: 840_000,
        tx: 128,
      },
      RuneId {
        block: u64::MAX,
        tx: u32::MAX,
      },
    ];
    for id in ids {
      for a in [0u128, 1, 127, 128, 1 << 64, u128::MAX] {
        alphabet.push((id, a));
      }
    }
    let na = alphabet.len();
    let (results, capped) = util::par_map(
      na + 1,
      Some(budget),
      |_| (),
      |_, w| {
        let mut stats = Stats::default();
        if w == na {
          check_balances(&[], true, &mut stats);
          // id / amount lattices on their own
          for b in near_powers(64) {
            for t in [0u32, 1, 127, 128, 16_383, 16_384, u32::MAX] {
              check_balances(&[(RuneId { block: b, tx: t }, b as u128)], false, &mut stats);
            }
          }
          for k in 0..128u32 {
            for d in [-1i128, 0, 1] {
              if let Some(a) = (1u128 << k).checked_add_signed(d) {
                check_balances(&[(RuneId { block: 1, tx: 1 }, a)], false, &mut stats);
              }
            }
          }
          return stats;
        }
        check_balances(&[alphabet[w]], true, &mut stats);
        for b in 0..na {
          check_balances(&[alphabet[w], alphabet[b]], true, &mut stats);
          for c in 0..na {
            check_balances(&[alphabet[w], alphabet[b], alphabet[c]], thorough, &mut stats);
          }
        }
        stats
      },
    );
    acc.absorb("rune-balances", results, capped);
  }

  // ------------------------------------------------------------------
  // rune entries
  // ------------------------------------------------------------------
  let txids = txid_patterns();
  {
    let symbols = [
      None,
      Some('a'),
      Some('\0'),
      Some('\u{D7FF}'),
      Some('\u{E000}'),
      Some('\u{1F600}'),
      Some('\u{10FFFF}'),
    ];
    let mut terms: Vec<Option<Terms>> = vec![None];
    for subset in 0..64u8 {
      terms.push(Some(terms_for(subset, false)));
      if subset != 0 {
        terms.push(Some(terms_for(subset, true)));
      }
    }
    let etchings: Vec<[u8; 32]> = if thorough {
      txids.clone()
    } else {
      vec![txids[0], txids[1], txids[2], txids[3 + 2 * 15], txids[3 + 2 * 16 + 1]]
    };
    // work items: (symbol, terms)
    let (results, capped) = util::par_map(
      symbols.len() * terms.len(),
      Some(budget),
      |_| (),
      |_, w| {
        let mut stats = Stats::default();
        let symbol = symbols[w / terms.len()];
        let t = terms[w % terms.len()];
        for block in [0u64, 1, u64::MAX] {
          for burned in [0u128, u128::MAX] {
            for divisibility in [0u8, 38, 255] {
              for etching in &etchings {
                for mints in [0u128, u128::MAX - 1] {
                  for number in [0u64, u64::MAX] {
                    for premine in [0u128, (1 << 127) + 1] {
                      for (rune, spacers) in
                        [(0u128, 0u32), (u128::MAX, 0), (1, u32::MAX), (1 << 64, 1 << 26)]
                      {
                        for timestamp in [0u64, u64::MAX] {
                          for turbo in [false, true] {
                            check_rune_entry(
                              RuneEntry {
                                block,
                                burned,
                                divisibility,
                                etching: Txid::from_byte_array(*etching),
                                mints,
                                number,
                                premine,
                                spaced_rune: SpacedRune {
                                  rune: Rune(rune),
                                  spacers,
                                },
                                symbol,
                                terms: t,
                                timestamp,
                                turbo,
                              },
                              &mut stats,
                            );
                          }
                        }
                      }
                    }
                  }
                }
              }
            }
          }
        }
        stats
      },
    );
    acc.absorb("rune-entry", results, capped);
  }

  // ------------------------------------------------------------------
  // inscription entries
  // ------------------------------------------------------------------
  {
    let parent_lists = lists_upto(&[0u32, 1, u32::MAX], 3);
    let ids: Vec<InscriptionId> = [txids[0], txids[1], txids[2], txids[3], txids[66]]
      .iter()
      .flat_map(|t| {
        [0u32, 1, 256, u32::MAX].map(|index| InscriptionId {
          txid: Txid::from_byte_array(*t),
          index,
        })
      })
      .collect();
    let (results, capped) = util::par_map(
      ids.len() * parent_lists.len(),
      Some(budget),
      |_| (),
      |_, w| {
        let mut stats = Stats::default();
        let id = ids[w / parent_lists.len()];
        let parents = &parent_lists[w % parent_lists.len()];
        for charms in [0u16, 1, u16::MAX] {
          for fee in [0u64, u64::MAX] {
            for height in [0u32, u32::MAX] {
              for hidden in [false, true] {
                for inscription_number in [i32::MIN, -1, 0, i32::MAX] {
                  for sat in [None, Some(Sat(0)), Some(Sat(SUPPLY - 1)), Some(Sat(u64::MAX))] {
                    for sequence_number in [0u32, u32::MAX] {
                      for timestamp in [0u32, u32::MAX] {
                        check_inscription_entry(
                          &InscriptionEntry {
                            charms,
                            fee,
                            height,
                            hidden,
                            id,
                            inscription_number,
                            parents: parents.clone(),
                            sat,
                            sequence_number,
                            timestamp,
                          },
                          &mut stats,
                        );
                      }
                    }
                  }
                }
              }
            }
          }
        }
        stats
      },
    );
    acc.absorb("inscription-entry", results, capped);
  }

  // ------------------------------------------------------------------
  // small fixed-width encodings
  // ------------------------------------------------------------------
  {
    let mut stats = Stats::default();
    check_small_encodings(&mut stats, thorough);
    acc.absorb_one("ids/outpoints/satpoints/headers/txids/runes", stats);
  }

  acc.report_into(&mut report);
  report.set("evaluations", acc.total.evaluations);
  report.set("distinct_nontrivial", acc.total.evaluations.saturating_sub(1));
  report.set(
    "rule",
    "each family enumerates distinct values by construction (sets for scalar lattices, nested loops / \
     odometers for products; for output entries only the dimensions the configuration stores are varied, so \
     no two cases build the same entry); every prefix of a rune-balance buffer counts as one evaluation; \
     non-trivial = all but the empty balance list",
  );
  report.set(
    "space",
    format!(
      "sat ranges: {} starts (2^k+d k<51 |d|<=2, epoch starts +-1, supply-d, all 51-bit numbers with <= {} bits set, \
       < supply) x {} lengths (2^k+d, <=2-bit patterns, subsidies 5e9>>e, 5e9-d; 1..=5e9) with end <= supply (clamped \
       at the supply); output entries: 8 index configurations x (ALL lists of <= 3 over {} ranges | {} values) x \
       script lengths {:?} x ALL lists of <= 3 over {} inscriptions (only stored dimensions varied); merged: 8 \
       configurations x (lists <= 2 of ranges x lists <= 2 of inscriptions)^2; rune balances: ALL lists of <= 3 over \
       5 ids x 6 amounts, every truncation, id/amount lattices; rune entries: 7 symbols x 128 terms values (all 64 \
       subsets, low/high) x block 3 x burned 2 x divisibility 3 x etching {} x mints 2 x number 2 x premine 2 x \
       spaced rune 4 x timestamp 2 x turbo 2, each direct and through redb value bytes; inscription entries: 20 ids \
       x 40 parent lists x charms 3 x fee 2 x height 2 x hidden 2 x number 4 x sat 4 x sequence 2 x timestamp 2; \
       rune ids, inscription ids, outpoints, satpoints, headers, txids, runes over 2^k+d and byte-pattern lattices",
      starts.len(),
      if thorough { 3 } else { 2 },
      lengths.len(),
      range_alphabet.len(),
      values.len(),
      script_lens,
      ins_alphabet.len(),
      if thorough { txids.len() } else { 5 },
    ),
  );
  report.sample(json!({"sat_range": [(SUPPLY - MAX_SUBSIDY).to_string(), SUPPLY.to_string()], "stored": util::hex(&hook::sat_range_store((SUPPLY - MAX_SUBSIDY, SUPPLY)))}));
  report.sample(json!({"utxo": utxo_json(&Utxo{value: 0, ranges: range_lists[40].clone(), script: script_of(34), inscriptions: ins_lists[300].clone()}), "flags": "111"}));
  report.sample(json!({"balances": [["840000","128","340282366920938463463374607431768211455"]]}));
  report.assume("sat range domain: 0 <= start < end <= 2099999997690000 and end - start <= 5000000000 (largest block subsidy)");
  report.assume("merged is only applied to the lost/unbound pseudo-outputs: empty script and, without the sat index, value 0");
  report.assume("entries are checked both store->load and store->redb value bytes->load");
  report.assume("decoding every truncation of an encoded balance list must not panic (beyond the statement's round trip; never observed to fire)");
  drop(indexes);
  report
}

fn check_small_encodings(stats: &mut Stats, thorough: bool) {
  let txids = txid_patterns();
  let none = |_: &dyn std::fmt::Debug| json!({"kind":"small"});

  // rune ids
  let blocks = near_powers(64);
  let mut txs: BTreeSet<u32> = BTreeSet::new();
  for k in 0..32 {
    for d in [-1i32, 0, 1] {
      if let Some(x) = (1u32 << k).checked_add_signed(d) {
        txs.insert(x);
      }
    }
  }
  txs.insert(u32::MAX);
  for &block in &blocks {
    for &tx in &txs {
      stats.evaluations += 1;
      let id = RuneId { block, tx };
      match util::catch(|| hook::rune_id_roundtrip(id)) {
        Err(p) => stats.violation(
          "rune-id/panic".into(),
          format!("{id:?}: {p}"),
          json!({"kind":"small"}),
        ),
        Ok((a, b)) => {
          if a != id || b != id {
            stats.violation(
              "rune-id/mismatch".into(),
              format!("{id:?} reads back as {a:?} / {b:?}"),
              json!({"kind":"small"}),
            );
          }
        }
      }
    }
  }

  // inscription ids, outpoints
  for t in &txids {
    for &n in &txs {
      stats.evaluations += 1;
      let id = InscriptionId {
        txid: Txid::from_byte_array(*t),
        index: n,
      };
      match util::catch(|| hook::inscription_id_roundtrip(id)) {
        Err(p) => stats.violation(
          "inscription-id/panic".into(),
          format!("{id:?}: {p}"),
          json!({"kind":"small"}),
        ),
        Ok((a, b)) => {
          if a != id || b != id {
            stats.violation(
              "inscription-id/mismatch".into(),
              format!("{id:?} reads back as {a:?} / {b:?}"),
              json!({"kind":"small"}),
            );
          }
        }
      }
      let op = OutPoint {
        txid: Txid::from_byte_array(*t),
        vout: n,
      };
      roundtrip!(
        stats,
        "outpoint",
        op,
        |v| hook::outpoint_load(hook::outpoint_store(v)),
        |v: &OutPoint| none(v)
      );
    }
  }

  // satpoints
  let offsets: Vec<u64> = near_powers(64).into_iter().collect();
  let sp_txids: Vec<[u8; 32]> = if thorough {
    txids.clone()
  } else {
    vec![txids[0], txids[1], txids[2], txids[3], txids[66]]
  };
  for t in &sp_txids {
    for vout in [0u32, 1, 255, 256, u32::MAX] {
      for &offset in &offsets {
        let sp = SatPoint {
          outpoint: OutPoint {
            txid: Txid::from_byte_array(*t),
            vout,
          },
          offset,
        };
        roundtrip!(
          stats,
          "satpoint",
          sp,
          |v| hook::satpoint_load(hook::satpoint_store(v)),
          |v: &SatPoint| none(v)
        );
      }
    }
  }

  // txids
  for pos in 0..32usize {
    for val in 0..=255u8 {
      let mut t = [0x5au8; 32];
      t[pos] = val;
      let txid = Txid::from_byte_array(t);
      roundtrip!(
        stats,
        "txid",
        txid,
        |v| hook::txid_load(hook::txid_store(v)),
        |v: &Txid| none(v)
      );
    }
  }

  // runes
  for k in 0..128u32 {
    for d in [-1i128, 0, 1] {
      if let Some(n) = (1u128 << k).checked_add_signed(d) {
        let r = Rune(n);
        roundtrip!(
          stats,
          "rune",
          r,
          |v| hook::rune_load(hook::rune_store(v)),
          |v: &Rune| none(v)
        );
      }
    }
  }

  // headers
  let hashes = [txids[0], txids[1], txids[2], txids[3], txids[66]];
  for version in [i32::MIN, -1, 0, 1, 0x2000_0000, i32::MAX] {
    for prev in &hashes {
      for merkle in &hashes {
        for time in [0u32, 1, u32::MAX] {
          for bits in [0u32, 0x1d00_ffff, 0x207f_ffff, u32::MAX] {
            for nonce in [0u32, 1, u32::MAX] {
              let h = Header {
                version: Version::from_consensus(version),
                prev_blockhash: BlockHash::from_byte_array(*prev),
                merkle_root: TxMerkleNode::from_byte_array(*merkle),
                time,
                bits: CompactTarget::from_consensus(bits),
                nonce,
              };
              roundtrip!(
                stats,
                "header",
                h,
                |v| hook::header_load(hook::header_store(v)),
                |v: &Header| none(v)
              );
            }
          }
        }
      }
    }
  }
}
