//! C30: printed sat notations parse back to the same sat.
//!
//! Oracle: the round-trip identity parse(print(s)) == s for the five notations
//! ord prints: integer (`Sat` Display), decimal (`Sat::decimal()`), degree
//! (`Sat::degree()`), percentile (`Sat::percentile()`), name (`Sat::name()`),
//! each parsed with `str::parse::<Sat>()`.

use {
  super::satnum::{SUBSIDY_HEIGHTS, ref_start, ref_subsidy, ref_supply},
  crate::{Ctx, evidence::Report, util},
  ordinals::Sat,
  serde_json::{Value, json},
};

type Viol = (String, String, Value);

pub const NOTATIONS: [&str; 5] = ["integer", "decimal", "degree", "percentile", "name"];

fn print(sat: u64, notation: usize) -> String {
  let s = Sat(sat);
  match notation {
    0 => s.to_string(),
    1 => s.decimal().to_string(),
    2 => s.degree().to_string(),
    3 => s.percentile(),
    4 => s.name(),
    _ => unreachable!(),
  }
}

#[derive(Default, Clone)]
struct Stats {
  sats: u64,
  evaluations: u64,
  ok: [u64; 5],
  mismatch: [u64; 5],
  parse_err: [u64; 5],
  panics: u64,
  pct_delta_plus: u64,
  pct_delta_minus: u64,
  pct_first_bad: Option<u64>,
  pct_max_abs_delta: u64,
}

impl Stats {
  fn merge(&mut self, o: &Stats) {
    self.sats += o.sats;
    self.evaluations += o.evaluations;
    for i in 0..5 {
      self.ok[i] += o.ok[i];
      self.mismatch[i] += o.mismatch[i];
      self.parse_err[i] += o.parse_err[i];
    }
    self.panics += o.panics;
    self.pct_delta_plus += o.pct_delta_plus;
    self.pct_delta_minus += o.pct_delta_minus;
    self.pct_max_abs_delta = self.pct_max_abs_delta.max(o.pct_max_abs_delta);
    self.pct_first_bad = match (self.pct_first_bad, o.pct_first_bad) {
      (Some(a), Some(b)) => Some(a.min(b)),
      (a, b) => a.or(b),
    };
  }
}

fn check_sat(sat: u64, stats: &mut Stats, viol: &mut Vec<Viol>) {
  check_sat_in(sat, &[0, 1, 2, 3, 4], stats, viol)
}

fn check_sat_in(sat: u64, notations: &[usize], stats: &mut Stats, viol: &mut Vec<Viol>) {
  stats.sats += 1;
  for &n in notations {
    stats.evaluations += 1;
    let replay = json!({"sat": sat, "notation": NOTATIONS[n]});
    let printed = match util::catch(|| print(sat, n)) {
      Ok(p) => p,
      Err(p) => {
        stats.panics += 1;
        if viol.len() < 64 {
          viol.push((
            format!("notation/{}/print-panic", NOTATIONS[n]),
            format!("printing Sat({sat}) in {} notation panicked: {p}", NOTATIONS[n]),
            replay,
          ));
        }
        continue;
      }
    };
    match util::catch(|| printed.parse::<Sat>()) {
      Err(p) => {
        stats.panics += 1;
        if viol.len() < 64 {
          viol.push((
            format!("notation/{}/parse-panic", NOTATIONS[n]),
            format!("parsing `{printed}` (Sat({sat}) in {} notation) panicked: {p}", NOTATIONS[n]),
            replay,
          ));
        }
      }
      Ok(Ok(back)) if back.n() == sat => stats.ok[n] += 1,
      Ok(Ok(back)) => {
        stats.mismatch[n] += 1;
        let class = if n == 3 {
          let delta = back.n() as i128 - sat as i128;
          if delta > 0 {
            stats.pct_delta_plus += 1;
          } else {
            stats.pct_delta_minus += 1;
          }
          stats.pct_max_abs_delta = stats.pct_max_abs_delta.max(delta.unsigned_abs() as u64);
          stats.pct_first_bad = Some(stats.pct_first_bad.map_or(sat, |b| b.min(sat)));
          if delta.abs() == 1 {
            "notation/percentile/off-by-one".to_string()
          } else {
            "notation/percentile/wrong-sat".to_string()
          }
        } else {
          format!("notation/{}/wrong-sat", NOTATIONS[n])
        };
        if viol.len() < 64 {
          viol.push((
            class,
            format!(
              "Sat({sat}) prints in {} notation as `{printed}`, which parses back to Sat({})",
              NOTATIONS[n],
              back.n()
            ),
            replay,
          ));
        }
      }
      Ok(Err(e)) => {
        stats.parse_err[n] += 1;
        if viol.len() < 64 {
          viol.push((
            format!("notation/{}/printed-form-rejected", NOTATIONS[n]),
            format!(
              "Sat({sat}) prints in {} notation as `{printed}`, which is rejected: {e}",
              NOTATIONS[n]
            ),
            replay,
          ));
        }
      }
    }
  }
}

const CHUNK: u64 = 10_000;

pub fn run(ctx: &Ctx) -> Report {
  let mut report = Report::new("C30", &ctx.tier, "exploration");

  if let Some(path) = &ctx.replay {
    let v: Value =
      serde_json::from_str(&std::fs::read_to_string(path).expect("read replay")).expect("json");
    let sat = v["replay"]["sat"].as_u64().unwrap();
    let mut stats = Stats::default();
    let mut viol = Vec::new();
    check_sat(sat, &mut stats, &mut viol);
    for (c, w, rp) in viol {
      report.violation(c, w, rp);
    }
    report.set("evaluations", stats.evaluations);
    report.set("distinct_nontrivial", 5u64);
    report.set("rule", "replay of one recorded sat in all five notations");
    return report;
  }

  let supply = ref_supply();
  assert_eq!(supply, Sat::SUPPLY, "C29 decides the supply; C30 needs the real one");

  // (a) first, second, last sat of every subsidy height
  let nchunks = SUBSIDY_HEIGHTS.div_ceil(CHUNK) as usize;
  let (res_a, _) = util::par_map(
    nchunks,
    None,
    |_| (),
    |_, i| {
      let mut stats = Stats::default();
      let mut viol = Vec::new();
      let lo = i as u64 * CHUNK;
      let hi = (lo + CHUNK).min(SUBSIDY_HEIGHTS);
      let mut start = ref_start(lo);
      for h in lo..hi {
        let sub = ref_subsidy(h);
        let mut offs = vec![0, 1, sub - 1];
        offs.retain(|o| *o < sub);
        offs.sort();
        offs.dedup();
        for off in offs {
          check_sat(start + off, &mut stats, &mut viol);
        }
        start += sub;
      }
      (stats, viol)
    },
  );

  // (b) lattice: every STEP-th sat and its two neighbours
  let step: u64 = if ctx.thorough() { 50_000_000 } else { 500_000_000 };
  let points = supply / step + 1;
  let per = 20_000u64;
  let lchunks = points.div_ceil(per) as usize;
  let (res_b, _) = util::par_map(
    lchunks,
    None,
    |_| (),
    |_, i| {
      let mut stats = Stats::default();
      let mut viol = Vec::new();
      let lo = i as u64 * per;
      let hi = (lo + per).min(points);
      for k in lo..hi {
        for d in [-1i64, 0, 1] {
          if let Some(sat) = (k * step).checked_add_signed(d)
            && sat < supply
          {
            check_sat(sat, &mut stats, &mut viol);
          }
        }
      }
      (stats, viol)
    },
  );

  let mut all_viol_pre: Vec<Viol> = Vec::new();
  // (c) percentile only (the one notation that goes through floating point): contiguous windows
  let window: u64 = if ctx.thorough() { 100_000_000 } else { 2_000_000 };
  // Places where the four roundings of print+parse have the least slack (see SUMMARY): the top of
  // the supply, the sats whose percentile is just above 64% (binade change of the percentage)
  // and around 80%; plus the start, the first halving and the binade change of the sat number.
  let last = supply - 1;
  let window_starts: Vec<u64> = vec![
    0,
    1_050_000_000_000_000 - window / 2, // epoch 0/1 boundary
    (1u64 << 50) - window / 2,          // binade boundary of the f64 sat value
    last / 100 * 64,                    // percentile just above 64
    1_680_000_000_000_000,
    supply - window,                    // the last sats
  ];
  let wper = 250_000u64;
  let wchunks_per = window.div_ceil(wper) as usize;
  let (res_c, _) = util::par_map(
    window_starts.len() * wchunks_per,
    None,
    |_| (),
    |_, i| {
      let mut stats = Stats::default();
      let mut viol = Vec::new();
      let w = i / wchunks_per;
      let lo = window_starts[w] + (i % wchunks_per) as u64 * wper;
      let hi = (lo + wper).min(window_starts[w] + window).min(supply);
      for sat in lo..hi {
        check_sat_in(sat, &[3], &mut stats, &mut viol);
      }
      (stats, viol)
    },
  );

  let mut stats = Stats::default();
  let mut window_sats = 0;
  for r in res_c.into_iter().flatten() {
    window_sats += r.0.sats;
    stats.merge(&r.0);
    all_viol_pre.extend(r.1);
  }
  let mut lattice_sats = 0;
  let mut height_sats = 0;
  let mut all_viol: Vec<Viol> = std::mem::take(&mut all_viol_pre);
  for r in res_a.into_iter().flatten() {
    height_sats += r.0.sats;
    stats.merge(&r.0);
    all_viol.extend(r.1);
  }
  for r in res_b.into_iter().flatten() {
    lattice_sats += r.0.sats;
    stats.merge(&r.0);
    all_viol.extend(r.1);
  }
  // smallest sat first within each class (finish() keeps the first per class)
  all_viol.sort_by_key(|v| v.2["sat"].as_u64().unwrap_or(0));
  for (c, w, rp) in all_viol {
    report.violation(c, w, rp);
  }

  report.set("evaluations", stats.evaluations);
  report.set("distinct_nontrivial", stats.evaluations);
  report.set(
    "rule",
    "one evaluation = one (sat, notation) print+parse round trip; sats are distinct within the per-height \
     family by construction (offsets {0,1,subsidy-1} deduplicated) and within the lattice by construction; \
     a lattice sat may coincide with a per-height boundary sat (at most 3 per lattice point, counted twice)",
  );
  report.set("sats_per_height_family", height_sats);
  report.set("sats_lattice", lattice_sats);
  report.set("sats_percentile_windows", window_sats);
  report.set("percentile_window_length", window);
  report.set("percentile_window_starts", json!(window_starts));
  report.set("lattice_step", step);
  for n in 0..5 {
    report.set(&format!("roundtrip_ok_{}", NOTATIONS[n]), stats.ok[n]);
    report.set(&format!("roundtrip_wrong_sat_{}", NOTATIONS[n]), stats.mismatch[n]);
    report.set(&format!("printed_form_rejected_{}", NOTATIONS[n]), stats.parse_err[n]);
  }
  report.set("panics", stats.panics);
  report.set("percentile_parsed_one_above", stats.pct_delta_plus);
  report.set("percentile_parsed_one_below", stats.pct_delta_minus);
  report.set("percentile_max_abs_delta", stats.pct_max_abs_delta);
  if let Some(b) = stats.pct_first_bad {
    report.set("percentile_smallest_failing_sat_in_space", b);
  }
  report.set("exhaustive", true);
  report.set(
    "space",
    format!(
      "first, second and last sat of ALL 6,930,000 subsidy heights, plus every {step}-th sat of the supply \
       and its two neighbours; each in all 5 notations (integer, decimal, degree, percentile, name); plus, \
       percentile notation only, 6 contiguous windows of {window} consecutive sats (supply start, epoch 0/1 \
       boundary, 2^50, 64% of the supply, 1.68e15, supply end)"
    ),
  );
  report.sample(json!({"sat": 0, "printed": (0..5).map(|n| print(0, n)).collect::<Vec<_>>()}));
  report.sample(json!({"sat": supply - 1, "printed": (0..5).map(|n| print(supply - 1, n)).collect::<Vec<_>>()}));
  report.sample(json!({"sat": 1_050_000_000_000_000u64, "printed": (0..5).map(|n| print(1_050_000_000_000_000, n)).collect::<Vec<_>>()}));
  report.assume("the set of sats is the complete per-height boundary family plus a fixed lattice, not all 2.1e15 sats");
  report
}
