//! C29: sat numbering matches block heights and derived attributes.
//!
//! Reference (written from the BIP / docs/src/overview.md, not from ord's tables):
//! the subsidy of height h is `50 * 10^8 >> (h / 210000)` (0 from halving 64 on,
//! which is already 0 from halving 33 on); sats are numbered consecutively in
//! mining order, so the first sat of height h is the running sum of all earlier
//! subsidies.  Epoch = h / 210000, period = h / 2016, cycle = h / 1260000,
//! degree = (cycle, h % 210000, h % 2016, offset), decimal = (h, offset);
//! rarity per the overview's list; charms: coin (multiple of 10^8), the rarity
//! charms, nineball (mined in block 9), palindrome (decimal digits read the
//! same in both directions).

use {
  crate::{Ctx, evidence::Report, util},
  ordinals::{Charm, DecimalSat, Degree, Epoch, Height, Rarity, Sat},
  serde_json::{Value, json},
  std::sync::OnceLock,
};

pub const HALVING: u64 = 210_000;
pub const PERIOD: u64 = 2016;
pub const CYCLE: u64 = 6 * HALVING;
/// First height without subsidy (33 halvings exhaust 50 BTC = 5e9 sats < 2^33).
pub const SUBSIDY_HEIGHTS: u64 = 33 * HALVING;

/// Reference subsidy (Bitcoin Core GetBlockSubsidy).
pub fn ref_subsidy(h: u64) -> u64 {
  let halvings = h / HALVING;
  if halvings >= 64 {
    0
  } else {
    (50u64 * 100_000_000) >> halvings
  }
}

/// Epoch starting sats by running sum over all heights (computed once), plus the
/// total supply as the last entry (index 33).
pub fn ref_epoch_starts() -> &'static Vec<u64> {
  static T: OnceLock<Vec<u64>> = OnceLock::new();
  T.get_or_init(|| {
    let mut v = Vec::new();
    let mut sum: u64 = 0;
    for h in 0..SUBSIDY_HEIGHTS {
      if h % HALVING == 0 {
        v.push(sum);
      }
      sum = sum.checked_add(ref_subsidy(h)).expect("harness: supply fits u64");
    }
    v.push(sum);
    v
  })
}

pub fn ref_supply() -> u64 {
  *ref_epoch_starts().last().unwrap()
}

/// First sat of height `h` (= supply for heights without subsidy).
pub fn ref_start(h: u64) -> u64 {
  let t = ref_epoch_starts();
  let e = h / HALVING;
  if e >= 33 {
    return t[33];
  }
  t[e as usize] + (h - e * HALVING) * ref_subsidy(h)
}

/// (height, offset) of a sat below the supply.
pub fn ref_locate(sat: u64) -> Option<(u64, u64)> {
  let t = ref_epoch_starts();
  if sat >= t[33] {
    return None;
  }
  let mut e = 0usize;
  while sat >= t[e + 1] {
    e += 1;
  }
  let sub = ref_subsidy(e as u64 * HALVING);
  let pos = sat - t[e];
  Some((e as u64 * HALVING + pos / sub, pos % sub))
}

#[derive(Clone, Copy, PartialEq, Eq, Debug)]
pub enum RefRarity {
  Common,
  Uncommon,
  Rare,
  Epic,
  Legendary,
  Mythic,
}

pub fn ref_rarity(h: u64, off: u64) -> RefRarity {
  if off != 0 {
    RefRarity::Common
  } else if h == 0 {
    RefRarity::Mythic
  } else if h % CYCLE == 0 {
    RefRarity::Legendary
  } else if h % HALVING == 0 {
    RefRarity::Epic
  } else if h % PERIOD == 0 {
    RefRarity::Rare
  } else {
    RefRarity::Uncommon
  }
}

fn same_rarity(a: Rarity, b: RefRarity) -> bool {
  matches!(
    (a, b),
    (Rarity::Common, RefRarity::Common)
      | (Rarity::Uncommon, RefRarity::Uncommon)
      | (Rarity::Rare, RefRarity::Rare)
      | (Rarity::Epic, RefRarity::Epic)
      | (Rarity::Legendary, RefRarity::Legendary)
      | (Rarity::Mythic, RefRarity::Mythic)
  )
}

fn ref_palindrome(n: u64) -> bool {
  let s = n.to_string();
  s.bytes().eq(s.bytes().rev())
}

/// Expected set of sat charms, as a list of charm names.
fn ref_charms(sat: u64, h: u64, off: u64) -> Vec<&'static str> {
  let mut v = Vec::new();
  if sat % 100_000_000 == 0 {
    v.push("coin");
  }
  match ref_rarity(h, off) {
    RefRarity::Common => {}
    RefRarity::Uncommon => v.push("uncommon"),
    RefRarity::Rare => v.push("rare"),
    RefRarity::Epic => v.push("epic"),
    RefRarity::Legendary => v.push("legendary"),
    RefRarity::Mythic => v.push("mythic"),
  }
  if h == 9 {
    v.push("nineball");
  }
  if ref_palindrome(sat) {
    v.push("palindrome");
  }
  v.sort();
  v
}

type Viol = (String, String, Value);

#[derive(Default, Clone)]
struct Stats {
  heights: u64,
  sats: u64,
  evaluations: u64,
  rar: [u64; 6], // counts of first-sats per reference rarity (index by RefRarity as usize)
  total: u64,    // sum of subsidies
  charm_hist: [u64; 8], // coin uncommon rare epic legendary mythic nineball palindrome
}

impl Stats {
  fn merge(&mut self, o: &Stats) {
    self.heights += o.heights;
    self.sats += o.sats;
    self.evaluations += o.evaluations;
    for i in 0..6 {
      self.rar[i] += o.rar[i];
    }
    self.total += o.total;
    for i in 0..8 {
      self.charm_hist[i] += o.charm_hist[i];
    }
  }
}

/// All per-sat observations of ord in one catch.
struct Obs {
  height: u32,
  third: u64,
  epoch: u32,
  epoch_position: u64,
  period: u32,
  cycle: u32,
  degree: Degree,
  decimal: DecimalSat,
  rarity: Rarity,
  common: bool,
  charms: u16,
}

fn observe(sat: u64) -> Result<Obs, String> {
  util::catch(|| {
    let s = Sat(sat);
    Obs {
      height: s.height().n(),
      third: s.third(),
      epoch: s.epoch().0,
      epoch_position: s.epoch_position(),
      period: s.period(),
      cycle: s.cycle(),
      degree: s.degree(),
      decimal: s.decimal(),
      rarity: s.rarity(),
      common: s.common(),
      charms: s.charms(),
    }
  })
}

fn check_sat(sat: u64, h: u64, off: u64, stats: &mut Stats, viol: &mut Vec<Viol>) {
  stats.sats += 1;
  stats.evaluations += 11;
  let replay = json!({"kind":"height","h":h});
  let o = match observe(sat) {
    Ok(o) => o,
    Err(p) => {
      viol.push((
        "sat/panic".into(),
        format!("Sat({sat}) attribute methods panicked: {p}"),
        replay,
      ));
      return;
    }
  };
  let t = ref_epoch_starts();
  let e = h / HALVING;
  let mut bad = |what: &str, got: String, exp: String| {
    viol.push((
      format!("sat/{what}"),
      format!(
        "Sat({sat}) = height {h} offset {off}: ord {what} = {got}, expected {exp}"
      ),
      replay.clone(),
    ));
  };
  if o.height as u64 != h {
    bad("height", o.height.to_string(), h.to_string());
  }
  if o.third != off {
    bad("third", o.third.to_string(), off.to_string());
  }
  if o.epoch as u64 != e {
    bad("epoch", o.epoch.to_string(), e.to_string());
  }
  if o.epoch_position != sat - t[e as usize] {
    bad(
      "epoch_position",
      o.epoch_position.to_string(),
      (sat - t[e as usize]).to_string(),
    );
  }
  if o.period as u64 != h / PERIOD {
    bad("period", o.period.to_string(), (h / PERIOD).to_string());
  }
  if o.cycle as u64 != h / CYCLE {
    bad("cycle", o.cycle.to_string(), (h / CYCLE).to_string());
  }
  let d = &o.degree;
  if d.hour as u64 != h / CYCLE
    || d.minute as u64 != h % HALVING
    || d.second as u64 != h % PERIOD
    || d.third != off
  {
    bad(
      "degree",
      format!("{d}"),
      format!("{}°{}′{}″{}‴", h / CYCLE, h % HALVING, h % PERIOD, off),
    );
  }
  if o.decimal.height.n() as u64 != h || o.decimal.offset != off {
    bad("decimal", format!("{}", o.decimal), format!("{h}.{off}"));
  }
  let rr = ref_rarity(h, off);
  if !same_rarity(o.rarity, rr) {
    bad("rarity", format!("{}", o.rarity), format!("{rr:?}"));
  }
  if o.common != (rr == RefRarity::Common) {
    bad(
      "common",
      o.common.to_string(),
      (rr == RefRarity::Common).to_string(),
    );
  }
  // charms: compare as name sets; bit positions are ord's storage encoding and
  // are taken from Charm::flag
  let exp = ref_charms(sat, h, off);
  let mut got: Vec<String> = Charm::charms(o.charms).iter().map(|c| c.to_string()).collect();
  got.sort();
  let known_bits: u16 = Charm::ALL.iter().fold(0, |a, c| a | c.flag());
  if got.iter().map(|s| s.as_str()).ne(exp.iter().copied()) || o.charms & !known_bits != 0 {
    bad("charms", format!("{got:?} (bits {:#b})", o.charms), format!("{exp:?}"));
  }
  for name in exp {
    let i = ["coin", "uncommon", "rare", "epic", "legendary", "mythic", "nineball", "palindrome"]
      .iter()
      .position(|n| *n == name)
      .unwrap();
    stats.charm_hist[i] += 1;
  }
}

/// Checks one height given its reference starting sat.
fn check_height(h: u64, start: u64, thorough: bool, stats: &mut Stats, viol: &mut Vec<Viol>) {
  stats.heights += 1;
  stats.evaluations += 2;
  let sub = ref_subsidy(h);
  let replay = json!({"kind":"height","h":h});
  let hh = u32::try_from(h).unwrap();
  match util::catch(|| (Height(hh).starting_sat().n(), Height(hh).subsidy(), Height(hh).period_offset())) {
    Err(p) => viol.push((
      "height/panic".into(),
      format!("Height({h}) starting_sat/subsidy panicked: {p}"),
      replay.clone(),
    )),
    Ok((s, su, po)) => {
      if s != start {
        viol.push((
          "height/starting_sat".into(),
          format!("Height({h}).starting_sat() = {s}, running sum of subsidies = {start}"),
          replay.clone(),
        ));
      }
      if su != sub {
        viol.push((
          "height/subsidy".into(),
          format!("Height({h}).subsidy() = {su}, expected {sub}"),
          replay.clone(),
        ));
      }
      if po as u64 != h % PERIOD {
        viol.push((
          "height/period_offset".into(),
          format!("Height({h}).period_offset() = {po}, expected {}", h % PERIOD),
          replay.clone(),
        ));
      }
    }
  }
  if sub == 0 {
    return;
  }
  stats.total += sub;
  stats.rar[ref_rarity(h, 0) as usize] += 1;
  stats.rar[RefRarity::Common as usize] += sub - 1;
  let mut offs = vec![0, 1, sub / 2, sub - 1];
  if thorough {
    // more interior points, among them the multiples of the epoch-9 subsidy and of one coin
    offs.extend([2, sub / 3, sub.saturating_sub(2), 9_765_625, 2 * 9_765_625, 100_000_000, sub / 2 + 1]);
    let rem = start % 100_000_000;
    offs.push((100_000_000 - rem) % 100_000_000); // first coin boundary inside the block
  }
  offs.retain(|o| *o < sub);
  offs.sort();
  offs.dedup();
  for off in offs {
    check_sat(start + off, h, off, stats, viol);
  }
}

fn check_tables(stats: &Stats, viol: &mut Vec<Viol>) {
  let replay = json!({"kind":"tables"});
  let t = ref_epoch_starts();
  if Sat::SUPPLY != stats.total || Sat::SUPPLY != t[33] {
    viol.push((
      "table/supply".into(),
      format!("Sat::SUPPLY = {}, sum of all subsidies = {}", Sat::SUPPLY, stats.total),
      replay.clone(),
    ));
  }
  if Sat::LAST.n() != t[33] - 1 {
    viol.push((
      "table/last".into(),
      format!("Sat::LAST = {}, expected {}", Sat::LAST.n(), t[33] - 1),
      replay.clone(),
    ));
  }
  for e in 0..=40u32 {
    let exp_start = t[(e as usize).min(33)];
    let exp_sub = ref_subsidy(e as u64 * HALVING);
    match util::catch(|| {
      (
        Epoch(e).starting_sat().n(),
        Epoch(e).subsidy(),
        Epoch(e).starting_height().n(),
      )
    }) {
      Err(p) => viol.push(("table/epoch-panic".into(), format!("Epoch({e}) methods panicked: {p}"), replay.clone())),
      Ok((s, su, sh)) => {
        if s != exp_start {
          viol.push((
            "table/epoch-starting-sat".into(),
            format!("Epoch({e}).starting_sat() = {s}, running sum = {exp_start}"),
            replay.clone(),
          ));
        }
        if su != exp_sub {
          viol.push((
            "table/epoch-subsidy".into(),
            format!("Epoch({e}).subsidy() = {su}, expected {exp_sub}"),
            replay.clone(),
          ));
        }
        if sh as u64 != e as u64 * HALVING {
          viol.push((
            "table/epoch-starting-height".into(),
            format!("Epoch({e}).starting_height() = {sh}"),
            replay.clone(),
          ));
        }
      }
    }
  }
  for (i, s) in Epoch::STARTING_SATS.iter().enumerate() {
    if i > 33 || s.n() != t[i.min(33)] {
      viol.push((
        "table/epoch-starting-sat".into(),
        format!("Epoch::STARTING_SATS[{i}] = {}, running sum = {}", s.n(), t[i.min(33)]),
        replay.clone(),
      ));
    }
  }
  let pairs = [
    (Rarity::Common, RefRarity::Common),
    (Rarity::Uncommon, RefRarity::Uncommon),
    (Rarity::Rare, RefRarity::Rare),
    (Rarity::Epic, RefRarity::Epic),
    (Rarity::Legendary, RefRarity::Legendary),
    (Rarity::Mythic, RefRarity::Mythic),
  ];
  for (r, rr) in pairs {
    if r.supply() != stats.rar[rr as usize] {
      viol.push((
        "table/rarity-supply".into(),
        format!(
          "Rarity::{r}.supply() = {}, counted over all heights = {}",
          r.supply(),
          stats.rar[rr as usize]
        ),
        replay.clone(),
      ));
    }
  }
}

const CHUNK: u64 = 10_000;

fn run_heights(report: &mut Report, upto: u64, thorough: bool) -> Stats {
  // starting sats at chunk boundaries by one sequential running sum
  let nchunks = upto.div_ceil(CHUNK) as usize;
  let mut starts = Vec::with_capacity(nchunks);
  let mut sum: u64 = 0;
  for h in 0..upto {
    if h % CHUNK == 0 {
      starts.push(sum);
    }
    sum += ref_subsidy(h);
  }
  let (res, _) = util::par_map(
    nchunks,
    None,
    |_| (),
    |_, i| {
      let mut stats = Stats::default();
      let mut viol = Vec::new();
      let mut start = starts[i];
      let lo = i as u64 * CHUNK;
      let hi = (lo + CHUNK).min(upto);
      for h in lo..hi {
        check_height(h, start, thorough, &mut stats, &mut viol);
        start += ref_subsidy(h);
      }
      // continuity with the next chunk's independently summed start
      if i + 1 < starts.len() {
        assert_eq!(start, starts[i + 1], "harness: running sums disagree");
      }
      viol.truncate(50);
      (stats, viol)
    },
  );
  let mut total = Stats::default();
  for r in res.into_iter().flatten() {
    total.merge(&r.0);
    for (c, w, rp) in r.1 {
      report.violation(c, w, rp);
    }
  }
  total
}

/// `common()` and `rarity()` on every multiple of 9,765,625 (and its two
/// neighbours) below the start of epoch 10: the only sats on which the fast
/// path of `Sat::common` falls through to the full computation.
fn run_common_multiples(report: &mut Report) -> (u64, u64) {
  const STEP: u64 = 9_765_625;
  let limit = ref_epoch_starts()[10];
  let n = limit / STEP; // multiples 0..n (n*STEP == limit exactly or below)
  let per = 1_000_000u64;
  let chunks = n.div_ceil(per) as usize;
  let (res, _) = util::par_map(
    chunks,
    None,
    |_| (),
    |_, i| {
      let mut viol: Vec<Viol> = Vec::new();
      let mut evals = 0u64;
      let mut uncommon = 0u64;
      let lo = i as u64 * per;
      let hi = (lo + per).min(n);
      for k in lo..hi {
        for d in [-1i64, 0, 1] {
          let Some(sat) = (k * STEP).checked_add_signed(d) else {
            continue;
          };
          if sat >= limit {
            continue;
          }
          let (h, off) = ref_locate(sat).unwrap();
          let exp = ref_rarity(h, off);
          evals += 2;
          if exp != RefRarity::Common {
            uncommon += 1;
          }
          match util::catch(|| (Sat(sat).common(), Sat(sat).rarity())) {
            Err(p) => viol.push((
              "sat/panic".into(),
              format!("Sat({sat}).common()/rarity() panicked: {p}"),
              json!({"kind":"sat","sat":sat}),
            )),
            Ok((c, r)) => {
              if c != (exp == RefRarity::Common) || !same_rarity(r, exp) {
                viol.push((
                  if c != (exp == RefRarity::Common) { "sat/common" } else { "sat/rarity" }.into(),
                  format!(
                    "Sat({sat}) = height {h} offset {off}: common() = {c}, rarity() = {r}, expected {exp:?}"
                  ),
                  json!({"kind":"sat","sat":sat}),
                ));
              }
            }
          }
        }
      }
      viol.truncate(50);
      (evals, uncommon, viol)
    },
  );
  let mut evals = 0;
  let mut unc = 0;
  for r in res.into_iter().flatten() {
    evals += r.0;
    unc += r.1;
    for (c, w, rp) in r.2 {
      report.violation(c, w, rp);
    }
  }
  (evals, unc)
}

pub fn run(ctx: &Ctx) -> Report {
  let mut report = Report::new("C29", &ctx.tier, "exploration");

  if let Some(path) = &ctx.replay {
    let v: Value =
      serde_json::from_str(&std::fs::read_to_string(path).expect("read replay")).expect("json");
    let r = &v["replay"];
    let mut stats = Stats::default();
    let mut viol = Vec::new();
    match r["kind"].as_str().unwrap_or("") {
      "height" => {
        let h = r["h"].as_u64().unwrap();
        check_height(h, ref_start(h), true, &mut stats, &mut viol);
      }
      "sat" => {
        let sat = r["sat"].as_u64().unwrap();
        let (h, off) = ref_locate(sat).unwrap();
        check_sat(sat, h, off, &mut stats, &mut viol);
      }
      _ => {
        stats = run_heights(&mut report, SUBSIDY_HEIGHTS + 3, false);
        check_tables(&stats, &mut viol);
      }
    }
    for (c, w, rp) in viol {
      report.violation(c, w, rp);
    }
    report.set("evaluations", stats.evaluations.max(1));
    report.set("distinct_nontrivial", stats.sats.max(2));
    report.set("rule", "replay of one recorded case");
    return report;
  }

  // (a) every height 0..=6,930,002
  let mut stats = run_heights(&mut report, SUBSIDY_HEIGHTS + 3, ctx.thorough());
  let mut viol = Vec::new();
  // heights far beyond
  for h in [
    SUBSIDY_HEIGHTS + 1000,
    63 * HALVING,
    64 * HALVING,
    64 * HALVING + 1,
    1u64 << 31,
    u32::MAX as u64 - 1,
    u32::MAX as u64,
  ] {
    check_height(h, ref_start(h), ctx.thorough(), &mut stats, &mut viol);
  }
  // (b) tables
  check_tables(&stats, &mut viol);
  for (c, w, rp) in viol {
    report.violation(c, w, rp);
  }

  // (c) the fast path of common(): all multiples of 9,765,625 below epoch 10 with neighbours
  let (ce, cu) = run_common_multiples(&mut report);

  report.set("evaluations", stats.evaluations + ce);
  report.set("distinct_nontrivial", stats.sats + ce / 2);
  report.set(
    "rule",
    "distinct by construction: each height once, per height the distinct offsets {0,1,subsidy/2,subsidy-1} \
     (deduplicated); multiples of 9,765,625 and their ±1 neighbours are distinct sats; every sat is \
     non-trivial (eleven attribute methods compared with the reference each)",
  );
  report.set("heights_checked", stats.heights);
  report.set("subsidy_heights", stats.rar[1..].iter().sum::<u64>());
  report.set("sats_checked_per_height_lattice", stats.sats);
  report.set("common_fastpath_evaluations", ce);
  report.set("common_fastpath_noncommon_hits", cu);
  report.set(
    "reference_rarity_counts",
    json!({
      "common": stats.rar[0], "uncommon": stats.rar[1], "rare": stats.rar[2],
      "epic": stats.rar[3], "legendary": stats.rar[4], "mythic": stats.rar[5]
    }),
  );
  report.set(
    "charm_histogram_on_checked_sats",
    json!({
      "coin": stats.charm_hist[0], "uncommon": stats.charm_hist[1], "rare": stats.charm_hist[2],
      "epic": stats.charm_hist[3], "legendary": stats.charm_hist[4], "mythic": stats.charm_hist[5],
      "nineball": stats.charm_hist[6], "palindrome": stats.charm_hist[7]
    }),
  );
  report.set("reference_supply", stats.total);
  report.set("exhaustive", true);
  report.set(
    "space",
    "ALL heights 0..=6,930,002 (every subsidy-bearing height and three beyond) plus 7 far heights up to \
     2^32-1: Height::starting_sat/subsidy vs running sum; for each subsidy height the sats at offsets \
     {0,1,subsidy/2,subsidy-1} (thorough: also 2, subsidy/3, subsidy/2+1, subsidy-2, 9765625, 19531250, 10^8 and the \
     first coin boundary): height, third, epoch, epoch_position, period, cycle, degree, decimal, \
     rarity, common, charms; Epoch tables 0..=40, Sat::SUPPLY/LAST, Rarity::supply() vs counts over all \
     heights; common()/rarity() on ALL 214,830,000 multiples of 9,765,625 below epoch 10 and their ±1 \
     neighbours",
  );
  report.sample(json!({"height": 0, "start": 0, "first_sat": "mythic, coin, palindrome"}));
  report.sample(json!({"height": 209999, "start": ref_start(209999), "subsidy": ref_subsidy(209999)}));
  report.sample(json!({"height": 210000, "start": ref_start(210000), "rarity": "epic"}));
  report.sample(json!({"height": 1260000, "start": ref_start(1260000), "rarity": "legendary"}));
  report.sample(json!({"height": 6929999, "start": ref_start(6929999), "subsidy": 1}));
  report.sample(json!({"height": 6930000, "start": ref_start(6930000), "subsidy": 0}));
  report.assume(
    "reference subsidy schedule is Bitcoin Core's GetBlockSubsidy (50 BTC >> halvings); nineball = sats \
     mined in block 9; palindrome = decimal digits of the sat number",
  );
  report
}
