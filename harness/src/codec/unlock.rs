//! C33: the rune-name unlock schedule is monotone and matches reported unlock
//! heights.
//!
//! Oracle, per network, over m(h) = Rune::minimum_at_height(network, h):
//!  (1) m is non-increasing in h;
//!  (2) from the first rune block on, m(h) <= first 13-letter name;
//!  (3) m(h) = 0 once the schedule completes (first rune block + 210,000 on);
//!  (4) for every probed non-reserved name r: unlock_height(r) is
//!      min{ h' | m(h') <= r }, computed by scanning ALL heights from 0 (through
//!      the running minimum of m, which equals m when (1) holds).

use {
  crate::{Ctx, evidence::Report, util},
  bitcoin::Network,
  ordinals::{Height, Rune},
  serde_json::{Value, json},
};

type Viol = (String, String, Value);

const NETWORKS: [(Network, &str); 5] = [
  (Network::Bitcoin, "bitcoin"),
  (Network::Testnet, "testnet"),
  (Network::Testnet4, "testnet4"),
  (Network::Signet, "signet"),
  (Network::Regtest, "regtest"),
];

fn network_by_name(s: &str) -> Network {
  NETWORKS.iter().find(|(_, n)| *n == s).expect("network").0
}

/// 26 + 26^2 + … + 26^(len-1): value of the first name with `len` letters.
fn first_of_length(len: u32) -> u128 {
  let mut sum = 0u128;
  let mut p = 1u128;
  for _ in 1..len {
    p *= 26;
    sum += p;
  }
  sum
}

#[derive(Default)]
struct Stats {
  heights: u64,
  evaluations: u64,
  probes: u64,
  distinct_minima: u64,
  unlock_some: u64,
  unlock_zero: u64,
  strict_decreases: u64,
}

fn m_at(network: Network, h: u32) -> Result<u128, String> {
  util::catch(|| Rune::minimum_at_height(network, Height(h)).0)
}

/// Reference: smallest index h' with runmin[h'] <= r, or None.
fn first_at_or_below(runmin: &[u128], r: u128) -> Option<usize> {
  // runmin is non-increasing by construction -> partition point
  let i = runmin.partition_point(|&m| m > r);
  (i < runmin.len()).then_some(i)
}

fn check_unlock(
  network: Network,
  name: &str,
  r: u128,
  runmin: &[u128],
  reserved_from: u128,
  stats: &mut Stats,
  viol: &mut Vec<Viol>,
) {
  if r >= reserved_from {
    return;
  }
  stats.probes += 1;
  stats.evaluations += 1;
  let replay = json!({"network": name, "rune": r.to_string()});
  let exp = first_at_or_below(runmin, r);
  match util::catch(|| Rune(r).unlock_height(network)) {
    Err(p) => viol.push((
      "unlock/panic".into(),
      format!("Rune({r}).unlock_height({name}) panicked: {p}"),
      replay,
    )),
    Ok(got) => {
      match got {
        Some(Height(0)) => stats.unlock_zero += 1,
        Some(_) => stats.unlock_some += 1,
        None => {}
      }
      let got_h = got.map(|h| h.0 as usize);
      if got_h != exp {
        let class = match (got_h, exp) {
          (Some(g), Some(e)) if g + 1 == e => "unlock/reported-one-early",
          (Some(g), Some(e)) if g == e + 1 => "unlock/reported-one-late",
          (Some(g), Some(e)) if g < e => "unlock/reported-early",
          (Some(_), Some(_)) => "unlock/reported-late",
          (None, _) => "unlock/none-for-non-reserved",
          (_, None) => "unlock/never-unlocks-in-scanned-range",
        };
        viol.push((
          class.into(),
          format!(
            "{name}: Rune({r}).unlock_height() = {got_h:?}, first height whose minimum is at or below it = {exp:?}"
          ),
          replay,
        ));
      }
    }
  }
}

fn run_network(
  network: Network,
  name: &str,
  thorough: bool,
  only_rune: Option<u128>,
) -> (Stats, Vec<Viol>) {
  let mut stats = Stats::default();
  let mut viol: Vec<Viol> = Vec::new();
  let first = Rune::first_rune_height(network);
  let last = first + 210_002;
  let thirteen = first_of_length(13);
  let reserved_from = first_of_length(27);

  // m(h) for ALL heights 0..=last, then 2^32-1
  let mut m = Vec::with_capacity(last as usize + 1);
  for h in 0..=last {
    stats.heights += 1;
    stats.evaluations += 1;
    match m_at(network, h) {
      Ok(v) => m.push(v),
      Err(p) => {
        viol.push((
          "minimum/panic".into(),
          format!("minimum_at_height({name}, {h}) panicked: {p}"),
          json!({"network": name, "height": h}),
        ));
        return (stats, viol);
      }
    }
  }
  let m_max = match m_at(network, u32::MAX) {
    Ok(v) => v,
    Err(p) => {
      viol.push((
        "minimum/panic".into(),
        format!("minimum_at_height({name}, 2^32-1) panicked: {p}"),
        json!({"network": name, "height": u32::MAX}),
      ));
      return (stats, viol);
    }
  };
  stats.heights += 1;
  stats.evaluations += 1;

  // (1) monotone
  for h in 1..m.len() {
    if m[h] > m[h - 1] {
      viol.push((
        "minimum/increases".into(),
        format!("{name}: minimum at height {h} is {} > minimum at height {} = {}", m[h], h - 1, m[h - 1]),
        json!({"network": name, "height": h}),
      ));
      break;
    }
    if m[h] < m[h - 1] {
      stats.strict_decreases += 1;
    }
  }
  if m_max > *m.last().unwrap() {
    viol.push((
      "minimum/increases".into(),
      format!("{name}: minimum at 2^32-1 is {m_max} > minimum at {last}"),
      json!({"network": name, "height": u32::MAX}),
    ));
  }
  // (2) thirteen letters from the first rune block
  for h in first..=last {
    if m[h as usize] > thirteen {
      viol.push((
        "minimum/thirteen-letters-locked".into(),
        format!("{name}: minimum at height {h} (first rune block {first}) is {} > AAAAAAAAAAAAA = {thirteen}", m[h as usize]),
        json!({"network": name, "height": h}),
      ));
      break;
    }
  }
  // (3) zero when complete
  for h in (first + 210_000)..=last {
    if m[h as usize] != 0 {
      viol.push((
        "minimum/nonzero-after-schedule".into(),
        format!("{name}: minimum at height {h} = first rune block + {} is {}", h - first, m[h as usize]),
        json!({"network": name, "height": h}),
      ));
      break;
    }
  }
  if m_max != 0 {
    viol.push((
      "minimum/nonzero-after-schedule".into(),
      format!("{name}: minimum at height 2^32-1 is {m_max}"),
      json!({"network": name, "height": u32::MAX}),
    ));
  }

  // running minimum (== m when monotone)
  let mut runmin = m.clone();
  for h in 1..runmin.len() {
    if runmin[h] > runmin[h - 1] {
      runmin[h] = runmin[h - 1];
    }
  }

  if let Some(r) = only_rune {
    check_unlock(network, name, r, &runmin, reserved_from, &mut stats, &mut viol);
    return (stats, viol);
  }

  // (4) probes
  let lo_h = first.saturating_sub(2) as usize;
  let mut distinct = 0u64;
  for h in lo_h..m.len() {
    let cur = m[h];
    let next = if h + 1 < m.len() { m[h + 1] } else { 0 };
    if h == lo_h || m[h - 1] != cur {
      distinct += 1;
    }
    let mut probes: Vec<u128> = vec![cur, cur + 1];
    if cur > 0 {
      probes.push(cur - 1);
    }
    if cur > next {
      let gap = cur - next;
      let parts: u128 = if thorough { 16 } else { 2 };
      for k in 1..parts {
        probes.push(next + gap / parts * k);
      }
    }
    probes.sort();
    probes.dedup();
    for r in probes {
      check_unlock(network, name, r, &runmin, reserved_from, &mut stats, &mut viol);
      if viol.len() > 40 {
        return (stats, viol);
      }
    }
  }
  stats.distinct_minima = distinct;
  // names around every length boundary and far above the schedule
  for len in 1..=27u32 {
    let f = first_of_length(len);
    for d in -2i32..=2 {
      if let Some(r) = f.checked_add_signed(d as i128) {
        check_unlock(network, name, r, &runmin, reserved_from, &mut stats, &mut viol);
      }
    }
  }
  (stats, viol)
}

pub fn run(ctx: &Ctx) -> Report {
  let mut report = Report::new("C33", &ctx.tier, "exploration");

  if let Some(path) = &ctx.replay {
    let v: Value =
      serde_json::from_str(&std::fs::read_to_string(path).expect("read replay")).expect("json");
    let r = &v["replay"];
    let name = r["network"].as_str().unwrap().to_string();
    let network = network_by_name(&name);
    // height-kind replays re-run the schedule checks (1)-(3) of that network; rune-kind replays
    // additionally probe the one recorded name
    let only = r["rune"].as_str().map(|s| s.parse::<u128>().unwrap()).or(Some(0));
    let (stats, viol) = run_network(network, &name, false, only);
    for (c, w, rp) in viol {
      report.violation(c, w, rp);
    }
    report.set("evaluations", stats.evaluations);
    report.set("distinct_nontrivial", stats.heights);
    report.set("rule", "replay: full schedule of one network plus one recorded name");
    return report;
  }

  let thorough = ctx.thorough();
  let (res, _) = util::par_map(
    NETWORKS.len(),
    None,
    |_| (),
    |_, i| run_network(NETWORKS[i].0, NETWORKS[i].1, thorough, None),
  );

  let mut evaluations = 0;
  let mut heights = 0;
  let mut probes = 0;
  let mut per_net = serde_json::Map::new();
  for (i, r) in res.into_iter().enumerate() {
    let (stats, viol) = r.expect("network completed");
    evaluations += stats.evaluations;
    heights += stats.heights;
    probes += stats.probes;
    per_net.insert(
      NETWORKS[i].1.into(),
      json!({
        "first_rune_height": Rune::first_rune_height(NETWORKS[i].0),
        "heights": stats.heights,
        "distinct_minima_in_window": stats.distinct_minima,
        "strict_decreases": stats.strict_decreases,
        "name_probes": stats.probes,
        "unlock_reported_zero": stats.unlock_zero,
        "unlock_reported_positive": stats.unlock_some,
      }),
    );
    for (c, w, rp) in viol {
      report.violation(c, w, rp);
    }
  }

  report.set("evaluations", evaluations);
  report.set("distinct_nontrivial", heights + probes);
  report.set(
    "rule",
    "distinct by construction: per network every height once; name probes per height are deduplicated \
     ({m(h)-1, m(h), m(h)+1, interior points of (m(h+1), m(h))}); the same name may be probed from two \
     adjacent heights (m(h)-1 vs an interior point) and is then counted twice",
  );
  report.set("heights_evaluated", heights);
  report.set("name_probes", probes);
  report.set("per_network", Value::Object(per_net));
  report.set("exhaustive", true);
  report.set(
    "space",
    "5 networks (bitcoin, testnet, testnet4, signet, regtest) x ALL heights 0..=first_rune_height+210,002 and \
     2^32-1 for minimum_at_height (monotone, 13-letter bound from the first rune block, zero at completion); \
     unlock_height for r in {m(h)-1, m(h), m(h)+1, 1 (quick) / 15 (thorough) interior points of (m(h+1), m(h))} \
     for every h >= first_rune_height-2, and first name of each length 1..27 ±2; expected = first height \
     of the complete scan whose minimum <= r",
  );
  report.sample(json!({"network":"bitcoin","height":840000,"minimum": m_at(Network::Bitcoin, 840000).ok().map(|v| v.to_string())}));
  report.sample(json!({"network":"bitcoin","height":839999,"minimum": m_at(Network::Bitcoin, 839999).ok().map(|v| v.to_string())}));
  report.sample(json!({"network":"bitcoin","height":1049999,"minimum": m_at(Network::Bitcoin, 1049999).ok().map(|v| v.to_string())}));
  report.sample(json!({"network":"regtest","height":0,"minimum": m_at(Network::Regtest, 0).ok().map(|v| v.to_string())}));
  report.assume("reserved names (>= first 27-letter name) are outside the property and are not probed");
  report
}
