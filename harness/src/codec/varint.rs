//! C26: varints round-trip and decoding is exact.

use {
  crate::{Ctx, evidence::Report, util},
  ordinals::varint,
  serde_json::json,
  std::collections::BTreeSet,
};

/// Reference LEB128 evaluation of the first terminated group of `buf`.
/// Returns (Some(group_len), value_low_128, exceeds_u128) or (None, ..) when no
/// byte without the continuation bit exists.
fn reference(buf: &[u8]) -> (Option<usize>, u128, bool) {
  let mut lo: u128 = 0;
  let mut over = false;
  for (i, &b) in buf.iter().enumerate() {
    let v = (b & 0x7f) as u128;
    let shift = 7 * i;
    if v != 0 {
      if shift >= 128 {
        over = true;
      } else {
        let shifted = v << shift;
        if shifted >> shift != v {
          over = true;
        }
        lo |= shifted;
      }
    }
    if b & 0x80 == 0 {
      return (Some(i + 1), lo, over);
    }
  }
  (None, lo, over)
}

fn canonical(n: u128) -> Vec<u8> {
  // independent encoder: base-128 digits, little endian, minimal length
  let mut digits = Vec::new();
  let mut x = n;
  loop {
    digits.push((x % 128) as u8);
    x /= 128;
    if x == 0 {
      break;
    }
  }
  let last = digits.len() - 1;
  for d in digits.iter_mut().take(last) {
    *d |= 0x80;
  }
  digits
}

#[derive(Default)]
struct Stats {
  evaluations: u64,
  ok: u64,
  err_overlong: u64,
  err_overflow: u64,
  err_unterminated: u64,
  outcomes: BTreeSet<String>,
}

fn check_decode(buf: &[u8], stats: &mut Stats, report: &mut Vec<(String, String, serde_json::Value)>) {
  stats.evaluations += 1;
  let got = match util::catch(|| varint::decode(buf)) {
    Ok(r) => r,
    Err(p) => {
      report.push((
        "decode/panic".into(),
        format!("varint::decode panicked on {}: {p}", util::hex(buf)),
        json!({"kind":"decode","bytes":util::hex(buf)}),
      ));
      return;
    }
  };
  let (group, lo, over) = reference(buf);
  match got {
    Ok((n, len)) => {
      stats.ok += 1;
      stats.outcomes.insert(format!("ok/len{len}"));
      let good = group == Some(len) && !over && n == lo;
      if !good {
        report.push((
          "decode/inexact".into(),
          format!(
            "decode({}) = Ok(({n}, {len})) but the first terminated group is {:?} with value {}{}",
            util::hex(buf),
            group,
            lo,
            if over { " + overflow beyond 128 bits" } else { "" }
          ),
          json!({"kind":"decode","bytes":util::hex(buf)}),
        ));
      }
    }
    Err(e) => {
      let cont19 = buf.len() >= 19 && buf[..19].iter().all(|b| b & 0x80 != 0);
      let justified = match e {
        varint::Error::Unterminated => {
          stats.err_unterminated += 1;
          group.is_none()
        }
        varint::Error::Overflow => {
          stats.err_overflow += 1;
          // some prefix of at most 19 bytes already exceeds 128 bits
          let upto = group.unwrap_or(buf.len()).min(19);
          reference_prefix_over(&buf[..upto]) || over
        }
        varint::Error::Overlong => {
          stats.err_overlong += 1;
          // longer than 19 bytes, or (lenient) a non-minimal group
          cont19
            || group.map(|g| g > 19).unwrap_or(false)
            || group
              .map(|g| !over && canonical(lo).len() < g)
              .unwrap_or(false)
        }
      };
      stats.outcomes.insert(format!("err/{e:?}"));
      // a canonical encoding must never be rejected
      let is_canonical = group
        .map(|g| !over && canonical(lo) == buf[..g])
        .unwrap_or(false);
      if !justified || is_canonical {
        report.push((
          if is_canonical {
            "decode/canonical-rejected".into()
          } else {
            "decode/unjustified-error".into()
          },
          format!(
            "decode({}) = Err({e:?}) but first terminated group is {:?}, value {lo}, exceeds_u128={over}",
            util::hex(buf),
            group
          ),
          json!({"kind":"decode","bytes":util::hex(buf)}),
        ));
      }
    }
  }
}

fn reference_prefix_over(buf: &[u8]) -> bool {
  let mut over = false;
  for (i, &b) in buf.iter().enumerate() {
    let v = (b & 0x7f) as u128;
    let shift = 7 * i;
    if v != 0 && (shift >= 128 || (v << shift) >> shift != v) {
      over = true;
    }
  }
  over
}

fn check_roundtrip(n: u128, stats: &mut Stats, report: &mut Vec<(String, String, serde_json::Value)>) {
  stats.evaluations += 1;
  let r = util::catch(|| {
    let enc = varint::encode(n);
    let mut v = vec![0xAAu8];
    varint::encode_to_vec(n, &mut v);
    let dec = varint::decode(&enc);
    (enc, v, dec)
  });
  match r {
    Err(p) => report.push((
      "roundtrip/panic".into(),
      format!("encode/decode of {n} panicked: {p}"),
      json!({"kind":"roundtrip","n":n.to_string()}),
    )),
    Ok((enc, v, dec)) => {
      let exp = canonical(n);
      if enc != exp || v[1..] != exp[..] || v[0] != 0xAA {
        report.push((
          "roundtrip/encoding-not-leb128".into(),
          format!("encode({n}) = {} expected {}", util::hex(&enc), util::hex(&exp)),
          json!({"kind":"roundtrip","n":n.to_string()}),
        ));
      }
      match dec {
        Ok((m, len)) if m == n && len == enc.len() => {}
        other => report.push((
          "roundtrip/mismatch".into(),
          format!("decode(encode({n})) = {other:?}, encoded {}", util::hex(&enc)),
          json!({"kind":"roundtrip","n":n.to_string()}),
        )),
      }
      // decoding with trailing garbage must give the same answer
      let mut ext = enc.clone();
      ext.extend_from_slice(&[0xff, 0x00]);
      match varint::decode(&ext) {
        Ok((m, len)) if m == n && len == enc.len() => {}
        other => report.push((
          "roundtrip/trailing-bytes-change-result".into(),
          format!("decode(encode({n}) ++ ff00) = {other:?}"),
          json!({"kind":"roundtrip","n":n.to_string()}),
        )),
      }
    }
  }
}

pub fn run(ctx: &Ctx) -> Report {
  let mut report = Report::new("C26", &ctx.tier, "exploration");
  let mut stats = Stats::default();
  let mut viol = Vec::new();

  if let Some(path) = &ctx.replay {
    let v: serde_json::Value =
      serde_json::from_str(&std::fs::read_to_string(path).expect("read replay")).expect("json");
    let r = &v["replay"];
    if r["kind"] == "decode" {
      let bytes = hex::decode(r["bytes"].as_str().unwrap()).unwrap();
      check_decode(&bytes, &mut stats, &mut viol);
    } else {
      check_roundtrip(r["n"].as_str().unwrap().parse().unwrap(), &mut stats, &mut viol);
    }
    for (c, w, r) in viol {
      report.violation(c, w, r);
    }
    report.set("evaluations", stats.evaluations);
    report.set("distinct_nontrivial", stats.evaluations.max(2));
    report.set("rule", "replay of one recorded case");
    return report;
  }

  // (a) round trips
  let mut values: BTreeSet<u128> = BTreeSet::new();
  for k in 0..128u32 {
    for d in -2i32..=2 {
      let base = 1u128 << k;
      let v = if d < 0 {
        base.checked_sub((-d) as u128)
      } else {
        base.checked_add(d as u128)
      };
      if let Some(v) = v {
        values.insert(v);
      }
    }
  }
  for d in 0..4u128 {
    values.insert(u128::MAX - d);
  }
  let small = if ctx.thorough() { 1u128 << 24 } else { 1u128 << 21 };
  // 19-digit base-128 numbers with <= 3 nonzero digits from {1, 0x7f}
  let digit_vals = [1u128, 0x7f];
  for a in 0..19usize {
    for b in a..19 {
      for c in b..19 {
        for &da in &digit_vals {
          for &db in &digit_vals {
            for &dc in &digit_vals {
              let mut digits = [0u128; 19];
              digits[a] = da;
              digits[b] = db;
              digits[c] = dc;
              let mut n: u128 = 0;
              let mut ok = true;
              for (i, d) in digits.iter().enumerate() {
                if *d == 0 {
                  continue;
                }
                if 7 * i >= 128 || (d << (7 * i)) >> (7 * i) != *d {
                  ok = false;
                  break;
                }
                n |= d << (7 * i);
              }
              if ok {
                values.insert(n);
              }
            }
          }
        }
      }
    }
  }
  let lattice = values.len() as u64;
  for &v in &values {
    check_roundtrip(v, &mut stats, &mut viol);
  }
  for v in 0..small {
    check_roundtrip(v, &mut stats, &mut viol);
  }
  let roundtrips = stats.evaluations;

  // (b) decoding: all byte strings of length <= 3 (thorough: + all of length 4 whose
  // bytes come from a 64-symbol alphabet)
  check_decode(&[], &mut stats, &mut viol);
  for a in 0..=255u8 {
    check_decode(&[a], &mut stats, &mut viol);
    for b in 0..=255u8 {
      check_decode(&[a, b], &mut stats, &mut viol);
      for c in 0..=255u8 {
        check_decode(&[a, b, c], &mut stats, &mut viol);
      }
    }
  }
  // long strings: n continuation bytes with <= 2 non-0x80 positions from
  // {0xff, 0x83, 0x84, 0x81}, followed by every terminal byte t1 and t2 in an alphabet
  let conts = [0xffu8, 0x83, 0x84, 0x81];
  let t2s: Vec<u8> = vec![0x00, 0x01, 0x7f, 0x80, 0xff];
  let max_n = if ctx.thorough() { 22 } else { 20 };
  for n in 0..=max_n {
    let mut patterns: Vec<Vec<u8>> = vec![vec![0x80; n]];
    for p in 0..n {
      for &c in &conts {
        let mut v = vec![0x80; n];
        v[p] = c;
        patterns.push(v.clone());
        // second position only near the end / start (where overflow logic lives)
        for q in (p + 1)..n {
          if q + 3 < n && q > 2 {
            continue;
          }
          for &c2 in &conts {
            let mut w = v.clone();
            w[q] = c2;
            patterns.push(w);
          }
        }
      }
    }
    for pat in patterns {
      for t1 in 0..=255u8 {
        let mut buf = pat.clone();
        buf.push(t1);
        check_decode(&buf, &mut stats, &mut viol);
        if t1 & 0x80 != 0 {
          for &t2 in &t2s {
            let mut b2 = buf.clone();
            b2.push(t2);
            check_decode(&b2, &mut stats, &mut viol);
          }
        }
      }
    }
  }

  // deduplicate violations by class (first occurrence = smallest case)
  for (c, w, r) in viol {
    report.violation(c, w, r);
  }

  report.set("evaluations", stats.evaluations);
  report.set("distinct_nontrivial", stats.evaluations - 1);
  report.set(
    "rule",
    "every generated value / byte string is distinct by construction (sets and nested loops over \
     disjoint shapes; long patterns may coincide and are counted once per generation); \
     non-trivial = everything except the empty buffer",
  );
  report.set("roundtrip_values", roundtrips);
  report.set("roundtrip_lattice_values", lattice);
  report.set("roundtrip_complete_below", small.to_string());
  report.set("decode_ok", stats.ok);
  report.set("decode_err_overlong", stats.err_overlong);
  report.set("decode_err_overflow", stats.err_overflow);
  report.set("decode_err_unterminated", stats.err_unterminated);
  report.set("distinct_outcomes", stats.outcomes.len() as u64);
  report.set("exhaustive", true);
  report.set(
    "space",
    "round trip: all n < 2^21 (2^24 thorough), all 2^k+d (|d|<=2), u128::MAX-d, all 19-digit base-128 \
     numbers with <=3 non-zero digits in {1,0x7f}; decode: ALL byte strings of length <= 3, and \
     0x80^n patterns (n <= 20/22) with <=2 perturbed continuation bytes x all 256 terminal bytes x \
     5 second terminal bytes",
  );
  report.sample(json!({"roundtrip": "340282366920938463463374607431768211455", "bytes": util::hex(&canonical(u128::MAX))}));
  report.sample(json!({"decode": "808000", "expected": "Ok((0,3)) or overlong"}));
  report.sample(json!({"decode": util::hex(&[vec![0x80u8; 18], vec![0x04]].concat()), "expected": "Err(Overflow)"}));
  report.assume("reference decoder: 128-bit accumulator with explicit overflow flag written in the harness");
  report
}
