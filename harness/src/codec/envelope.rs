//! C27: inscription envelopes round-trip and envelope parsing is total.
//!
//! (a) parse(build(x)) = x over complete products of field presence x size patterns,
//!     batches in one script, and the compact pointer / inscription-id encodings;
//! (b) parsing never panics over complete enumerations of tapscript byte strings,
//!     opcode-alphabet sequences and witness shapes; where the script is free of
//!     script errors a tiny reference scanner must agree on the number of envelopes.

use {
  crate::{
    Ctx,
    codec::{Acc, Stats, for_each_seq},
    evidence::Report,
    util,
  },
  bitcoin::{
    OutPoint, ScriptBuf, Sequence, Transaction, TxIn, Txid, Witness, absolute::LockTime,
    hashes::Hash, script, transaction::Version,
  },
  ord::{Chain, Inscription, InscriptionId, ParsedEnvelope, Properties},
  serde_json::{Value, json},
  std::collections::BTreeMap,
};

// ---------------------------------------------------------------------------
// inscription specs (compact, replayable description of an Inscription value)
// ---------------------------------------------------------------------------

/// bits of `small`: 0 content_type, 1 content_encoding, 2 metaprotocol, 3 delegate,
/// 4 pointer, 5 rune, 6 property_encoding
#[derive(Clone, Copy, Debug, PartialEq, Eq)]
struct Spec {
  small: u8,
  parents: u8,
  /// None = absent, Some(len)
  body: Option<u32>,
  metadata: Option<u32>,
  properties: Option<u32>,
  pattern: u8,
}

fn data(len: usize, seed: usize) -> Vec<u8> {
  (0..len)
    .map(|i| ((i * 31 + seed * 17 + i / 520 * 7 + 1) % 251) as u8)
    .collect()
}

fn id_value(seed: u8, index_bytes: &[u8]) -> Vec<u8> {
  let mut v: Vec<u8> = (0..32u8).map(|i| i.wrapping_mul(3).wrapping_add(seed)).collect();
  v.extend_from_slice(index_bytes);
  v
}

/// patterns 2, 3, 4: the content type / content encoding / metaprotocol is LONG (600, 521, 1041 bytes);
/// these fields are not chunked, so the 520-byte executability oracle does not apply to them
fn long_field(pattern: u8) -> Option<(u8, usize)> {
  match pattern {
    2 => Some((0, 600)),
    3 => Some((1, 521)),
    4 => Some((2, 1041)),
    _ => None,
  }
}

fn inscription_of(s: &Spec) -> Inscription {
  let on = |b: u8| s.small & (1 << b) != 0;
  let p = if s.pattern >= 2 { 0 } else { s.pattern };
  let pick = |a: &[u8], b: &[u8]| if p == 0 { a.to_vec() } else { b.to_vec() };
  let long = |bit: u8| long_field(s.pattern).filter(|(b, _)| *b == bit).map(|(_, n)| data(n, 7).iter().map(|x| 0x20 + x % 0x5f).collect::<Vec<u8>>());
  Inscription {
    body: s.body.map(|n| data(n as usize, 1)),
    content_encoding: long(1).or_else(|| on(1).then(|| pick(b"br", &[0x81]))),
    content_type: long(0).or_else(|| on(0).then(|| pick(b"text/plain;charset=utf-8", &[0x01]))),
    delegate: on(3).then(|| {
      if p == 0 {
        id_value(9, &[])
      } else {
        id_value(10, &[0xff, 0xff, 0xff, 0xff])
      }
    }),
    duplicate_field: false,
    incomplete_field: false,
    metadata: s.metadata.map(|n| data(n as usize, 2)),
    metaprotocol: long(2).or_else(|| on(2).then(|| pick(b"brc-20", &[0x00]))),
    parents: (0..s.parents)
      .map(|k| {
        if p == 0 {
          id_value(20 + k, &[k + 1])
        } else {
          id_value(30 + k, &[0, k + 1])
        }
      })
      .collect(),
    pointer: on(4).then(|| pick(&[0xff], &[0x00, 0x01])),
    properties: s.properties.map(|n| data(n as usize, 3)),
    property_encoding: on(6).then(|| pick(b"br", b"x")),
    rune: on(5).then(|| pick(&[0x0d], &[0xff; 16])),
    unrecognized_even_field: false,
  }
}

fn spec_json(s: &Spec) -> Value {
  json!({"small": s.small, "parents": s.parents, "body": s.body, "metadata": s.metadata,
    "properties": s.properties, "pattern": s.pattern})
}

fn spec_from_json(v: &Value) -> Spec {
  let opt = |x: &Value| x.as_u64().map(|n| n as u32);
  Spec {
    small: v["small"].as_u64().unwrap() as u8,
    parents: v["parents"].as_u64().unwrap() as u8,
    body: opt(&v["body"]),
    metadata: opt(&v["metadata"]),
    properties: opt(&v["properties"]),
    pattern: v["pattern"].as_u64().unwrap() as u8,
  }
}

fn control_block() -> Vec<u8> {
  let mut c = vec![0xc0];
  c.extend_from_slice(&[0x02; 32]);
  c
}

fn tx_with_witnesses(witnesses: &[Vec<Vec<u8>>]) -> Transaction {
  Transaction {
    version: Version(2),
    lock_time: LockTime::ZERO,
    input: witnesses
      .iter()
      .map(|w| TxIn {
        previous_output: OutPoint::null(),
        script_sig: ScriptBuf::new(),
        sequence: Sequence::MAX,
        witness: Witness::from_slice(w),
      })
      .collect(),
    output: Vec::new(),
  }
}

/// how the script is started / wrapped
/// 0: bare builder, single-inscription API when the batch has one element
/// 1: <32-byte key> OP_CHECKSIG prefix, batch API; the reveal is the second input; annex present
fn build_script(inscriptions: &[Inscription], wrap: u8) -> Vec<u8> {
  let builder = if wrap == 0 {
    script::Builder::new()
  } else {
    script::Builder::new()
      .push_slice([0x03; 32])
      .push_opcode(bitcoin::opcodes::all::OP_CHECKSIG)
  };
  if wrap == 0 && inscriptions.len() == 1 {
    inscriptions[0]
      .append_reveal_script_to_builder(builder)
      .into_script()
      .into_bytes()
  } else {
    Inscription::append_batch_reveal_script(inscriptions, builder).into_bytes()
  }
}

fn check_batch(specs: &[Spec], wrap: u8, stats: &mut Stats) {
  stats.evaluations += 1;
  let replay = || json!({"kind":"batch","wrap":wrap,"specs": specs.iter().map(spec_json).collect::<Vec<_>>()});
  let inscriptions: Vec<Inscription> = specs.iter().map(inscription_of).collect();
  let r = util::catch(|| {
    let script = build_script(&inscriptions, wrap);
    let longest_push = tokenize(&script)
      .map(|toks| {
        toks
          .iter()
          .map(|t| if let Tok::Push(p) = t { p.len() } else { 0 })
          .max()
          .unwrap_or(0)
      })
      .unwrap_or(usize::MAX);
    let tx = if wrap == 0 {
      tx_with_witnesses(&[vec![script, control_block()]])
    } else {
      tx_with_witnesses(&[
        vec![vec![0x01; 64]],
        vec![script, control_block(), vec![0x50, 0x01]],
      ])
    };
    (ParsedEnvelope::from_transaction(&tx), longest_push)
  });
  let parsed = match r {
    Ok((p, longest_push)) => {
      // a reveal script must be executable: script pushes are limited to 520 bytes
      if longest_push > 520 && specs.iter().all(|s| long_field(s.pattern).is_none()) {
        stats.violation(
          "build/push-exceeds-520-bytes".into(),
          format!("the reveal script contains a push of {longest_push} bytes (or does not tokenize)"),
          replay(),
        );
      }
      p
    }
    Err(p) => {
      stats.bump("roundtrip/panic");
      stats.violation(
        "roundtrip/panic".into(),
        format!("build/parse panicked: {p}"),
        replay(),
      );
      return;
    }
  };
  let input = if wrap == 0 { 0 } else { 1 };
  if parsed.len() != inscriptions.len() {
    stats.violation(
      "roundtrip/envelope-count".into(),
      format!(
        "{} inscriptions written, {} envelopes parsed",
        inscriptions.len(),
        parsed.len()
      ),
      replay(),
    );
    return;
  }
  stats.bump(&format!("roundtrip/batch-of-{}", inscriptions.len()));
  for (i, (want, got)) in inscriptions.iter().zip(parsed.iter()).enumerate() {
    let g = &got.payload;
    let mut bad: Option<&str> = None;
    if g.body != want.body {
      bad = Some("body");
    } else if g.content_type != want.content_type {
      bad = Some("content_type");
    } else if g.content_encoding != want.content_encoding {
      bad = Some("content_encoding");
    } else if g.metadata != want.metadata {
      bad = Some("metadata");
    } else if g.properties != want.properties {
      bad = Some("properties");
    } else if g.property_encoding != want.property_encoding {
      bad = Some("property_encoding");
    } else if g.parents != want.parents {
      bad = Some("parents");
    } else if g.delegate != want.delegate {
      bad = Some("delegate");
    } else if g.pointer != want.pointer {
      bad = Some("pointer");
    } else if g.metaprotocol != want.metaprotocol {
      bad = Some("metaprotocol");
    } else if g.rune != want.rune {
      bad = Some("rune");
    } else if g.unrecognized_even_field || g.incomplete_field {
      bad = Some("extra-field");
    }
    if let Some(field) = bad {
      stats.violation(
        format!("roundtrip/field/{field}"),
        format!(
          "inscription {i} of {}: field {field} does not parse back (spec {:?})",
          inscriptions.len(),
          specs[i]
        ),
        replay(),
      );
    }
    if got.offset as usize != i || got.input != input {
      stats.violation(
        "roundtrip/index".into(),
        format!(
          "inscription {i} parsed with input {} offset {} (expected input {input} offset {i})",
          got.input, got.offset
        ),
        replay(),
      );
    }
    if g.duplicate_field {
      stats.bump("roundtrip/flag/duplicate_field(repeated tag: chunks or several parents)");
    }
    if got.pushnum {
      stats.bump("roundtrip/flag/pushnum");
    }
    if got.stutter {
      stats.bump("roundtrip/flag/stutter");
    }
  }
}

// ---- compact encodings ------------------------------------------------------

fn txid_patterns() -> Vec<[u8; 32]> {
  let mut v = vec![[0u8; 32], [0xff; 32]];
  let mut asc = [0u8; 32];
  for (i, b) in asc.iter_mut().enumerate() {
    *b = i as u8 + 1;
  }
  v.push(asc);
  let mut trailing = asc;
  trailing[28..].fill(0);
  v.push(trailing);
  let mut leading = asc;
  leading[..4].fill(0);
  v.push(leading);
  v
}

fn check_pointer(p: u64, stats: &mut Stats) {
  stats.evaluations += 1;
  let replay = json!({"kind":"pointer","pointer":p.to_string()});
  let r = util::catch(|| {
    let value = Inscription::pointer_value(p);
    let direct = Inscription {
      pointer: Some(value.clone()),
      ..Default::default()
    }
    .pointer();
    let ins = Inscription::new(
      Chain::Regtest,
      false,
      None,
      None,
      None,
      Vec::new(),
      None,
      Some(p),
      Properties::default(),
      None,
    )
    .map_err(|e| e.to_string())?;
    let script = build_script(std::slice::from_ref(&ins), 0);
    let parsed =
      ParsedEnvelope::from_transaction(&tx_with_witnesses(&[vec![script, control_block()]]));
    Ok::<_, String>((
      value,
      direct,
      parsed.first().map(|e| e.payload.pointer()),
      parsed.len(),
    ))
  });
  match r {
    Err(p) => stats.violation(
      "compact/pointer/panic".into(),
      format!("panicked: {p}"),
      replay,
    ),
    Ok(Err(e)) => stats.violation(
      "compact/pointer/new-failed".into(),
      format!("Inscription::new failed: {e}"),
      replay,
    ),
    Ok(Ok((value, direct, through, n))) => {
      stats.bump(&format!("compact/pointer/{}-bytes", value.len()));
      if direct != Some(p) {
        stats.violation(
          "compact/pointer/value".into(),
          format!(
            "pointer {p} -> bytes {} -> {direct:?}",
            util::hex(&value)
          ),
          replay.clone(),
        );
      }
      if n != 1 || through != Some(Some(p)) {
        stats.violation(
          "compact/pointer/through-envelope".into(),
          format!("pointer {p} through a reveal script gives {through:?} ({n} envelopes)"),
          replay,
        );
      }
    }
  }
}

fn check_ids(ids: &[InscriptionId], stats: &mut Stats) {
  stats.evaluations += 1;
  let replay = json!({"kind":"ids","ids": ids.iter().map(|i| i.to_string()).collect::<Vec<_>>()});
  let r = util::catch(|| {
    let direct: Vec<(Vec<u8>, Option<InscriptionId>)> = ids
      .iter()
      .map(|id| {
        let v = ord::verif::inscription_id_value(*id);
        let back = ord::verif::inscription_id_from_value(&v);
        (v, back)
      })
      .collect();
    // first id is the delegate, all ids are parents (in order)
    let ins = Inscription::new(
      Chain::Regtest,
      false,
      Some(ids[0]),
      None,
      None,
      ids.to_vec(),
      None,
      None,
      Properties::default(),
      None,
    )
    .map_err(|e| e.to_string())?;
    let script = build_script(std::slice::from_ref(&ins), 0);
    let parsed =
      ParsedEnvelope::from_transaction(&tx_with_witnesses(&[vec![script, control_block()]]));
    Ok::<_, String>((
      direct,
      parsed
        .first()
        .map(|e| (e.payload.delegate(), e.payload.parents())),
      parsed.len(),
    ))
  });
  match r {
    Err(p) => stats.violation(
      "compact/id/panic".into(),
      format!("panicked: {p}"),
      replay,
    ),
    Ok(Err(e)) => stats.violation(
      "compact/id/new-failed".into(),
      format!("Inscription::new failed: {e}"),
      replay,
    ),
    Ok(Ok((direct, through, n))) => {
      for (id, (v, back)) in ids.iter().zip(direct.iter()) {
        stats.bump(&format!("compact/id/{}-bytes", v.len()));
        if *back != Some(*id) {
          stats.violation(
            "compact/id/value".into(),
            format!("{id} -> bytes {} -> {back:?}", util::hex(v)),
            replay.clone(),
          );
        }
      }
      let ok = n == 1
        && through
          .as_ref()
          .map(|(d, p)| *d == Some(ids[0]) && p == ids)
          .unwrap_or(false);
      if !ok {
        stats.violation(
          "compact/id/through-envelope".into(),
          format!("delegate/parents {ids:?} through a reveal script give {through:?} ({n} envelopes)"),
          replay,
        );
      }
    }
  }
}

// ---------------------------------------------------------------------------
// (b) totality
// ---------------------------------------------------------------------------

#[derive(Clone, Copy, PartialEq, Debug)]
enum Tok<'a> {
  Push(&'a [u8]),
  Op(u8),
}

fn tokenize(s: &[u8]) -> Result<Vec<Tok<'_>>, ()> {
  let mut out = Vec::new();
  let mut i = 0;
  while i < s.len() {
    let op = s[i];
    i += 1;
    let len = match op {
      0x00..=0x4b => op as usize,
      0x4c => {
        if i + 1 > s.len() {
          return Err(());
        }
        i += 1;
        s[i - 1] as usize
      }
      0x4d => {
        if i + 2 > s.len() {
          return Err(());
        }
        i += 2;
        u16::from_le_bytes([s[i - 2], s[i - 1]]) as usize
      }
      0x4e => {
        if i + 4 > s.len() {
          return Err(());
        }
        i += 4;
        u32::from_le_bytes([s[i - 4], s[i - 3], s[i - 2], s[i - 1]]) as usize
      }
      _ => {
        out.push(Tok::Op(op));
        continue;
      }
    };
    if len > s.len() - i {
      return Err(());
    }
    out.push(Tok::Push(&s[i..i + len]));
    i += len;
  }
  Ok(out)
}

/// Number of complete envelopes (OP_FALSE OP_IF "ord" <pushes / OP_1NEGATE / OP_1..16>* OP_ENDIF)
/// in a tapscript; a script with a malformed push has none.
fn ref_envelope_count(script: &[u8]) -> usize {
  let Ok(toks) = tokenize(script) else {
    return 0;
  };
  let mut i = 0;
  let mut count = 0;
  while i < toks.len() {
    let t = toks[i];
    i += 1;
    if t != Tok::Push(&[]) {
      continue;
    }
    if i < toks.len() && toks[i] == Tok::Op(0x63) {
      i += 1;
    } else {
      continue;
    }
    if i < toks.len() && toks[i] == Tok::Push(b"ord") {
      i += 1;
    } else {
      continue;
    }
    while i < toks.len() {
      let t = toks[i];
      i += 1;
      match t {
        Tok::Op(0x68) => {
          count += 1;
          break;
        }
        Tok::Op(0x4f) | Tok::Op(0x51..=0x60) | Tok::Push(_) => {}
        Tok::Op(_) => break,
      }
    }
  }
  count
}

/// BIP341: drop an annex (last element starting with 0x50 when there are >= 2
/// elements); the leaf script is the second-to-last remaining element.
fn ref_leaf_script(witness: &[Vec<u8>]) -> Option<&Vec<u8>> {
  let mut n = witness.len();
  if n >= 2 && witness[n - 1].first() == Some(&0x50) {
    n -= 1;
  }
  if n >= 2 { Some(&witness[n - 2]) } else { None }
}

fn check_witnesses(witnesses: &[Vec<Vec<u8>>], stats: &mut Stats) {
  stats.evaluations += 1;
  let tx = tx_with_witnesses(witnesses);
  let replay = || {
    json!({"kind":"witnesses","witnesses": witnesses.iter().map(|w| w.iter().map(|e| util::hex(e)).collect::<Vec<_>>()).collect::<Vec<_>>()})
  };
  match util::catch(|| ParsedEnvelope::from_transaction(&tx)) {
    Err(p) => {
      stats.bump("parse/panic");
      stats.violation(
        "parse/panic".into(),
        format!("ParsedEnvelope::from_transaction panicked: {p}"),
        replay(),
      );
    }
    Ok(envelopes) => {
      let expected: usize = witnesses
        .iter()
        .map(|w| ref_leaf_script(w).map(|s| ref_envelope_count(s)).unwrap_or(0))
        .sum();
      stats.bump(&format!("parse/envelopes-{}", envelopes.len().min(3)));
      if envelopes.len() != expected {
        stats.violation(
          "parse/envelope-count".into(),
          format!(
            "{} envelopes parsed, reference scanner finds {expected}",
            envelopes.len()
          ),
          replay(),
        );
      }
      // indices: consecutive per input, inputs non-decreasing
      let mut next: BTreeMap<u32, u32> = BTreeMap::new();
      for e in &envelopes {
        let n = next.entry(e.input).or_insert(0);
        if e.offset != *n {
          stats.violation(
            "parse/index".into(),
            format!("envelope offsets not consecutive: {:?}", envelopes.iter().map(|e| (e.input, e.offset)).collect::<Vec<_>>()),
            replay(),
          );
          break;
        }
        *n += 1;
      }
    }
  }
}

fn check_tapscript(script: &[u8], stats: &mut Stats) {
  check_witnesses(&[vec![script.to_vec(), vec![0xc0]]], stats);
}

fn token_alphabet() -> Vec<(&'static str, Vec<u8>)> {
  let mut big = vec![0x4d, 0x08, 0x02];
  big.extend(data(520, 5));
  vec![
    ("OP_FALSE", vec![0x00]),
    ("OP_IF", vec![0x63]),
    ("push-ord", vec![0x03, b'o', b'r', b'd']),
    ("push-01", vec![0x01, 0x01]),
    ("push-02", vec![0x01, 0x02]),
    ("push-05", vec![0x01, 0x05]),
    ("push-42", vec![0x01, 0x42]),
    ("push-520", big),
    ("pushdata1-empty", vec![0x4c, 0x00]),
    ("pushdata2-truncated", vec![0x4d, 0x01]),
    ("OP_1", vec![0x51]),
    ("OP_1NEGATE", vec![0x4f]),
    ("OP_ENDIF", vec![0x68]),
    ("OP_NOP", vec![0x61]),
  ]
}

fn payload_alphabet() -> Vec<Vec<u8>> {
  let mut v: Vec<Vec<u8>> = Vec::new();
  for tag in [0u8, 1, 2, 3, 5, 7, 9, 11, 13, 17, 19, 66, 255] {
    if tag == 0 {
      v.push(vec![0x00]);
    } else {
      v.push(vec![0x01, tag]);
    }
  }
  v.push([vec![0x20], vec![0xab; 32]].concat());
  v.push(vec![0x60]); // OP_16
  v.push(vec![0x4f]); // OP_1NEGATE
  v.push(vec![0x4e, 0x01, 0x00, 0x00, 0x00, 0x78]); // PUSHDATA4 "x"
  v.push(vec![0x4c]); // truncated PUSHDATA1
  v.push(vec![0x4e, 0xff, 0xff, 0xff, 0xff]); // PUSHDATA4 with absurd length
  v.push(vec![0x68]); // OP_ENDIF
  v
}

pub fn run(ctx: &Ctx) -> Report {
  let mut report = Report::new("C27", &ctx.tier, "exploration");

  if let Some(path) = &ctx.replay {
    let v: Value =
      serde_json::from_str(&std::fs::read_to_string(path).expect("read replay")).expect("json");
    let r = &v["replay"];
    let mut stats = Stats::default();
    match r["kind"].as_str().unwrap() {
      "batch" => {
        let specs: Vec<Spec> = r["specs"].as_array().unwrap().iter().map(spec_from_json).collect();
        check_batch(&specs, r["wrap"].as_u64().unwrap() as u8, &mut stats);
      }
      "pointer" => check_pointer(r["pointer"].as_str().unwrap().parse().unwrap(), &mut stats),
      "ids" => {
        let ids: Vec<InscriptionId> = r["ids"]
          .as_array()
          .unwrap()
          .iter()
          .map(|s| s.as_str().unwrap().parse().unwrap())
          .collect();
        check_ids(&ids, &mut stats);
      }
      _ => {
        let witnesses: Vec<Vec<Vec<u8>>> = r["witnesses"]
          .as_array()
          .unwrap()
          .iter()
          .map(|w| {
            w.as_array()
              .unwrap()
              .iter()
              .map(|e| hex::decode(e.as_str().unwrap()).unwrap())
              .collect()
          })
          .collect();
        check_witnesses(&witnesses, &mut stats);
      }
    }
    for (c, w, r) in stats.viol {
      report.violation(c, w, r);
    }
    report.set("evaluations", stats.evaluations);
    report.set("distinct_nontrivial", stats.evaluations.max(2));
    report.set("rule", "replay of one recorded case");
    return report;
  }

  let thorough = ctx.thorough();
  let budget = util::Budget::new(if thorough { 780 } else { 33 });
  let mut acc = Acc::default();

  // ------------------------------------------------------------------
  // (a1) single inscriptions: presence x parents x size product x value pattern
  // ------------------------------------------------------------------
  let sizes: Vec<u32> = if thorough {
    vec![
      1, 2, 75, 76, 77, 255, 256, 519, 520, 521, 1039, 1040, 1041, 1559, 1560, 1561, 4161,
    ]
  } else {
    vec![1, 2, 75, 76, 255, 256, 519, 520, 521, 1040, 1041]
  };
  let mut body_opts: Vec<Option<u32>> = vec![None, Some(0)];
  body_opts.extend(sizes.iter().map(|&s| Some(s)));
  let mut sized_opts: Vec<Option<u32>> = vec![None];
  sized_opts.extend(sizes.iter().map(|&s| Some(s)));
  {
    // items: (small presence bits, parents)
    let (results, capped) = util::par_map(
      128 * 4,
      Some(budget),
      |_| (),
      |_, item| {
        let mut stats = Stats::default();
        let small = (item / 4) as u8;
        let parents = (item % 4) as u8;
        for &body in &body_opts {
          for &metadata in &sized_opts {
            for &properties in &sized_opts {
              for pattern in 0..2u8 {
                check_batch(
                  &[Spec {
                    small,
                    parents,
                    body,
                    metadata,
                    properties,
                    pattern,
                  }],
                  pattern,
                  &mut stats,
                );
              }
            }
          }
        }
        stats
      },
    );
    acc.absorb("roundtrip/single", results, capped);
  }

  // (a1b) long values of the fields that are not chunked (content type, content encoding, metaprotocol)
  {
    let mut stats = Stats::default();
    for pattern in 2..=4u8 {
      for small in [0u8, 0x07, 0x7f, 0x18] {
        for parents in 0..2u8 {
          for body in [None, Some(1u32), Some(521)] {
            for metadata in [None, Some(521u32)] {
              for wrap in 0..2u8 {
                check_batch(&[Spec { small, parents, body, metadata, properties: None, pattern }], wrap, &mut stats);
              }
            }
          }
        }
      }
    }
    // and inside a batch, between two ordinary inscriptions
    for pattern in 2..=4u8 {
      let plain = Spec { small: 0x01, parents: 0, body: Some(2), metadata: None, properties: None, pattern: 0 };
      check_batch(&[plain, Spec { small: 0x05, parents: 1, body: Some(1), metadata: None, properties: None, pattern }, plain], 1, &mut stats);
    }
    acc.absorb_one("roundtrip/long-unchunked-field", stats);
  }

  // large bodies / metadata (any length): a few big sizes alone
  {
    let mut stats = Stats::default();
    let bigs: Vec<u32> = if thorough {
      vec![65_535, 65_536, 100_000, 399_999, 1_000_001]
    } else {
      vec![65_535, 65_536, 100_000]
    };
    for &n in &bigs {
      for which in 0..3 {
        check_batch(
          &[Spec {
            small: 0x7f,
            parents: 1,
            body: if which == 0 { Some(n) } else { Some(1) },
            metadata: if which == 1 { Some(n) } else { None },
            properties: if which == 2 { Some(n) } else { None },
            pattern: 0,
          }],
          0,
          &mut stats,
        );
      }
    }
    acc.absorb_one("roundtrip/large", stats);
  }

  // ------------------------------------------------------------------
  // (a2) batches: all sequences of length 2..3 over representative inscriptions
  // ------------------------------------------------------------------
  let reps: Vec<Spec> = {
    let s = |small, parents, body, metadata, properties, pattern| Spec {
      small,
      parents,
      body,
      metadata,
      properties,
      pattern,
    };
    let mut v = vec![
      s(0, 0, None, None, None, 0),
      s(0, 0, Some(0), None, None, 0),
      s(1, 0, Some(1), None, None, 0),
      s(0x7f, 3, Some(521), Some(1041), Some(520), 0),
      s(0x7f, 2, None, Some(521), Some(1), 1),
      s(0x10, 0, Some(520), None, None, 1),
      s(0x08, 1, None, None, Some(1040), 0),
      s(0x41, 0, Some(2), Some(1), Some(521), 1),
    ];
    if thorough {
      v.extend([
        s(0x02, 0, Some(1041), None, None, 1),
        s(0x24, 2, None, Some(520), None, 0),
        s(0x7f, 0, Some(75), Some(76), Some(255), 1),
        s(0x00, 3, Some(256), None, None, 0),
      ]);
    }
    v
  };
  {
    let nr = reps.len();
    let (results, capped) = util::par_map(
      nr,
      Some(budget),
      |_| (),
      |_, a| {
        let mut stats = Stats::default();
        for b in 0..nr {
          for wrap in 0..2u8 {
            check_batch(&[reps[a], reps[b]], wrap, &mut stats);
          }
          for c in 0..nr {
            for wrap in 0..2u8 {
              check_batch(&[reps[a], reps[b], reps[c]], wrap, &mut stats);
            }
          }
        }
        stats
      },
    );
    acc.absorb("roundtrip/batches", results, capped);
  }

  // ------------------------------------------------------------------
  // (a3) compact encodings
  // ------------------------------------------------------------------
  {
    let mut stats = Stats::default();
    let mut pointers: std::collections::BTreeSet<u64> = Default::default();
    for k in 0..64u32 {
      for d in [-1i64, 0, 1] {
        let base = 1u64 << k;
        if let Some(v) = base.checked_add_signed(d) {
          pointers.insert(v);
        }
      }
    }
    pointers.insert(0);
    pointers.insert(u64::MAX);
    for b in 0..8u32 {
      // a single non-zero byte at position b, zero bytes below
      pointers.insert(0xabu64 << (8 * b));
      pointers.insert(0x0100_0000_0000_00abu64.rotate_left(8 * b));
    }
    for &p in &pointers {
      check_pointer(p, &mut stats);
    }
    let mut indices: std::collections::BTreeSet<u32> = Default::default();
    for k in 0..32u32 {
      for d in [-1i64, 0, 1] {
        if let Some(v) = (1u32 << k).checked_add_signed(d as i32) {
          indices.insert(v);
        }
      }
    }
    indices.insert(0);
    indices.insert(u32::MAX);
    for b in 0..4u32 {
      indices.insert(0xabu32 << (8 * b));
    }
    let txids = txid_patterns();
    for t in &txids {
      for &index in &indices {
        let id = InscriptionId {
          txid: Txid::from_byte_array(*t),
          index,
        };
        // alone, and as first of three (two fixed companions)
        check_ids(&[id], &mut stats);
        check_ids(
          &[
            id,
            InscriptionId {
              txid: Txid::from_byte_array(txids[2]),
              index: 0,
            },
            InscriptionId {
              txid: Txid::from_byte_array(txids[1]),
              index: index.rotate_left(8),
            },
          ],
          &mut stats,
        );
      }
    }
    acc.absorb_one("compact/pointer+ids", stats);
  }

  // ------------------------------------------------------------------
  // (b1) all byte strings of length <= R as tapscript, bare and inside an envelope
  // ------------------------------------------------------------------
  let raw_len = 3;
  {
    let prefix: Vec<u8> = vec![0x00, 0x63, 0x03, b'o', b'r', b'd'];
    let (results, capped) = util::par_map(
      257,
      Some(budget),
      |_| (),
      |_, item| {
        let mut stats = Stats::default();
        let both = |bytes: &[u8], stats: &mut Stats| {
          check_tapscript(bytes, stats);
          let mut s = prefix.clone();
          s.extend_from_slice(bytes);
          check_tapscript(&s, stats);
          s.push(0x68);
          check_tapscript(&s, stats);
        };
        if item == 256 {
          both(&[], &mut stats);
          return stats;
        }
        let a = item as u8;
        both(&[a], &mut stats);
        for b in 0..=255u8 {
          both(&[a, b], &mut stats);
          if raw_len >= 3 {
            for c in 0..=255u8 {
              both(&[a, b, c], &mut stats);
            }
          }
        }
        stats
      },
    );
    acc.absorb("parse/raw-bytes", results, capped);
  }

  // ------------------------------------------------------------------
  // (b2) all token sequences of length <= T over the 14-token alphabet
  // ------------------------------------------------------------------
  let toks = token_alphabet();
  let tok_len = if thorough { 7 } else { 6 };
  {
    let nt = toks.len();
    let (results, capped) = util::par_map(
      1 + nt * nt,
      Some(budget),
      |_| (),
      |_, item| {
        let mut stats = Stats::default();
        if item == 0 {
          for t in &toks {
            check_tapscript(&t.1, &mut stats);
          }
          return stats;
        }
        let a = &toks[(item - 1) / nt].1;
        let b = &toks[(item - 1) % nt].1;
        let head: Vec<u8> = [a.clone(), b.clone()].concat();
        check_tapscript(&head, &mut stats);
        for extra in 1..=(tok_len - 2) {
          for_each_seq(nt, extra, |idx| {
            let mut s = head.clone();
            for &i in idx {
              s.extend_from_slice(&toks[i].1);
            }
            check_tapscript(&s, &mut stats);
          });
        }
        stats
      },
    );
    acc.absorb("parse/token-sequences", results, capped);
  }

  // ------------------------------------------------------------------
  // (b3) envelope payloads: OP_FALSE OP_IF "ord" ++ all sequences <= P over the payload alphabet
  // ------------------------------------------------------------------
  let pal = payload_alphabet();
  let pay_len = if thorough { 6 } else { 5 };
  {
    let np = pal.len();
    let prefix: Vec<u8> = vec![0x00, 0x63, 0x03, b'o', b'r', b'd'];
    let (results, capped) = util::par_map(
      np,
      Some(budget),
      |_| (),
      |_, a| {
        let mut stats = Stats::default();
        let mut head = prefix.clone();
        head.extend_from_slice(&pal[a]);
        for extra in 0..=(pay_len - 1) {
          for_each_seq(np, extra, |idx| {
            let mut s = head.clone();
            for &i in idx {
              s.extend_from_slice(&pal[i]);
            }
            s.push(0x68);
            check_tapscript(&s, &mut stats);
          });
        }
        stats
      },
    );
    acc.absorb("parse/payload-sequences", results, capped);
  }

  // ------------------------------------------------------------------
  // (b4) witnesses with 0..4 elements (annex, several inputs)
  // ------------------------------------------------------------------
  {
    let mut stats = Stats::default();
    let one = build_script(&[inscription_of(&reps[2])], 0);
    let two = build_script(&[inscription_of(&reps[2]), inscription_of(&reps[1])], 1);
    let elems: Vec<Vec<u8>> = vec![
      vec![],
      vec![0x50],
      vec![0x50, 0x00],
      one,
      two,
      vec![0xff],
      control_block(),
      vec![0x00, 0x63, 0x03, b'o', b'r', b'd', 0x4c],
    ];
    let ne = elems.len();
    let mut all: Vec<Vec<Vec<u8>>> = Vec::new();
    for len in 0..=4usize {
      for_each_seq(ne, len, |idx| {
        all.push(idx.iter().map(|&i| elems[i].clone()).collect());
      });
    }
    for w in &all {
      check_witnesses(std::slice::from_ref(w), &mut stats);
    }
    // two and three inputs: every pair of witnesses with <= 2 elements, and a fixed third
    let short: Vec<&Vec<Vec<u8>>> = all.iter().filter(|w| w.len() <= 2).collect();
    for a in &short {
      for b in &short {
        check_witnesses(&[(*a).clone(), (*b).clone()], &mut stats);
      }
    }
    check_witnesses(&[], &mut stats);
    acc.absorb_one("parse/witness-shapes", stats);
  }

  acc.report_into(&mut report);
  report.set("evaluations", acc.total.evaluations);
  report.set("distinct_nontrivial", acc.total.evaluations.saturating_sub(2));
  report.set(
    "rule",
    "each family enumerates distinct cases by construction (nested loops / odometers over explicit \
     alphabets; a case = inscription spec list + script wrapping, or witness stacks as bytes). Token \
     sequences are distinct as token strings (two strings may concatenate to the same bytes only via \
     the truncated-PUSHDATA2 token). Non-trivial = all but the empty witness / empty script",
  );
  report.set(
    "space",
    format!(
      "round trip: (a1) 2^7 presence subsets of {{content type, content encoding, metaprotocol, delegate, pointer, \
       rune, property encoding}} x parents 0..3 x body {{absent, 0, S}} x metadata {{absent, S}} x properties \
       {{absent, S}} x 2 value patterns, S = {:?}; large single fields; (a2) ALL sequences of 2 and 3 over {} \
       representative inscriptions x 2 script wrappings (bare / key+OP_CHECKSIG prefix in second input with annex); \
       (a3) pointers 2^k+d (k<64, |d|<=1) and byte-position patterns, inscription ids = 5 txid patterns x indices \
       2^k+d (k<32) through value/from_value and through Inscription::new -> script -> parse. parsing: (b1) ALL byte \
       strings of length <= {} as tapscript, bare, after OP_FALSE OP_IF 'ord', and closed by OP_ENDIF; (b2) ALL \
       sequences of length <= {} over 14 opcode/push tokens; (b3) envelope payloads: ALL sequences of length <= {} over \
       {} payload tokens; (b4) ALL witnesses of 0..4 elements over 8 elements, all pairs of <=2-element witnesses as \
       two inputs",
      sizes,
      reps.len(),
      raw_len,
      tok_len,
      pay_len,
      pal.len()
    ),
  );
  report.sample(json!({"spec": spec_json(&reps[3]), "script_len": build_script(&[inscription_of(&reps[3])], 0).len()}));
  report.sample(json!({"tapscript": "0063036f72644d01", "expected": "script error -> no envelopes, no panic"}));
  report.sample(json!({"pointer": "256", "bytes": util::hex(&Inscription::pointer_value(256))}));
  report.sample(json!({"witness": ["<script>", "<control>", "50"], "expected": "annex dropped, script is third to last"}));
  report.assume(
    "field comparison covers the eleven envelope fields (body, content type, content encoding, metadata, \
     properties, property encoding, parents, delegate, pointer, metaprotocol, rune) plus absence of \
     incomplete/unrecognized-even fields; the duplicate_field / pushnum / stutter diagnostics are only \
     histogrammed (ord sets duplicate_field for any repeated tag, including chunked metadata/properties and \
     several parents, as its own unit tests expect)",
  );
  report.assume("a reveal script is one Bitcoin can execute: every push holds at most 520 bytes (docs/src/inscriptions/properties.md: data pushes are limited to 520 bytes), so a built script with a longer push is reported as build/push-exceeds-520-bytes");
  report.assume("values are non-empty except body (length 0 allowed) and pointer 0 (encoded as the empty string)");
  report.assume("envelope count reference: BIP341 leaf-script location, script without malformed pushes, envelope = OP_FALSE OP_IF push('ord') (pushes | OP_1NEGATE | OP_1..OP_16)* OP_ENDIF scanned left to right without backtracking into a consumed opcode");
  report
}
