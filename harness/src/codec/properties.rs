//! C28: inscription properties round-trip and decoding is bounded.
//!
//! (a) decode(encode(p)) = p for the inline and packed CBOR encoders and for the
//!     encoding chosen by `Inscription::new` (with and without brotli) over a
//!     complete lattice of galleries / titles / traits;
//! (b) decoding never panics over all short byte strings and CBOR token sequences,
//!     with the property-encoding field absent, "br" and unknown;
//! (c) a brotli-compressed properties field whose decompressed size exceeds
//!     min(30 x compressed size, 4 000 000) never yields properties.

use {
  crate::{
    Ctx,
    codec::{Acc, Stats, for_each_seq},
    evidence::Report,
    util,
  },
  bitcoin::{Txid, hashes::Hash},
  ord::{Attributes, Chain, Inscription, InscriptionId, Item, Properties, Trait, Traits},
  serde_json::{Value, json},
  std::io::Write,
};

const MAX_SIZE: usize = 4_000_000;
const MAX_RATIO: usize = 30;

// ---------------------------------------------------------------------------
// lattice
// ---------------------------------------------------------------------------

fn txid(seed: u8) -> Txid {
  let mut b = [0u8; 32];
  for (i, x) in b.iter_mut().enumerate() {
    *x = (i as u8).wrapping_mul(seed).wrapping_add(seed);
  }
  Txid::from_byte_array(b)
}

fn trait_values() -> Vec<Trait> {
  vec![
    Trait::Bool(true),
    Trait::Bool(false),
    Trait::Integer(0),
    Trait::Integer(-1),
    Trait::Integer(i64::MAX),
    Trait::Integer(i64::MIN),
    Trait::Null,
    Trait::String(String::new()),
    Trait::String("s\u{1F600}".into()),
  ]
}

/// all trait lists with 0..=max entries, distinct names in every order
fn trait_lists(max: usize, values: &[Trait]) -> Vec<Traits> {
  let names = ["a", "", "\u{fc}n\u{ef}"];
  let mut out = vec![Traits { items: vec![] }];
  if max >= 1 {
    for n in names {
      for v in values {
        out.push(Traits {
          items: vec![(n.to_string(), v.clone())],
        });
      }
    }
  }
  if max >= 2 {
    for (i, n1) in names.iter().enumerate() {
      for (j, n2) in names.iter().enumerate() {
        if i == j {
          continue;
        }
        for v1 in values {
          for v2 in values {
            out.push(Traits {
              items: vec![(n1.to_string(), v1.clone()), (n2.to_string(), v2.clone())],
            });
          }
        }
      }
    }
  }
  out
}

fn titles() -> Vec<Option<String>> {
  vec![
    None,
    Some(String::new()),
    Some("text".into()),
    Some("\u{fc}\u{2022}\u{1F600}".into()),
  ]
}

fn item_alphabet() -> Vec<Item> {
  let ids = [
    InscriptionId {
      txid: txid(1),
      index: 0,
    },
    InscriptionId {
      txid: txid(1),
      index: 1,
    },
    InscriptionId {
      txid: txid(0),
      index: 256,
    },
    InscriptionId {
      txid: txid(7),
      index: u32::MAX,
    },
  ];
  let attrs = [
    Attributes::default(),
    Attributes {
      title: Some("t".into()),
      traits: Traits::default(),
    },
    Attributes {
      title: Some(String::new()),
      traits: Traits {
        items: vec![("k".into(), Trait::Integer(i64::MIN))],
      },
    },
    Attributes {
      title: None,
      traits: Traits {
        items: vec![("x".into(), Trait::Null), ("".into(), Trait::Bool(false))],
      },
    },
  ];
  let mut v = Vec::new();
  for id in ids {
    for a in &attrs {
      v.push(Item {
        id: Some(id),
        attributes: a.clone(),
        index: None,
      });
    }
  }
  v
}

fn check_codec(p: &Properties, stats: &mut Stats) {
  if *p == Properties::default() {
    return;
  }
  stats.evaluations += 1;
  let replay = || json!({"kind":"properties","properties": serde_json::to_value(p).unwrap()});
  let r = util::catch(|| {
    let inline = ord::verif::properties_to_inline_cbor(p);
    let packed = ord::verif::properties_to_packed_cbor(p);
    let a = inline.as_ref().map(|b| ord::verif::properties_from_cbor(b));
    let b = packed.as_ref().map(|b| ord::verif::properties_from_cbor(b));
    (inline, packed, a, b)
  });
  match r {
    Err(msg) => {
      stats.bump("roundtrip/panic");
      stats.violation(
        "roundtrip/panic".into(),
        format!("encoding/decoding {p:?} panicked: {msg}"),
        replay(),
      );
    }
    Ok((inline, packed, a, b)) => {
      stats.bump("roundtrip/inline+packed");
      if a.as_ref() != Some(p) {
        stats.violation(
          "roundtrip/inline".into(),
          format!(
            "inline cbor {} of {p:?} decodes to {a:?}",
            inline.map(|b| util::hex(&b)).unwrap_or("(none)".into())
          ),
          replay(),
        );
      }
      if b.as_ref() != Some(p) {
        stats.violation(
          "roundtrip/packed".into(),
          format!(
            "packed cbor {} of {p:?} decodes to {b:?}",
            packed.map(|b| util::hex(&b)).unwrap_or("(none)".into())
          ),
          replay(),
        );
      }
    }
  }
}

/// through `Inscription::new` (which chooses inline / packed / brotli) and `properties()`
fn check_inscription(p: &Properties, compress: bool, stats: &mut Stats) {
  if *p == Properties::default() {
    return;
  }
  stats.evaluations += 1;
  let replay = || json!({"kind":"inscription","compress":compress,"properties": serde_json::to_value(p).unwrap()});
  let r = util::catch(|| {
    Inscription::new(
      Chain::Regtest,
      compress,
      None,
      None,
      None,
      Vec::new(),
      None,
      None,
      p.clone(),
      None,
    )
    .map(|ins| {
      let back = ord::verif::inscription_properties(&ins);
      (ins, back)
    })
    .map_err(|e| e.to_string())
  });
  match r {
    Err(msg) => {
      stats.bump("roundtrip/panic");
      stats.violation(
        "roundtrip/inscription/panic".into(),
        format!("Inscription::new / properties() panicked: {msg}"),
        replay(),
      );
    }
    Ok(Err(e)) => {
      // ord refuses to encode (e.g. compression ratio over 30:1): nothing was encoded
      stats.bump(&format!(
        "roundtrip/inscription/refused({})",
        e.chars().take(40).collect::<String>()
      ));
    }
    Ok(Ok((ins, back))) => {
      let enc = match &ins.property_encoding {
        None => "plain".to_string(),
        Some(e) => String::from_utf8_lossy(e).to_string(),
      };
      stats.bump(&format!("roundtrip/inscription/encoding-{enc}"));
      if back != *p {
        let field = ins.properties.clone().unwrap_or_default();
        let plen = field.len();
        // size the field expands to (harness-side brotli decoder), to name the cause
        let expanded = if enc == "br" {
          let mut out = Vec::new();
          let mut d = brotli::Decompressor::new(field.as_slice(), 4096);
          std::io::Read::read_to_end(&mut d, &mut out).ok().map(|_| out.len())
        } else {
          None
        };
        let class = match expanded {
          Some(d) if back == Properties::default() && d > MAX_RATIO * plen && d / plen <= MAX_RATIO => {
            "roundtrip/inscription/brotli/ratio-accepted-by-encoder-rejected-by-decoder".to_string()
          }
          Some(_) => "roundtrip/inscription/brotli".to_string(),
          None => "roundtrip/inscription/plain".to_string(),
        };
        stats.bump(&format!("mismatch/{class}"));
        stats.violation(
          class,
          format!(
            "properties written by Inscription::new(compress={compress}) (field of {plen} bytes, encoding {enc}, expanding to {expanded:?} bytes; 30 x {plen} = {}) read back as {}",
            MAX_RATIO * plen,
            if back == Properties::default() { "no properties".to_string() } else { format!("{back:?}") }
          ),
          replay(),
        );
      }
    }
  }
}

// ---------------------------------------------------------------------------
// (b) decoding arbitrary bytes
// ---------------------------------------------------------------------------

fn check_bytes(bytes: &[u8], encoding: u8, stats: &mut Stats) {
  stats.evaluations += 1;
  let replay = || json!({"kind":"bytes","bytes":util::hex(bytes),"encoding":encoding});
  let r = util::catch(|| {
    if encoding == 3 {
      ord::verif::properties_from_cbor(bytes)
    } else {
      let ins = Inscription {
        properties: Some(bytes.to_vec()),
        property_encoding: match encoding {
          0 => None,
          1 => Some(b"br".to_vec()),
          _ => Some(b"x".to_vec()),
        },
        ..Default::default()
      };
      ord::verif::inscription_properties(&ins)
    }
  });
  match r {
    Err(msg) => {
      stats.bump("decode/panic");
      stats.violation(
        "decode/panic".into(),
        format!(
          "decoding properties bytes {} (encoding variant {encoding}) panicked: {msg}",
          util::hex(&bytes[..bytes.len().min(64)])
        ),
        replay(),
      );
    }
    Ok(p) => {
      if p == Properties::default() {
        stats.bump("decode/default");
      } else {
        stats.bump("decode/non-default");
        if encoding == 2 {
          stats.violation(
            "decode/unknown-encoding-accepted".into(),
            format!("properties with unknown property encoding decode to {p:?}"),
            replay(),
          );
        }
      }
    }
  }
}

fn cbor_tokens() -> Vec<Vec<u8>> {
  let mut bytes32 = vec![0x58, 0x20];
  bytes32.extend_from_slice(&[0x11; 32]);
  let mut bytes36 = vec![0x58, 0x24];
  bytes36.extend_from_slice(&[0x11; 36]);
  vec![
    vec![0xa0],       // map(0)
    vec![0xa1],       // map(1)
    vec![0xa2],       // map(2)
    vec![0x00],       // 0
    vec![0x01],       // 1
    vec![0x02],       // 2
    vec![0x80],       // array(0)
    vec![0x81],       // array(1)
    vec![0x82],       // array(2)
    bytes32,          // bytes(32)
    bytes36,          // bytes(36)
    vec![0x40],       // bytes(0)
    vec![0x61, 0x61], // "a"
    vec![0x60],       // ""
    vec![0xf6],       // null
    vec![0xf5],       // true
    vec![0x20],       // -1
    vec![0x1b, 0xff, 0xff, 0xff, 0xff, 0xff, 0xff, 0xff, 0xff], // u64::MAX
    vec![0x3b, 0xff, 0xff, 0xff, 0xff, 0xff, 0xff, 0xff, 0xff], // -2^64
    vec![0xbf],       // map(*)
    vec![0x9f],       // array(*)
    vec![0xff],       // break
    vec![0xc0],       // tag 0
    vec![0xf9, 0x00, 0x00], // f16
    vec![0x9b, 0x00, 0xff, 0xff, 0xff, 0xff, 0xff, 0xff, 0xff], // array(2^56-1)
    vec![0xbb, 0x00, 0xff, 0xff, 0xff, 0xff, 0xff, 0xff, 0xff], // map(2^56-1)
    vec![0x5b, 0x00, 0xff, 0xff, 0xff, 0xff, 0xff, 0xff, 0xff], // bytes(2^56-1)
    vec![0x62, 0xc3, 0x28], // invalid utf-8 text
  ]
}

// ---------------------------------------------------------------------------
// (c) bound
// ---------------------------------------------------------------------------

fn cbor_head(major: u8, len: usize, out: &mut Vec<u8>) {
  let m = major << 5;
  if len < 24 {
    out.push(m | len as u8);
  } else if len < 256 {
    out.push(m | 24);
    out.push(len as u8);
  } else if len < 65536 {
    out.push(m | 25);
    out.extend_from_slice(&(len as u16).to_be_bytes());
  } else if len < (1usize << 32) {
    out.push(m | 26);
    out.extend_from_slice(&(len as u32).to_be_bytes());
  } else {
    out.push(m | 27);
    out.extend_from_slice(&(len as u64).to_be_bytes());
  }
}

fn lcg_bytes(n: usize, seed: u64) -> Vec<u8> {
  let mut x = seed;
  (0..n)
    .map(|_| {
      x = x
        .wrapping_mul(6364136223846793005)
        .wrapping_add(1442695040888963407);
      (x >> 56) as u8
    })
    .collect()
}

/// {1: {0: title}, 7: filler} — key 7 is unknown and must be ignored per the documented schema
fn property_cbor(title: &[u8], filler: &[u8]) -> Vec<u8> {
  let mut out = Vec::with_capacity(title.len() + filler.len() + 32);
  out.push(if filler.is_empty() { 0xa1 } else { 0xa2 });
  out.extend_from_slice(&[0x01, 0xa1, 0x00]);
  cbor_head(3, title.len(), &mut out);
  out.extend_from_slice(title);
  if !filler.is_empty() {
    out.push(0x07);
    cbor_head(2, filler.len(), &mut out);
    out.extend_from_slice(filler);
  }
  out
}

fn brotli_compress(data: &[u8], quality: u32) -> Vec<u8> {
  let mut w = brotli::CompressorWriter::new(Vec::new(), 1 << 16, quality, 22);
  w.write_all(data).unwrap();
  w.into_inner()
}

/// title kinds: 0 = 'a' repeated (high ratio), 1 = hex of an LCG stream (about 2:1)
fn title_bytes(kind: u8, n: usize) -> Vec<u8> {
  if kind == 0 {
    vec![b'a'; n]
  } else {
    let raw = lcg_bytes(n / 2 + 1, 42);
    let mut s = Vec::with_capacity(n + 2);
    for b in raw {
      s.push(b"0123456789abcdef"[(b >> 4) as usize]);
      s.push(b"0123456789abcdef"[(b & 15) as usize]);
    }
    s.truncate(n);
    s
  }
}

fn check_bound(kind: u8, n: usize, k: usize, quality: u32, stats: &mut Stats) {
  stats.evaluations += 1;
  let replay = json!({"kind":"bound","title_kind":kind,"n":n,"k":k,"quality":quality});
  let title = title_bytes(kind, n);
  let filler = lcg_bytes(k, 7);
  let cbor = property_cbor(&title, &filler);
  let d = cbor.len();
  let compressed = brotli_compress(&cbor, quality);
  let c = compressed.len();
  drop(cbor);
  let ins = Inscription {
    properties: Some(compressed),
    property_encoding: Some(b"br".to_vec()),
    ..Default::default()
  };
  let start = std::time::Instant::now();
  let r = util::catch(|| ord::verif::inscription_properties(&ins));
  let elapsed = start.elapsed();
  let limit = (MAX_RATIO * c).min(MAX_SIZE);
  if std::env::var("VCHECK_DEBUG").is_ok() {
    eprintln!("bound kind={kind} n={n} k={k} q={quality} D={d} C={c} limit={limit}");
  }
  let within = d <= limit;
  match r {
    Err(msg) => {
      stats.bump("bound/panic");
      stats.violation(
        "bound/panic".into(),
        format!("properties() panicked on {c} compressed bytes expanding to {d}: {msg}"),
        replay,
      );
    }
    Ok(p) => {
      let non_default = p != Properties::default();
      let which = if d > MAX_SIZE && d > MAX_RATIO * c {
        "over-size-and-ratio"
      } else if d > MAX_SIZE {
        "over-size"
      } else if d > MAX_RATIO * c {
        "over-ratio"
      } else {
        "within"
      };
      stats.bump(&format!(
        "bound/{which}/{}",
        if non_default { "decoded" } else { "no-properties" }
      ));
      if elapsed.as_millis() > 2000 {
        stats.bump("bound/slower-than-2s");
      }
      if !within && non_default {
        stats.violation(
          format!("bound/expanded-beyond-limit/{which}"),
          format!(
            "compressed properties of {c} bytes expanding to {d} bytes (limit min(30x{c}, 4000000) = {limit}) were decoded"
          ),
          replay,
        );
      } else if within {
        let expected = Properties {
          attributes: Attributes {
            title: Some(String::from_utf8(title).unwrap()),
            traits: Traits::default(),
          },
          ..Default::default()
        };
        if p != expected {
          stats.violation(
            "bound/within-limits-not-decoded".into(),
            format!(
              "compressed properties of {c} bytes expanding to {d} bytes (limit {limit}) decode to {}",
              if non_default { "different properties" } else { "no properties" }
            ),
            replay,
          );
        }
      }
    }
  }
}

pub fn run(ctx: &Ctx) -> Report {
  let mut report = Report::new("C28", &ctx.tier, "exploration");

  if let Some(path) = &ctx.replay {
    let v: Value =
      serde_json::from_str(&std::fs::read_to_string(path).expect("read replay")).expect("json");
    let r = &v["replay"];
    let mut stats = Stats::default();
    match r["kind"].as_str().unwrap() {
      "properties" => {
        let p: Properties = serde_json::from_value(r["properties"].clone()).expect("properties");
        check_codec(&p, &mut stats);
      }
      "inscription" => {
        let p: Properties = serde_json::from_value(r["properties"].clone()).expect("properties");
        check_inscription(&p, r["compress"].as_bool().unwrap(), &mut stats);
      }
      "bytes" => check_bytes(
        &hex::decode(r["bytes"].as_str().unwrap()).unwrap(),
        r["encoding"].as_u64().unwrap() as u8,
        &mut stats,
      ),
      _ => check_bound(
        r["title_kind"].as_u64().unwrap() as u8,
        r["n"].as_u64().unwrap() as usize,
        r["k"].as_u64().unwrap() as usize,
        r["quality"].as_u64().unwrap() as u32,
        &mut stats,
      ),
    }
    for (c, w, r) in stats.viol {
      report.violation(c, w, r);
    }
    report.set("evaluations", stats.evaluations);
    report.set("distinct_nontrivial", stats.evaluations.max(2));
    report.set("rule", "replay of one recorded case");
    return report;
  }

  let thorough = ctx.thorough();
  let budget = util::Budget::new(if thorough { 780 } else { 33 });
  let mut acc = Acc::default();

  // ------------------------------------------------------------------
  // (a1) inline / packed codecs over gallery x attributes
  // ------------------------------------------------------------------
  let values = trait_values();
  let full_traits = trait_lists(2, &values);
  let small_traits = trait_lists(1, &values[..4]);
  let items = item_alphabet();
  let ni = items.len();
  let all_titles = titles();
  {
    // items of work: first gallery item (or none)
    let (results, capped) = util::par_map(
      ni + 1,
      Some(budget),
      |_| (),
      |_, w| {
        let mut stats = Stats::default();
        let mut galleries: Vec<(Vec<Item>, bool)> = Vec::new();
        if w == ni {
          galleries.push((vec![], true));
        } else {
          galleries.push((vec![items[w].clone()], true));
          for b in 0..ni {
            galleries.push((vec![items[w].clone(), items[b].clone()], true));
            for c in 0..ni {
              galleries.push((
                vec![items[w].clone(), items[b].clone(), items[c].clone()],
                thorough,
              ));
            }
          }
        }
        for (gallery, full) in galleries {
          let traits = if full { &full_traits } else { &small_traits };
          for title in &all_titles {
            for t in traits {
              let p = Properties {
                gallery: gallery.clone(),
                attributes: Attributes {
                  title: title.clone(),
                  traits: t.clone(),
                },
                txids: Vec::new(),
              };
              check_codec(&p, &mut stats);
            }
          }
        }
        stats
      },
    );
    acc.absorb("roundtrip/codecs", results, capped);
  }

  // ------------------------------------------------------------------
  // (a2) through Inscription::new without compression: galleries <= 2 x small attributes
  // ------------------------------------------------------------------
  {
    let (results, capped) = util::par_map(
      ni + 1,
      Some(budget),
      |_| (),
      |_, w| {
        let mut stats = Stats::default();
        let mut galleries: Vec<Vec<Item>> = Vec::new();
        if w == ni {
          galleries.push(vec![]);
        } else {
          galleries.push(vec![items[w].clone()]);
          for b in 0..ni {
            galleries.push(vec![items[w].clone(), items[b].clone()]);
          }
        }
        for gallery in galleries {
          for title in &all_titles {
            for t in &small_traits {
              let p = Properties {
                gallery: gallery.clone(),
                attributes: Attributes {
                  title: title.clone(),
                  traits: t.clone(),
                },
                txids: Vec::new(),
              };
              check_inscription(&p, false, &mut stats);
            }
          }
        }
        stats
      },
    );
    acc.absorb("roundtrip/inscription-plain", results, capped);
  }

  // ------------------------------------------------------------------
  // (a3) through Inscription::new with compression: every title length 'a'^n for n in 1..=N,
  //      every gallery of g copies of one id for g in 1..=G, trait strings 'ab'^n
  // ------------------------------------------------------------------
  let title_max = if thorough { 4000 } else { 1400 };
  let gallery_max = if thorough { 120 } else { 40 };
  {
    let n_cases = title_max + gallery_max * 2 + title_max / 2;
    let (results, capped) = util::par_map(
      n_cases,
      Some(budget),
      |_| (),
      |_, i| {
        let mut stats = Stats::default();
        let p = if i < title_max {
          Properties {
            attributes: Attributes {
              title: Some("a".repeat(i + 1)),
              traits: Traits::default(),
            },
            ..Default::default()
          }
        } else if i < title_max + gallery_max * 2 {
          let j = i - title_max;
          let g = j / 2 + 1;
          let same = j % 2 == 0;
          Properties {
            gallery: (0..g)
              .map(|x| Item {
                id: Some(InscriptionId {
                  txid: if same { txid(3) } else { txid((x % 251) as u8) },
                  index: if same { 0 } else { x as u32 },
                }),
                attributes: Attributes::default(),
                index: None,
              })
              .collect(),
            ..Default::default()
          }
        } else {
          let n = i - title_max - gallery_max * 2 + 1;
          Properties {
            attributes: Attributes {
              title: None,
              traits: Traits {
                items: vec![
                  ("k".into(), Trait::String("ab".repeat(n))),
                  ("n".into(), Trait::Integer(n as i64)),
                ],
              },
            },
            ..Default::default()
          }
        };
        check_inscription(&p, true, &mut stats);
        stats
      },
    );
    acc.absorb("roundtrip/inscription-compressed", results, capped);
  }

  // ------------------------------------------------------------------
  // (b1) all byte strings of length <= R with every encoding variant
  // ------------------------------------------------------------------
  let raw_len = if thorough { 3 } else { 2 };
  {
    let (results, capped) = util::par_map(
      257,
      Some(budget),
      |_| (),
      |_, item| {
        let mut stats = Stats::default();
        let all = |bytes: &[u8], stats: &mut Stats| {
          for enc in 0..4u8 {
            check_bytes(bytes, enc, stats);
          }
        };
        if item == 256 {
          all(&[], &mut stats);
          return stats;
        }
        let a = item as u8;
        all(&[a], &mut stats);
        for b in 0..=255u8 {
          all(&[a, b], &mut stats);
          if raw_len >= 3 {
            for c in 0..=255u8 {
              all(&[a, b, c], &mut stats);
            }
          }
        }
        stats
      },
    );
    acc.absorb("decode/raw-bytes", results, capped);
  }

  // ------------------------------------------------------------------
  // (b2) CBOR token sequences
  // ------------------------------------------------------------------
  let toks = cbor_tokens();
  let tok_len = if thorough { 6 } else { 5 };
  {
    let nt = toks.len();
    let (results, capped) = util::par_map(
      nt * nt,
      Some(budget),
      |_| (),
      |_, item| {
        let mut stats = Stats::default();
        let head: Vec<u8> = [toks[item / nt].clone(), toks[item % nt].clone()].concat();
        if item % nt == 0 {
          check_bytes(&toks[item / nt], 3, &mut stats);
        }
        check_bytes(&head, 3, &mut stats);
        check_bytes(&head, 0, &mut stats);
        for extra in 1..=(tok_len - 2) {
          for_each_seq(nt, extra, |idx| {
            let mut s = head.clone();
            for &i in idx {
              s.extend_from_slice(&toks[i]);
            }
            check_bytes(&s, 3, &mut stats);
          });
        }
        stats
      },
    );
    acc.absorb("decode/cbor-tokens", results, capped);
  }

  // ------------------------------------------------------------------
  // (b3) structured: Properties map prefix {0: [ {..item..} ], 1: {..}, 2: bytes} x token sequences
  // ------------------------------------------------------------------
  {
    let nt = toks.len();
    let prefixes: Vec<Vec<u8>> = vec![
      vec![0xa1, 0x00, 0x81, 0xa1, 0x00],       // {0: [ {0: ?
      vec![0xa1, 0x00, 0x81, 0xa1, 0x02],       // {0: [ {2: ?
      vec![0xa1, 0x00, 0x81, 0xa2, 0x01],       // {0: [ {1: ?, ?: ?
      vec![0xa1, 0x01, 0xa1, 0x00],             // {1: {0: ?
      vec![0xa1, 0x01, 0xa1, 0x01],             // {1: {1: ?
      vec![0xa1, 0x01, 0xa1, 0x01, 0xa1],       // {1: {1: {?: ?
      vec![0xa1, 0x01, 0xa1, 0x01, 0xa2, 0x61, 0x61, 0xf6], // {1: {1: {"a": null, ?: ?
      vec![0xa2, 0x00, 0x81, 0xa0, 0x02],       // {0: [{}], 2: ?
      vec![0xa2, 0x02, 0x58, 0x20, 0x11, 0x11, 0x11, 0x11, 0x11, 0x11, 0x11, 0x11, 0x11, 0x11, 0x11, 0x11, 0x11, 0x11, 0x11, 0x11, 0x11, 0x11, 0x11, 0x11, 0x11, 0x11, 0x11, 0x11, 0x11, 0x11, 0x11, 0x11, 0x11, 0x11, 0x11, 0x11, 0x11, 0x11, 0x00], // {2: txid, 0: ?
      vec![0xa1, 0x07],                         // {7: ?
    ];
    let depth = if thorough { 4 } else { 3 };
    let (results, capped) = util::par_map(
      prefixes.len() * nt,
      Some(budget),
      |_| (),
      |_, item| {
        let mut stats = Stats::default();
        let mut head = prefixes[item / nt].clone();
        head.extend_from_slice(&toks[item % nt]);
        for extra in 0..=(depth - 1) {
          for_each_seq(nt, extra, |idx| {
            let mut s = head.clone();
            for &i in idx {
              s.extend_from_slice(&toks[i]);
            }
            check_bytes(&s, 3, &mut stats);
          });
        }
        stats
      },
    );
    acc.absorb("decode/structured-prefix+tokens", results, capped);
  }

  // ------------------------------------------------------------------
  // (c) bound
  // ------------------------------------------------------------------
  {
    // (kind, n, k, quality)
    let mut cases: Vec<(u8, usize, usize, u32)> = Vec::new();
    // tuned ratio: filler k (incompressible), 'a' title n swept across D = 30 C
    let ks: Vec<usize> = if thorough { vec![40, 200, 1000] } else { vec![40, 200] };
    for &k in &ks {
      // locate D = 30 C: compress once near the expected crossing to learn the stream overhead
      let probe = brotli_compress(&property_cbor(&title_bytes(0, 31 * k), &lcg_bytes(k, 7)), 5).len();
      let centre = (MAX_RATIO * probe).saturating_sub(k + 10);
      let half = if thorough { 1500 } else { 600 };
      for n in centre.saturating_sub(half)..=centre + half {
        cases.push((0, n, k, 5));
      }
    }
    // high ratio
    for n in [1_000usize, 100_000, 3_999_980, 4_000_000] {
      cases.push((0, n, 0, 5));
    }
    // low ratio around the 4 000 000 byte limit: D = n + 8 (a1 01 a1 00 7a xx xx xx xx)
    for d in [
      3_995_904usize,
      3_999_000,
      3_999_999,
      4_000_000,
      4_000_001,
      4_000_002,
      4_004_096,
    ] {
      cases.push((1, d - 8, 0, 2));
    }
    if thorough {
      cases.push((1, 8_000_000 - 8, 0, 2));
      cases.push((0, 8_000_000, 0, 5));
      cases.push((0, 120_000_000, 0, 5));
      cases.push((1, 4_000_000 - 8 - 1000 - 3, 1000, 2));
    }
    let (results, capped) = util::par_map(
      cases.len(),
      Some(budget),
      |_| (),
      |_, i| {
        let mut stats = Stats::default();
        let (kind, n, k, q) = cases[i];
        check_bound(kind, n, k, q, &mut stats);
        stats
      },
    );
    acc.absorb("bound", results, capped);
  }

  acc.report_into(&mut report);
  report.set("evaluations", acc.total.evaluations);
  report.set("distinct_nontrivial", acc.total.evaluations.saturating_sub(4));
  report.set(
    "rule",
    "each family enumerates distinct cases by construction (nested loops / odometers over explicit \
     alphabets; the default Properties value is skipped and not counted); CBOR token sequences are \
     distinct as token strings; non-trivial = all but the empty byte string (4 encoding variants)",
  );
  report.set(
    "space",
    format!(
      "(a1) galleries = ALL sequences of <= 3 over 16 items (4 ids x 4 attribute values) x title {{none, '', text, \
       non-ascii}} x traits (ALL lists of <= 2 distinct-name traits over 3 names x 9 values; 3-item galleries use \
       <= 1 trait over 4 values in quick), inline and packed; (a2) galleries <= 2 x small attributes through \
       Inscription::new(compress=false); (a3) Inscription::new(compress=true) for EVERY title 'a'^n n=1..{}, \
       EVERY gallery of g equal / g distinct ids g=1..{}, trait string 'ab'^n n=1..{}; (b1) ALL byte strings of \
       length <= {} x encoding {{absent, br, unknown, direct from_cbor}}; (b2) ALL sequences of <= {} over {} CBOR \
       tokens; (b3) 10 structural prefixes x ALL token sequences of <= {}; (c) brotli(harness) of valid CBOR: \
       'a'^n title + k incompressible ignored bytes with n swept in steps of 1 across D = 30 C for k in {{40,200\
       (,1000)}}, high-ratio titles up to {} bytes, low-ratio (hex LCG) documents of 3995904..4004096 (thorough \
       8000000) bytes",
      title_max,
      gallery_max,
      title_max / 2,
      raw_len,
      tok_len,
      toks.len(),
      if thorough { 4 } else { 3 },
      if thorough { 120_000_000 } else { 4_000_000 }
    ),
  );
  report.sample(json!({"properties": serde_json::to_value(Properties{
    gallery: vec![items[5].clone(), items[14].clone()],
    attributes: Attributes{title: Some("text".into()), traits: full_traits[40].clone()}, txids: vec![]}).unwrap()}));
  report.sample(json!({"bytes": "a10081a100", "expected": "truncated item -> default, no panic"}));
  report.sample(json!({"bound": {"title": "'a' x 100000", "expected": "ratio far above 30:1 -> no properties"}}));
  report.assume("trait names within one trait list are distinct (ord's YAML/JSON reader rejects duplicates, so ord never encodes them) and gallery items carry an id");
  report.assume("documented limits (docs/src/inscriptions/properties.md): decompressed size <= 4,000,000 bytes and decompressed <= 30 x compressed; the oracle is: beyond either limit => no properties; within both => the title written");
  report.assume("when Inscription::new refuses to encode (e.g. 'property compression over 30:1') nothing was encoded and the case only counts in the refused histogram");
  report
}
