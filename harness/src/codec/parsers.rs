//! C31: text parsers are total and never accept by overflow.
//!
//! For every (parser, string) of the enumerated space:
//!   * the call must not panic;
//!   * if the string belongs to the *reference grammar* of that parser (written
//!     below from the documentation: docs/src/overview.md for sat notations,
//!     docs/src/runes/specification.md for rune names/ids, the satpoint /
//!     inscription-id doc comments) the reference computes, with decimal-string
//!     arithmetic, what the string denotes:
//!       - `Exact(v)`: if ord accepts, the value must be v;
//!       - `Reject(reason)`: the string denotes nothing representable (component
//!         overflow, out of range, non-finite percentile): ord must not accept;
//!   * strings outside the reference grammar are only required not to panic
//!     (acceptances there are counted and sampled, never reported).
//! Rejecting a string the reference considers valid is never reported (the
//! property only constrains acceptances); it is counted for visibility.

use {
  super::{
    amounts,
    big::{Nat, bijective26},
    runename::ref_decode,
    satnum::{ref_start, ref_subsidy, ref_supply},
  },
  crate::{Ctx, evidence::Report, util},
  ord::{InscriptionId, Object, decimal::Decimal, outgoing::Outgoing, verif_b},
  ordinals::{Rune, RuneId, Sat, SatPoint, SpacedRune},
  serde_json::{Value, json},
  std::{
    cell::RefCell,
    collections::{BTreeMap, BTreeSet},
  },
};

type Viol = (String, String, Value);

#[derive(Clone, Debug, PartialEq)]
pub enum Val {
  Sat(u64),
  Rune(u128),
  Spaced(u128, u32),
  RuneId(u64, u32),
  Decimal(u128, u8),
  SatPoint(String, u32, u64),
  InscriptionId(String, u32),
  Amount(u64),
  RuneAmount { value: u128, scale: u8, rune: u128, spacers: u32 },
  Integer(u128),
  Hash(String),
  OutPoint(String, u32),
  Height(u32),
  Number(i128),
  Other(String),
}

pub enum Expect {
  Outside,
  Reject(&'static str),
  Exact(Val),
  /// percentile: mantissa digits, number of fraction digits, decimal exponent
  Percentile { mant: Nat, frac_len: usize, exp10: i64 },
  DecimalIs { digits: Nat, frac_len: usize },
  RuneAmountIs { digits: Nat, frac_len: usize, rune: u128, spacers: u32 },
}

pub const PARSERS: [&str; 12] = [
  "sat",
  "rune",
  "spaced-rune",
  "rune-id",
  "decimal",
  "satpoint",
  "inscription-id",
  "outgoing",
  "object",
  "query-block",
  "query-inscription",
  "query-rune",
];

// ---------------------------------------------------------------------------
// calling ord
// ---------------------------------------------------------------------------

fn val_satpoint(sp: &SatPoint) -> Val {
  Val::SatPoint(sp.outpoint.txid.to_string(), sp.outpoint.vout, sp.offset)
}

fn val_iid(id: &InscriptionId) -> Val {
  Val::InscriptionId(id.txid.to_string(), id.index)
}

fn hook_val(s: &str) -> Val {
  // the hook prints `<kind>:<payload>`
  let (kind, rest) = s.split_once(':').unwrap_or(("?", s));
  match kind {
    "height" => Val::Height(rest.parse().expect("hook height")),
    "hash" => Val::Hash(rest.to_string()),
    "number" => Val::Number(rest.parse().expect("hook number")),
    "sat" => Val::Sat(rest.parse().expect("hook sat")),
    "spaced" => {
      let (r, sp) = rest.split_once(':').expect("hook spaced");
      Val::Spaced(r.parse().unwrap(), sp.parse().unwrap())
    }
    "id" => {
      if let Some((b, t)) = rest.split_once(':') {
        Val::RuneId(b.parse().unwrap(), t.parse().unwrap())
      } else {
        let (txid, index) = rest.split_at(64);
        Val::InscriptionId(txid.to_string(), index[1..].parse().unwrap())
      }
    }
    _ => Val::Other(s.to_string()),
  }
}

/// Calls parser number `p` of PARSERS on `s`; Err(e) = ord's error rendered.
fn call(p: usize, s: &str) -> Result<Val, String> {
  match p {
    0 => s.parse::<Sat>().map(|v| Val::Sat(v.n())).map_err(|e| e_kind(&e.to_string())),
    1 => s.parse::<Rune>().map(|v| Val::Rune(v.0)).map_err(|e| format!("{e:?}")),
    2 => s
      .parse::<SpacedRune>()
      .map(|v| Val::Spaced(v.rune.0, v.spacers))
      .map_err(|e| format!("{e:?}")),
    3 => s
      .parse::<RuneId>()
      .map(|v| Val::RuneId(v.block, v.tx))
      .map_err(|e| format!("{e:?}")),
    4 => s
      .parse::<Decimal>()
      .map(|v| Val::Decimal(v.value, v.scale))
      .map_err(|e| e.to_string()),
    5 => s.parse::<SatPoint>().map(|v| val_satpoint(&v)).map_err(|e| e.to_string()),
    6 => s.parse::<InscriptionId>().map(|v| val_iid(&v)).map_err(|e| format!("{e:?}")),
    7 => s
      .parse::<Outgoing>()
      .map(|v| match v {
        Outgoing::Amount(a) => Val::Amount(a.to_sat()),
        Outgoing::InscriptionId(id) => val_iid(&id),
        Outgoing::Rune { decimal, rune } => Val::RuneAmount {
          value: decimal.value,
          scale: decimal.scale,
          rune: rune.rune.0,
          spacers: rune.spacers,
        },
        Outgoing::Sat(sat) => Val::Sat(sat.n()),
        Outgoing::SatPoint(sp) => val_satpoint(&sp),
      })
      .map_err(|e| e.to_string()),
    8 => s
      .parse::<Object>()
      .map(|v| match v {
        Object::Address(a) => Val::Other(format!("address:{a:?}")),
        Object::Hash(h) => Val::Hash(util::hex(&h)),
        Object::InscriptionId(id) => val_iid(&id),
        Object::Integer(n) => Val::Integer(n),
        Object::OutPoint(o) => Val::OutPoint(o.txid.to_string(), o.vout),
        Object::Rune(r) => Val::Spaced(r.rune.0, r.spacers),
        Object::Sat(sat) => Val::Sat(sat.n()),
        Object::SatPoint(sp) => val_satpoint(&sp),
      })
      .map_err(|e| e.to_string()),
    9 => verif_b::query_block(s).map(|v| hook_val(&v)),
    10 => verif_b::query_inscription(s).map(|v| hook_val(&v)),
    11 => verif_b::query_rune(s).map(|v| hook_val(&v)),
    _ => unreachable!(),
  }
}

/// Error histogram key: the error text with the echoed input removed.
fn e_kind(msg: &str) -> String {
  // "failed to parse sat `…`: <kind>"
  match msg.rsplit_once("`: ") {
    Some((_, k)) => k.chars().take(40).collect(),
    None => msg.chars().take(40).collect(),
  }
}

fn err_bucket(e: &str) -> String {
  // collapse echoed inputs / numbers so that the histogram stays small
  let mut out = String::new();
  let mut in_tick = false;
  for c in e.chars() {
    if c == '`' {
      in_tick = !in_tick;
      if in_tick {
        out.push_str("`…`");
      }
      continue;
    }
    if in_tick {
      continue;
    }
    if c.is_ascii_digit() {
      if !out.ends_with('#') {
        out.push('#');
      }
      continue;
    }
    out.push(c);
    if out.len() > 60 {
      break;
    }
  }
  out
}

// ---------------------------------------------------------------------------
// lexical helpers
// ---------------------------------------------------------------------------

fn digits(s: &str) -> bool {
  !s.is_empty() && s.bytes().all(|b| b.is_ascii_digit())
}

fn hex64(s: &str) -> bool {
  s.len() == 64 && s.bytes().all(|b| b.is_ascii_hexdigit())
}

fn nat(s: &str) -> Nat {
  Nat::parse(s).expect("digits")
}

// ---------------------------------------------------------------------------
// reference grammars
// ---------------------------------------------------------------------------

/// Which sat notation ord's dispatcher (and the documentation) assigns.
fn sat_notation(s: &str) -> &'static str {
  if s.chars().any(|c| c.is_ascii_lowercase()) {
    "sat-name"
  } else if s.contains('°') {
    "sat-degree"
  } else if s.contains('%') {
    "sat-percentile"
  } else if s.contains('.') {
    "sat-decimal"
  } else {
    "sat-integer"
  }
}

struct DegreeParts<'a> {
  a: &'a str,
  b: &'a str,
  c: &'a str,
  d: Option<&'a str>,
}

fn degree_parts(s: &str) -> Option<DegreeParts<'_>> {
  let (a, rest) = s.split_once('°')?;
  let (b, rest) = rest.split_once('′')?;
  let (c, rest) = rest.split_once('″')?;
  let d = if rest.is_empty() {
    None
  } else {
    let d = rest.strip_suffix('‴')?;
    Some(d)
  };
  if !digits(a) || !digits(b) || !digits(c) || !d.map(digits).unwrap_or(true) {
    return None;
  }
  Some(DegreeParts { a, b, c, d })
}

fn ref_sat_degree(s: &str) -> Expect {
  let Some(p) = degree_parts(s) else {
    return Expect::Outside;
  };
  let no = Expect::Reject("degree-denotes-no-sat");
  let (Some(a), Some(b), Some(c)) = (nat(p.a).to_u64(), nat(p.b).to_u64(), nat(p.c).to_u64()) else {
    return no;
  };
  let d = match p.d {
    None => 0,
    Some(d) => match nat(d).to_u64() {
      Some(d) => d,
      None => return no,
    },
  };
  if a > 5 || b >= 210_000 || c >= 2016 {
    return no;
  }
  for k in 0..6u64 {
    let h = (a * 6 + k) * 210_000 + b;
    if h % 2016 == c {
      if d < ref_subsidy(h) {
        return Expect::Exact(Val::Sat(ref_start(h) + d));
      }
      return no;
    }
  }
  no
}

fn ref_sat_decimal(s: &str) -> Expect {
  let Some((h, o)) = s.split_once('.') else {
    return Expect::Outside;
  };
  if !digits(h) || !digits(o) {
    return Expect::Outside;
  }
  let no = Expect::Reject("decimal-denotes-no-sat");
  let (Some(h), Some(o)) = (nat(h).to_u64(), nat(o).to_u64()) else {
    return no;
  };
  if h >= 6_930_000 || o >= ref_subsidy(h) {
    return no;
  }
  Expect::Exact(Val::Sat(ref_start(h) + o))
}

fn ref_sat_percentile(s: &str) -> Expect {
  let Some(body) = s.strip_suffix('%') else {
    return Expect::Outside;
  };
  // non-finite spellings accepted by Rust's float parser (any letter case)
  let unsigned = body.strip_prefix(['+', '-']).unwrap_or(body);
  let upper = unsigned.to_ascii_uppercase();
  if upper == "NAN" || upper == "INF" || upper == "INFINITY" {
    return Expect::Reject("non-finite-percentile");
  }
  // digits [ . digits ] [ E [+-] digits ]
  let (mant, exp) = match body.split_once(['E', 'e']) {
    Some((m, e)) => (m, Some(e)),
    None => (body, None),
  };
  let (i, f) = match mant.split_once('.') {
    Some((i, f)) => (i, f),
    None => (mant, ""),
  };
  if !digits(i) || (mant.contains('.') && !digits(f)) {
    return Expect::Outside;
  }
  let exp10: i64 = match exp {
    None => 0,
    Some(e) => {
      let (neg, ds) = match e.strip_prefix('-') {
        Some(ds) => (true, ds),
        None => (false, e.strip_prefix('+').unwrap_or(e)),
      };
      if !digits(ds) || ds.len() > 5 {
        return Expect::Outside;
      }
      let v: i64 = ds.parse().unwrap();
      if neg { -v } else { v }
    }
  };
  Expect::Percentile {
    mant: nat(&format!("{i}{f}")),
    frac_len: f.len(),
    exp10,
  }
}

/// |v - mant * 10^(exp10 - frac_len) * LAST / 100| <= 2 and v <= LAST.
fn percentile_matches(v: u64, mant: &Nat, frac_len: usize, exp10: i64) -> bool {
  let last = ref_supply() - 1;
  if v > last {
    return false;
  }
  let num = mant.mul_u128(last as u128);
  let t = exp10 - frac_len as i64 - 2; // x = num * 10^t
  let vv = Nat::from_u128(v as u128);
  let two = Nat::from_u128(2);
  if t >= 0 {
    vv.abs_diff(&num.shl10(t as usize)).le(&two)
  } else {
    let k = (-t) as usize;
    vv.shl10(k).abs_diff(&num).le(&two.shl10(k))
  }
}

fn ref_sat_name(s: &str) -> Expect {
  match bijective26(s, b'a') {
    Some(x) if !s.is_empty() => {
      let supply = Nat::from_u128(ref_supply() as u128);
      if x.le(&supply) {
        Expect::Exact(Val::Sat(ref_supply() - x.to_u64().unwrap()))
      } else {
        Expect::Reject("name-beyond-supply")
      }
    }
    _ => Expect::Outside,
  }
}

fn ref_sat(s: &str) -> Expect {
  match sat_notation(s) {
    "sat-name" => ref_sat_name(s),
    "sat-degree" => ref_sat_degree(s),
    "sat-percentile" => ref_sat_percentile(s),
    "sat-decimal" => ref_sat_decimal(s),
    _ => {
      if !digits(s) {
        return Expect::Outside;
      }
      match nat(s).to_u64() {
        Some(n) if n < ref_supply() => Expect::Exact(Val::Sat(n)),
        _ => Expect::Reject("integer-beyond-supply"),
      }
    }
  }
}

fn ref_rune(s: &str) -> Expect {
  match ref_decode(s) {
    Err(()) => Expect::Outside,
    Ok(Some(v)) => Expect::Exact(Val::Rune(v)),
    Ok(None) => Expect::Reject("name-exceeds-u128"),
  }
}

/// LETTER ( [•.]? LETTER )*
fn ref_spaced_parts(s: &str) -> Option<(String, Vec<usize>)> {
  let mut letters = String::new();
  let mut spacer_after: Vec<usize> = Vec::new();
  let mut prev_spacer = true; // forbids a leading spacer
  for c in s.chars() {
    match c {
      'A'..='Z' => {
        letters.push(c);
        prev_spacer = false;
      }
      '•' | '.' => {
        if prev_spacer {
          return None;
        }
        spacer_after.push(letters.len() - 1);
        prev_spacer = true;
      }
      _ => return None,
    }
  }
  if letters.is_empty() || prev_spacer {
    return None;
  }
  Some((letters, spacer_after))
}

fn ref_spaced(s: &str) -> Expect {
  let Some((letters, sp)) = ref_spaced_parts(s) else {
    return Expect::Outside;
  };
  match ref_decode(&letters) {
    Ok(Some(v)) => {
      // at most 28 letters here, so every spacer index is < 27
      let mut bits = 0u32;
      for i in sp {
        bits |= 1 << i;
      }
      Expect::Exact(Val::Spaced(v, bits))
    }
    _ => Expect::Reject("name-exceeds-u128"),
  }
}

fn ref_rune_id(s: &str) -> Expect {
  let Some((b, t)) = s.split_once(':') else {
    return Expect::Outside;
  };
  if !digits(b) || !digits(t) {
    return Expect::Outside;
  }
  match (nat(b).to_u64(), nat(t).to_u32()) {
    (Some(b), Some(t)) => Expect::Exact(Val::RuneId(b, t)),
    _ => Expect::Reject("component-overflow"),
  }
}

fn ref_decimal(s: &str) -> Expect {
  let Some((digits, frac_len)) = amounts::ref_decimal(s) else {
    return Expect::Outside;
  };
  // representable as value * 10^-scale with value: u128, scale: u8 ?
  let tz = digits.trailing_zeros10().min(frac_len);
  let min_scale = if digits.is_zero() { 0 } else { frac_len - tz };
  let value = if digits.is_zero() {
    Some(0)
  } else {
    digits.shr10_exact(tz).unwrap().to_u128()
  };
  if min_scale > 255 || value.is_none() {
    return Expect::Reject("not-representable");
  }
  Expect::DecimalIs { digits, frac_len }
}

fn ref_satpoint(s: &str) -> Expect {
  let mut it = s.split(':');
  let (Some(txid), Some(vout), Some(off), None) = (it.next(), it.next(), it.next(), it.next()) else {
    return Expect::Outside;
  };
  if !hex64(txid) || !digits(vout) || !digits(off) {
    return Expect::Outside;
  }
  match (nat(vout).to_u32(), nat(off).to_u64()) {
    (Some(v), Some(o)) => Expect::Exact(Val::SatPoint(txid.to_ascii_lowercase(), v, o)),
    _ => Expect::Reject("component-overflow"),
  }
}

fn ref_outpoint(s: &str) -> Expect {
  let Some((txid, vout)) = s.split_once(':') else {
    return Expect::Outside;
  };
  if !hex64(txid) || !digits(vout) {
    return Expect::Outside;
  }
  match nat(vout).to_u32() {
    Some(v) => Expect::Exact(Val::OutPoint(txid.to_ascii_lowercase(), v)),
    None => Expect::Reject("component-overflow"),
  }
}

fn ref_inscription_id(s: &str) -> Expect {
  if !s.is_ascii() || s.len() < 66 {
    return Expect::Outside;
  }
  let (txid, rest) = s.split_at(64);
  let Some(index) = rest.strip_prefix('i') else {
    return Expect::Outside;
  };
  if !hex64(txid) || !digits(index) {
    return Expect::Outside;
  }
  match nat(index).to_u32() {
    Some(i) => Expect::Exact(Val::InscriptionId(txid.to_ascii_lowercase(), i)),
    None => Expect::Reject("index-overflow"),
  }
}

/// digits | .digits | digits.digits
fn amount_number(s: &str) -> bool {
  match s.split_once('.') {
    None => digits(s),
    Some((i, f)) => (i.is_empty() || digits(i)) && digits(f),
  }
}

const UNITS: [(&str, i32); 10] = [
  // power of ten of one unit in satoshis
  ("btc", 8),
  ("cbtc", 6),
  ("mbtc", 5),
  ("ubtc", 2),
  ("bit", 2),
  ("nbtc", -1),
  ("pbtc", -4),
  ("satoshi", 0),
  ("sat", 0),
  ("msat", -3),
];

fn ref_amount(s: &str) -> Expect {
  // <number> [space] <unit> [s]
  let end_num = s.find(|c: char| !(c.is_ascii_digit() || c == '.')).unwrap_or(s.len());
  let (num, rest) = s.split_at(end_num);
  if !amount_number(num) {
    return Expect::Outside;
  }
  let rest = rest.strip_prefix(' ').unwrap_or(rest);
  let Some(&(_, pow)) = UNITS
    .iter()
    .find(|(u, _)| rest == *u || rest.strip_suffix('s') == Some(*u))
  else {
    return Expect::Outside;
  };
  let (dg, frac_len) = amounts::ref_decimal(num).expect("amount number");
  // sats = dg * 10^(pow - frac_len)
  let e = pow as i64 - frac_len as i64;
  let sats = if e >= 0 {
    Some(dg.shl10(e as usize))
  } else {
    dg.shr10_exact((-e) as usize)
  };
  match sats.and_then(|n| n.to_u64()) {
    Some(v) => Expect::Exact(Val::Amount(v)),
    None => Expect::Reject("amount-not-representable"),
  }
}

fn ref_outgoing(s: &str) -> Expect {
  if (1..=11).contains(&s.len()) && s.bytes().all(|b| b.is_ascii_lowercase()) {
    return ref_sat_name(s);
  }
  if let e @ (Expect::Exact(_) | Expect::Reject(_)) = ref_satpoint(s) {
    return e;
  }
  if let e @ (Expect::Exact(_) | Expect::Reject(_)) = ref_inscription_id(s) {
    return e;
  }
  if let e @ (Expect::Exact(_) | Expect::Reject(_)) = ref_amount(s) {
    return e;
  }
  // <number> *:* <spaced rune>
  if let Some((num, rune)) = s.split_once(':') {
    let num = num.trim_end_matches(' ');
    let rune = rune.trim_start_matches(' ');
    if amount_number(num) {
      let r = ref_spaced(rune);
      let d = ref_decimal(num);
      return match (d, r) {
        (Expect::DecimalIs { digits, frac_len }, Expect::Exact(Val::Spaced(rune, spacers))) => {
          Expect::RuneAmountIs { digits, frac_len, rune, spacers }
        }
        (Expect::Reject(r), Expect::Exact(_) | Expect::Reject(_)) => Expect::Reject(r),
        (Expect::DecimalIs { .. }, Expect::Reject(r)) => Expect::Reject(r),
        _ => Expect::Outside,
      };
    }
  }
  Expect::Outside
}

fn ref_object(s: &str) -> Expect {
  if digits(s) {
    if s.len() == 64 {
      return Expect::Outside; // also a hash: ambiguous
    }
    return match nat(s).to_u128() {
      Some(n) => Expect::Exact(Val::Integer(n)),
      None => Expect::Reject("integer-overflow"),
    };
  }
  if hex64(s) {
    return Expect::Exact(Val::Hash(s.to_ascii_lowercase()));
  }
  if let e @ (Expect::Exact(_) | Expect::Reject(_)) = ref_inscription_id(s) {
    return e;
  }
  if let e @ (Expect::Exact(_) | Expect::Reject(_)) = ref_outpoint(s) {
    return e;
  }
  if let e @ (Expect::Exact(_) | Expect::Reject(_)) = ref_satpoint(s) {
    return e;
  }
  if s.starts_with("bc1")
    || s.starts_with("BC1")
    || s.starts_with("tb1")
    || s.starts_with("TB1")
    || s.starts_with("bcrt1")
    || s.starts_with("BCRT1")
  {
    return Expect::Outside; // addresses: totality only
  }
  if !s.contains('.') && !s.is_empty() && s.chars().all(|c| c.is_ascii_uppercase() || c == '•') {
    return ref_spaced(s);
  }
  // sat notations other than integer
  match sat_notation(s) {
    "sat-integer" => Expect::Outside,
    _ => ref_sat(s),
  }
}

fn ref_query_block(s: &str) -> Expect {
  if s.len() == 64 {
    if hex64(s) && !digits(s) {
      return Expect::Exact(Val::Hash(s.to_ascii_lowercase()));
    }
    return Expect::Outside;
  }
  if !digits(s) {
    return Expect::Outside;
  }
  match nat(s).to_u32() {
    Some(h) => Expect::Exact(Val::Height(h)),
    None => Expect::Reject("height-overflow"),
  }
}

fn ref_query_inscription(s: &str) -> Expect {
  if let e @ (Expect::Exact(_) | Expect::Reject(_)) = ref_inscription_id(s) {
    return e;
  }
  let (neg, ds) = match s.strip_prefix('-') {
    Some(ds) => (true, ds),
    None => (false, s),
  };
  if digits(ds) {
    let limit = if neg { 1u128 << 31 } else { (1u128 << 31) - 1 };
    return match nat(ds).to_u128() {
      Some(n) if n <= limit => Expect::Exact(Val::Number(if neg { -(n as i128) } else { n as i128 })),
      _ => Expect::Reject("number-overflow"),
    };
  }
  if (1..=11).contains(&s.len()) && s.bytes().all(|b| b.is_ascii_lowercase()) {
    return ref_sat_name(s);
  }
  Expect::Outside
}

fn ref_query_rune(s: &str) -> Expect {
  if s.contains(':') {
    return ref_rune_id(s);
  }
  if digits(s) {
    return match nat(s).to_u64() {
      Some(n) => Expect::Exact(Val::Number(n as i128)),
      None => Expect::Reject("number-overflow"),
    };
  }
  ref_spaced(s)
}

fn expect(p: usize, s: &str) -> Expect {
  match p {
    0 => ref_sat(s),
    1 => ref_rune(s),
    2 => ref_spaced(s),
    3 => ref_rune_id(s),
    4 => ref_decimal(s),
    5 => ref_satpoint(s),
    6 => ref_inscription_id(s),
    7 => ref_outgoing(s),
    8 => ref_object(s),
    9 => ref_query_block(s),
    10 => ref_query_inscription(s),
    11 => ref_query_rune(s),
    _ => unreachable!(),
  }
}

fn matches(e: &Expect, v: &Val) -> bool {
  match (e, v) {
    (Expect::Exact(x), v) => x == v,
    (Expect::Percentile { mant, frac_len, exp10 }, Val::Sat(n)) => {
      percentile_matches(*n, mant, *frac_len, *exp10)
    }
    (Expect::DecimalIs { digits, frac_len }, Val::Decimal(value, scale)) => {
      amounts::decimal_denotes(*value, *scale, digits, *frac_len)
    }
    (
      Expect::RuneAmountIs { digits, frac_len, rune, spacers },
      Val::RuneAmount { value, scale, rune: r, spacers: sp },
    ) => amounts::decimal_denotes(*value, *scale, digits, *frac_len) && r == rune && sp == spacers,
    _ => false,
  }
}

// ---------------------------------------------------------------------------
// panic classification (structural, from the input; the message selects the
// arithmetic kind)
// ---------------------------------------------------------------------------

thread_local! {
  static LAST_PANIC_AT: RefCell<String> = const { RefCell::new(String::new()) };
}

fn install_location_hook() {
  std::panic::set_hook(Box::new(|info| {
    let at = info
      .location()
      .map(|l| {
        let f = l.file();
        let f = f.rsplit_once("/src/").map(|(_, t)| t).unwrap_or(f);
        format!("{f}:{}", l.line())
      })
      .unwrap_or_default();
    LAST_PANIC_AT.with(|c| *c.borrow_mut() = at);
  }));
}

fn msg_kind(msg: &str) -> &'static str {
  if msg.contains("multiply with overflow") {
    "mul-overflow"
  } else if msg.contains("add with overflow") {
    "add-overflow"
  } else if msg.contains("subtract with overflow") {
    "sub-overflow"
  } else if msg.contains("shift left with overflow") {
    "shift-overflow"
  } else if msg.contains("unwrap()") {
    "unwrap"
  } else if msg.contains("byte index") || msg.contains("char boundary") {
    "slice"
  } else {
    "other"
  }
}

fn degree_site(s: &str) -> &'static str {
  let Some(p) = degree_parts(s) else {
    return "unstructured";
  };
  let (Some(a), Some(b), Some(c)) = (nat(p.a).to_u64(), nat(p.b).to_u64(), nat(p.c).to_u64()) else {
    return "unstructured";
  };
  let max = u32::MAX as u64;
  if a.saturating_mul(6) > max {
    return "cycle-mul";
  }
  let rel = c + 1_260_000 - b.min(1_260_000);
  let k = rel % 2016 / 336;
  let epoch = a * 6 + k;
  if epoch > max {
    return "epoch-add";
  }
  if epoch * 210_000 > max {
    return "height-mul";
  }
  if epoch * 210_000 + b > max {
    return "height-add";
  }
  "other"
}

fn decimal_site(num: &str, kind: &'static str) -> String {
  let f = num.split_once('.').map(|(_, f)| f).unwrap_or("");
  let tz = f.bytes().rev().take_while(|b| *b == b'0').count();
  let sig = f.len() - tz;
  if sig >= 256 {
    "scale-u8-unwrap-panic".into()
  } else if sig >= 39 && kind == "mul-overflow" {
    "pow-overflow-panic".into()
  } else {
    format!("{kind}-panic")
  }
}

fn panic_class(p: usize, s: &str, msg: &str) -> String {
  let kind = msg_kind(msg);
  let sat_class = |s: &str| {
    let notation = sat_notation(s);
    if notation == "sat-degree" && (kind == "mul-overflow" || kind == "add-overflow") {
      format!("parse/sat-degree/u32-overflow-panic/{}", degree_site(s))
    } else {
      format!("parse/{notation}/{kind}-panic")
    }
  };
  match PARSERS[p] {
    "sat" => sat_class(s),
    "decimal" => format!("parse/decimal/{}", decimal_site(s, kind)),
    "spaced-rune" => format!("parse/spaced-rune/{kind}-panic"),
    "outgoing" => {
      if let Some((num, _)) = s.split_once(':')
        && amount_number(num.trim_end())
      {
        if kind == "shift-overflow" {
          format!("parse/outgoing/spaced-rune/{kind}-panic")
        } else {
          format!("parse/outgoing/decimal/{}", decimal_site(num.trim_end(), kind))
        }
      } else {
        format!("parse/outgoing/{kind}-panic")
      }
    }
    "object" => {
      if kind == "shift-overflow" {
        format!("parse/object/spaced-rune/{kind}-panic")
      } else {
        format!("parse/object/{}", sat_class(s).trim_start_matches("parse/"))
      }
    }
    "query-rune" if kind == "shift-overflow" => format!("parse/query-rune/spaced-rune/{kind}-panic"),
    other => format!("parse/{other}/{kind}-panic"),
  }
}

/// Class prefix of an acceptance defect: the parser, and for parsers that
/// delegate, the sub-grammar the input belongs to.
fn class_prefix(p: usize, s: &str) -> String {
  let lower_name = !s.is_empty() && s.bytes().all(|b| b.is_ascii_lowercase());
  let spaced_like = !s.is_empty() && s.chars().all(|c| c.is_ascii_uppercase() || c == '•' || c == '.');
  match PARSERS[p] {
    "sat" => sat_notation(s).to_string(),
    "object" => {
      if spaced_like && !s.contains('.') {
        "object/spaced-rune".into()
      } else if digits(s) || hex64(s) || s.contains(':') || (s.is_ascii() && s.len() > 64) {
        "object".into()
      } else {
        format!("object/{}", sat_notation(s))
      }
    }
    "outgoing" => {
      if lower_name {
        "outgoing/sat-name".into()
      } else if let Some((num, _)) = s.split_once(':')
        && amount_number(num.trim_end())
      {
        "outgoing/rune-amount".into()
      } else {
        "outgoing".into()
      }
    }
    "query-inscription" if lower_name => "query-inscription/sat-name".into(),
    "query-rune" if spaced_like => "query-rune/spaced-rune".into(),
    other => other.to_string(),
  }
}

// ---------------------------------------------------------------------------
// one evaluation
// ---------------------------------------------------------------------------

#[derive(Default)]
struct Stats {
  evaluations: u64,
  per_parser: BTreeMap<String, BTreeMap<String, u64>>,
  outside_accepted_samples: BTreeMap<String, Vec<String>>,
  valid_rejected_samples: BTreeMap<String, Vec<String>>,
}

impl Stats {
  fn bump(&mut self, p: usize, key: &str) {
    *self
      .per_parser
      .entry(PARSERS[p].into())
      .or_default()
      .entry(key.into())
      .or_default() += 1;
  }
  fn merge(&mut self, o: Stats) {
    self.evaluations += o.evaluations;
    for (p, m) in o.per_parser {
      let e = self.per_parser.entry(p).or_default();
      for (k, n) in m {
        *e.entry(k).or_default() += n;
      }
    }
    for (p, v) in o.outside_accepted_samples {
      let e = self.outside_accepted_samples.entry(p).or_default();
      for s in v {
        if e.len() < 6 && !e.contains(&s) {
          e.push(s);
        }
      }
    }
    for (p, v) in o.valid_rejected_samples {
      let e = self.valid_rejected_samples.entry(p).or_default();
      for s in v {
        if e.len() < 6 && !e.contains(&s) {
          e.push(s);
        }
      }
    }
  }
}

fn short(s: &str) -> String {
  if s.chars().count() > 80 {
    let head: String = s.chars().take(50).collect();
    let tail: String = s.chars().rev().take(20).collect::<Vec<_>>().into_iter().rev().collect();
    format!("{head}…{tail} ({} chars)", s.chars().count())
  } else {
    s.to_string()
  }
}

fn check(p: usize, s: &str, stats: &mut Stats, viol: &mut Vec<Viol>) {
  stats.evaluations += 1;
  let replay = json!({"parser": PARSERS[p], "input": s});
  let got = util::catch(|| call(p, s));
  let exp = expect(p, s);
  match got {
    Err(msg) => {
      let at = LAST_PANIC_AT.with(|c| c.borrow().clone());
      stats.bump(p, "panic");
      let class = panic_class(p, s, &msg);
      if viol.iter().filter(|v| v.0 == class).count() < 2 {
        viol.push((
          class,
          format!("{} parser panicked on `{}`: {msg} [{at}]", PARSERS[p], short(s)),
          replay,
        ));
      }
    }
    Ok(Ok(v)) => match &exp {
      Expect::Outside => {
        stats.bump(p, "accepted/outside-reference-grammar");
        let e = stats.outside_accepted_samples.entry(PARSERS[p].into()).or_default();
        if e.len() < 6 {
          e.push(format!("{} -> {v:?}", short(s)));
        }
      }
      Expect::Reject(reason) => {
        stats.bump(p, "accepted/UNDENOTED");
        let pname = class_prefix(p, s);
        let reason = if *reason == "non-finite-percentile" { "nan-accepted".to_string() } else { format!("{reason}-accepted") };
        viol.push((
          format!("parse/{pname}/{reason}"),
          format!(
            "{} parser accepts `{}` as {v:?}, but the string denotes nothing representable ({reason})",
            PARSERS[p],
            short(s)
          ),
          replay,
        ));
      }
      e => {
        if matches(e, &v) {
          stats.bump(p, "accepted/denotes-returned-value");
        } else {
          stats.bump(p, "accepted/WRONG-VALUE");
          let pname = class_prefix(p, s);
          viol.push((
            format!("parse/{pname}/wrong-value"),
            format!(
              "{} parser accepts `{}` as {v:?}, which is not what the string denotes{}",
              PARSERS[p],
              short(s),
              match e {
                Expect::Exact(x) => format!(" ({x:?})"),
                _ => String::new(),
              }
            ),
            replay,
          ));
        }
      }
    },
    Ok(Err(e)) => {
      stats.bump(p, &format!("err/{}", err_bucket(&e)));
      if !matches!(exp, Expect::Outside | Expect::Reject(_)) {
        stats.bump(p, "rejected/valid-by-reference");
        let v = stats.valid_rejected_samples.entry(PARSERS[p].into()).or_default();
        if v.len() < 6 {
          v.push(format!("{} -> {e}", short(s)));
        }
      }
    }
  }
}

// ---------------------------------------------------------------------------
// enumeration
// ---------------------------------------------------------------------------

pub const ALPHABET: [char; 40] = [
  '0', '1', '2', '9', 'a', 'z', 'A', 'Z', 'B', '.', '•', ':', 'i', '°', '′', '″', '‴', '%', '+', '-',
  'e', 'E', 'N', 'n', 'f', 'I', 'F', ' ', 'é', '_', 'x', '٣', '\n', 'b', 't', 'c', 's', '/', '¤', '\u{A0}',
];

fn numerals() -> Vec<String> {
  let mut v: Vec<String> = [
    "0",
    "1",
    "00",
    "01",
    "5",
    "6",
    "2015",
    "2016",
    "3407",
    "3408",
    "3409",
    "3500",
    "209999",
    "210000",
    "6929999",
    "6930000",
    "4999999999",
    "5000000000",
    "715827882",
    "715827883",
    "2147483647",
    "2147483648",
    "4294967295",
    "4294967296",
    "2099999997689999",
    "2099999997690000",
    "9223372036854775808",
    "18446744073709551615",
    "18446744073709551616",
    "340282366920938463463374607431768211455",
    "340282366920938463463374607431768211456",
    "100000000000000000000000000000000000000",
    "1000000000000000000000000000000000000000",
  ]
  .iter()
  .map(|s| s.to_string())
  .collect();
  v.push(format!("{}1", "0".repeat(300)));
  v
}

const TXIDS: [&str; 7] = [
  "0000000000000000000000000000000000000000000000000000000000000000",
  "ffffffffffffffffffffffffffffffffffffffffffffffffffffffffffffffff",
  "FFFFFFFFFFFFFFFFFFFFFFFFFFFFFFFFFFFFFFFFFFFFFFFFFFFFFFFFFFFFFFFF",
  "0123456789abcdef0123456789abcdef0123456789abcdef0123456789ABCDEF",
  "123456789abcdef0123456789abcdef0123456789abcdef0123456789abcdef", // 63
  "00123456789abcdef0123456789abcdef0123456789abcdef0123456789abcdef", // 65
  "g123456789abcdef0123456789abcdef0123456789abcdef0123456789abcdef0",
];

fn rune_names() -> Vec<String> {
  let mut v = Vec::new();
  for len in [1usize, 2, 11, 12, 13, 26, 27, 28, 29, 32, 33, 34, 64, 65, 129] {
    for fill in ['A', 'B', 'Z'] {
      v.push(fill.to_string().repeat(len));
    }
  }
  v.push("BCGDENLQRQWDSLRUGSNLBTMFIJAV".into()); // 2^128 - 1
  v.push("BCGDENLQRQWDSLRUGSNLBTMFIJAU".into());
  v.push("BCGDENLQRQWDSLRUGSNLBTMFIJAW".into()); // 2^128
  v.push("UNCOMMONGOODS".into());
  v
}

fn spaced_variants(name: &str) -> Vec<String> {
  let chars: Vec<char> = name.chars().collect();
  let n = chars.len();
  let mut out = BTreeSet::new();
  let with = |positions: &[usize], sp: char| -> String {
    // spacer after letter index i for each i in positions (i may be >= n-1: trailing)
    let mut s = String::new();
    for (i, c) in chars.iter().enumerate() {
      s.push(*c);
      for p in positions {
        if *p == i {
          s.push(sp);
        }
      }
    }
    s
  };
  for sp in ['•', '.'] {
    out.insert(with(&[], sp));
    let mut interesting: Vec<usize> = vec![0, 1, n / 2, 26, 27, 30, 31, 32, 33, 63, 64];
    interesting.push(n.saturating_sub(2));
    interesting.push(n - 1); // trailing spacer
    interesting.retain(|p| *p < n);
    interesting.sort();
    interesting.dedup();
    for &a in &interesting {
      out.insert(with(&[a], sp));
      out.insert(with(&[a, a], sp)); // double spacer
      for &b in &interesting {
        if b > a {
          out.insert(with(&[a, b], sp));
        }
      }
    }
    out.insert(with(&(0..n.saturating_sub(1)).collect::<Vec<_>>(), sp)); // every gap
    out.insert(format!("{sp}{name}")); // leading
  }
  out.into_iter().collect()
}

fn sat_names() -> Vec<String> {
  let mut v = Vec::new();
  for len in [1usize, 2, 10, 11, 12, 13, 14, 15, 26, 27, 28, 29, 32, 33, 34, 64, 65, 129] {
    for fill in ['a', 'b', 'z'] {
      v.push(fill.to_string().repeat(len));
    }
  }
  for s in ["nvtdijuwxlp", "nvtdijuwxlo", "nvtdijuwxlq", "nvtdijuwxmp", "satoshi", "sat", "btc"] {
    v.push(s.to_string());
  }
  v
}

fn degree_strings() -> Vec<String> {
  let mut out = BTreeSet::new();
  let cycles = [
    "0", "1", "5", "6", "00", "3407", "3408", "3409", "3500", "715827882", "715827883", "4294967295",
    "4294967296", "18446744073709551616",
  ];
  let bs: [u64; 11] = [0, 1, 335, 336, 2015, 2016, 47295, 47296, 209_999, 210_000, 4_294_967_296];
  for a in cycles {
    let a_small = nat(a).to_u64().filter(|a| *a < 1_000_000);
    for k in 0..6u64 {
      for b in bs {
        // consistent second for epoch-in-cycle k (1260000 % 2016 == 0)
        let c0 = (k * 210_000 + b) % 2016;
        let sub = a_small.map(|a| ref_subsidy((a * 6 + k) * 210_000)).unwrap_or(0);
        for c in [c0, (c0 + 1) % 2016, (c0 + 336) % 2016, 2015, 2016] {
          let mut ds: Vec<Option<String>> = vec![None, Some("0".into()), Some("1".into())];
          if sub > 0 {
            ds.push(Some((sub - 1).to_string()));
            ds.push(Some(sub.to_string()));
          }
          ds.push(Some("18446744073709551615".into()));
          ds.push(Some("18446744073709551616".into()));
          for d in ds {
            out.insert(match d {
              None => format!("{a}°{b}′{c}″"),
              Some(d) => format!("{a}°{b}′{c}″{d}‴"),
            });
          }
        }
      }
    }
  }
  out.insert("0°0′0″0".into());
  out.insert("0°0′0″‴".into());
  out.insert("°0′0″0‴".into());
  out.insert("0°′0″0‴".into());
  out.insert("0°0′0‴".into());
  out.insert("+0°+0′+0″+0‴".into());
  out.into_iter().collect()
}

fn percentile_strings() -> Vec<String> {
  let mut v: Vec<String> = [
    "0", "1", "50", "99", "100", "101", "100.0000001", "100.00000000000001", "100.000000000000001",
    "99.99999999999999999", "99.99999999999999", "99.99971949060254", "0.00000000000000000001",
    "50.000000000000000000000001", "0.5", ".5", "5.", "1E2", "1E+2", "1E-2", "1E0", "1E400", "1E-400",
    "1e2", "0E99999", "1E99999", "1E-99999", "1E999999", "NAN", "NaN", "nan", "INF", "inf", "Inf",
    "-INF", "-inf", "+INF", "INFINITY", "infinity", "-INFINITY", "+NAN", "-NAN", "-0", "-0.0", "+1",
    "+100", "-1", "-0.0000000000000000000000001", "0x10", "1_0", "١", "", " 1", "1 ", "1%", "%",
    "4.7619047671428595E-14", "0.000000000000047619047671428595", "0.00000000000004761904767142859",
  ]
  .iter()
  .map(|s| format!("{s}%"))
  .collect();
  for n in numerals() {
    v.push(format!("{n}%"));
    v.push(format!("0.{n}%"));
    v.push(format!("{n}.{n}%"));
  }
  v
}

fn amount_strings() -> Vec<String> {
  let mut out = Vec::new();
  let nums = [
    "0", "1", ".5", "1.5", "1.", "0.00000001", "0.000000001", "0.00000000001", "21000000",
    "184467440737.09551615", "184467440737.09551616", "92233720368.54775807", "92233720368.54775808",
    "18446744073709551615", "18446744073709551616", "9223372036854775807", "9223372036854775808",
    "18446744073709551615000", "18446744073709551616000", "340282366920938463463374607431768211456",
    "00000000000000000000000000000000000000000000000000000001", "0.10000000000000000000000000000000000000000",
  ];
  for n in nums {
    for sep in ["", " ", "  "] {
      for (u, _) in UNITS {
        for plural in ["", "s"] {
          out.push(format!("{n}{sep}{u}{plural}"));
        }
      }
      out.push(format!("{n}{sep}BTC"));
      out.push(format!("{n}{sep}Mbtc"));
    }
  }
  out
}

fn generated_strings(thorough: bool) -> Vec<String> {
  let mut out: BTreeSet<String> = BTreeSet::new();
  let nums = numerals();
  // integers, signed variants
  for n in &nums {
    out.insert(n.clone());
    out.insert(format!("-{n}"));
    out.insert(format!("+{n}"));
  }
  // pairs with each separator: sat decimals (`.`), rune ids (`:`)
  for a in &nums {
    for b in &nums {
      out.insert(format!("{a}.{b}"));
      out.insert(format!("{a}:{b}"));
    }
  }
  // decimals H.O around each height's subsidy
  for h in [0u64, 1, 209_999, 210_000, 6_929_999, 6_930_000, 4_294_967_295] {
    let sub = ref_subsidy(h);
    for o in [0, 1, sub.saturating_sub(1), sub, sub + 1] {
      out.insert(format!("{h}.{o}"));
    }
  }
  out.extend(degree_strings());
  out.extend(percentile_strings());
  out.extend(sat_names());
  let names = rune_names();
  for n in &names {
    out.extend(spaced_variants(n));
  }
  // Decimal grammar
  let decs = amounts::decimal_strings(thorough);
  out.extend(decs.iter().cloned());
  // satpoints, outpoints, inscription ids
  let small: Vec<&String> = nums.iter().filter(|n| n.len() <= 21).collect();
  for t in TXIDS {
    out.insert(t.to_string());
    for a in &small {
      out.insert(format!("{t}:{a}"));
      out.insert(format!("{t}i{a}"));
      out.insert(format!("{t}I{a}"));
      for b in &small {
        out.insert(format!("{t}:{a}:{b}"));
      }
    }
    out.insert(format!("{t}i{}", nums.last().unwrap()));
    out.insert(format!("{t}:0:{}", nums.last().unwrap()));
  }
  out.extend(amount_strings());
  // outgoing rune amounts: a slice of the decimal grammar x separators x spaced names
  let mut dec_slice: Vec<String> = decs
    .iter()
    .filter(|d| d.len() <= 45 || d.len() == 258 || d.len() == 257)
    .step_by(if thorough { 7 } else { 29 })
    .cloned()
    .collect();
  dec_slice.extend(
    [
      "1",
      "1.5",
      ".5",
      "1.",
      "340282366920938463463374607431768211455",
      "340282366920938463463374607431768211456",
      "34028236692093846346337460743176821145.9",
      "1.000000000000000000000000000000000000001",
    ]
    .iter()
    .map(|s| s.to_string()),
  );
  dec_slice.push(format!("0.{}1", "0".repeat(255)));
  dec_slice.push(format!("0.{}1", "0".repeat(60)));
  let sp_slice = [
    "A", "A•B", "A.B", "AB•", "•AB", "A••B", "UNCOMMON•GOODS", "BCGDENLQRQWDSLRUGSNLBTMFIJAV",
    "BCGDENLQRQWDSLRUGSNLBTMFIJAW", "AAAAAAAAAAAAAAAAAAAAAAAAAAAAAAAAA•A", "AAAAAAAAAAAAAAAAAAAAAAAAAAAAAAAA•A",
  ];
  for d in &dec_slice {
    for sep in [":", " : ", " :", ":  ", "\t:\t"] {
      for r in sp_slice {
        out.insert(format!("{d}{sep}{r}"));
      }
    }
  }
  // object / query odds and ends
  for s in [
    "bc1qw508d6qejxtdg4y5r3zarvary0c5xw7kv8f3t4",
    "BC1QW508D6QEJXTDG4Y5R3ZARVARY0C5XW7KV8F3T4",
    "bc1",
    "tb1x",
    "bcrt1é",
    "bc1•",
    "1A1zP1eP5QGefi2DMPTfTL5SLmv7DivfNa",
    "",
    "-",
    "-0",
    "--1",
    "1111111111111111111111111111111111111111111111111111111111111111",
    "111111111111111111111111111111111111111111111111111111111111111",
    "11111111111111111111111111111111111111111111111111111111111111111",
    "-111111111111111111111111111111111111111111111111111111111111111",
    "-2147483648",
    "-2147483649",
    "٣",
    "٣:٣",
    "0000000000000000000000000000000000000000000000000000000000000000i٣",
    "0000000000000000000000000000000000000000000000000000000000000000:٣:٣",
    "٣ sat",
    "1 sat\n",
    "1\nsat",
  ] {
    out.insert(s.to_string());
  }
  out.into_iter().collect()
}

/// Syntactic core of the alphabet, used for one more character of length.
pub const CORE_ALPHABET: [char; 16] =
  ['0', '1', '9', '.', ':', '%', '°', '′', '″', '‴', 'A', '•', 'N', 'a', '-', 'E'];

fn nth_string(mut idx: usize, len: usize, alphabet: &[char]) -> String {
  let mut cs = vec![' '; len];
  for pos in (0..len).rev() {
    cs[pos] = alphabet[idx % alphabet.len()];
    idx /= alphabet.len();
  }
  cs.into_iter().collect()
}

pub fn run(ctx: &Ctx) -> Report {
  let mut report = Report::new("C31", &ctx.tier, "exploration");
  install_location_hook();

  if let Some(path) = &ctx.replay {
    let v: Value =
      serde_json::from_str(&std::fs::read_to_string(path).expect("read replay")).expect("json");
    let r = &v["replay"];
    let p = PARSERS
      .iter()
      .position(|n| *n == r["parser"].as_str().unwrap())
      .expect("parser");
    let mut stats = Stats::default();
    let mut viol = Vec::new();
    check(p, r["input"].as_str().unwrap(), &mut stats, &mut viol);
    for (c, w, rp) in viol {
      report.violation(c, w, rp);
    }
    report.set("evaluations", stats.evaluations);
    report.set("distinct_nontrivial", 2u64);
    report.set("rule", "replay of one recorded (parser, input) pair");
    return report;
  }

  let max_len = if ctx.thorough() { 4 } else { 3 };
  let a = ALPHABET.len();

  // (i) all strings of length <= max_len over ALPHABET, every parser.
  // Work items: (length, leading block) so that the 16 workers stay busy.
  let mut items: Vec<(usize, usize, usize, bool)> = Vec::new(); // (len, first index, count, core alphabet)
  for len in 0..=max_len {
    let total = a.pow(len as u32);
    let block = (total / 256).max(1);
    let mut i = 0;
    while i < total {
      items.push((len, i, block.min(total - i), false));
      i += block;
    }
  }
  // one more character over the 16-character syntactic core (strings that use only core characters
  // and are shorter were already covered above)
  {
    let len = max_len + 1;
    let total = CORE_ALPHABET.len().pow(len as u32);
    let block = (total / 256).max(1);
    let mut i = 0;
    while i < total {
      items.push((len, i, block.min(total - i), true));
      i += block;
    }
  }
  let (res, _) = util::par_map(
    items.len(),
    None,
    |_| (),
    |_, i| {
      let (len, first, count, core) = items[i];
      let mut stats = Stats::default();
      let mut viol = Vec::new();
      for idx in first..first + count {
        let s = if core { nth_string(idx, len, &CORE_ALPHABET) } else { nth_string(idx, len, &ALPHABET) };
        for p in 0..PARSERS.len() {
          check(p, &s, &mut stats, &mut viol);
        }
      }
      (stats, viol)
    },
  );
  let mut stats = Stats::default();
  let mut all_viol: Vec<Viol> = Vec::new();
  let mut short_strings = 0u64;
  for (i, r) in res.into_iter().enumerate() {
    let (st, vi) = r.expect("item done");
    short_strings += items[i].2 as u64;
    stats.merge(st);
    all_viol.extend(vi);
  }

  // (ii) grammar-directed strings, every parser
  let gen_strings = generated_strings(ctx.thorough());
  let per = 64usize;
  let chunks = gen_strings.len().div_ceil(per);
  let (res, _) = util::par_map(
    chunks,
    None,
    |_| (),
    |_, i| {
      let mut stats = Stats::default();
      let mut viol = Vec::new();
      for s in &gen_strings[i * per..((i + 1) * per).min(gen_strings.len())] {
        for p in 0..PARSERS.len() {
          check(p, s, &mut stats, &mut viol);
        }
      }
      (stats, viol)
    },
  );
  for r in res.into_iter().flatten() {
    stats.merge(r.0);
    all_viol.extend(r.1);
  }

  // shortest input first within each class
  all_viol.sort_by_key(|v| {
    let s = v.2["input"].as_str().unwrap_or("");
    (s.chars().count(), s.to_string())
  });
  for (c, w, rp) in all_viol {
    report.violation(c, w, rp);
  }

  let mut in_grammar_accepts = 0u64;
  let mut hist = serde_json::Map::new();
  for (p, m) in &stats.per_parser {
    // keep the histogram readable: named outcome keys + the 8 most frequent error kinds
    let mut named = serde_json::Map::new();
    let mut errs: Vec<(&String, &u64)> = Vec::new();
    for (k, n) in m {
      if k.starts_with("err/") {
        errs.push((k, n));
      } else {
        named.insert(k.clone(), json!(n));
        if k == "accepted/denotes-returned-value" {
          in_grammar_accepts += n;
        }
      }
    }
    errs.sort_by(|x, y| y.1.cmp(x.1));
    let total_err: u64 = errs.iter().map(|e| *e.1).sum();
    named.insert("rejected".into(), json!(total_err));
    named.insert(
      "top_error_kinds".into(),
      json!(errs.iter().take(8).map(|(k, n)| json!({"kind": k, "n": n})).collect::<Vec<_>>()),
    );
    named.insert("distinct_error_kinds".into(), json!(errs.len()));
    hist.insert(p.clone(), Value::Object(named));
  }

  report.set("evaluations", stats.evaluations);
  report.set(
    "distinct_nontrivial",
    (short_strings + gen_strings.len() as u64 - 1) * PARSERS.len() as u64,
  );
  report.set(
    "rule",
    "one case = (parser, string); short strings are distinct by construction (base-40 counter), generated \
     strings are a BTreeSet; a generated string of length <= max_len+1 may also occur among the short strings \
     (a few hundred, counted twice); non-trivial = everything except the empty string",
  );
  report.set("parsers", json!(PARSERS));
  report.set("alphabet", ALPHABET.iter().collect::<String>());
  report.set("short_strings", short_strings);
  report.set("short_string_max_length", max_len as u64);
  report.set("core_alphabet", CORE_ALPHABET.iter().collect::<String>());
  report.set("core_alphabet_string_length", (max_len + 1) as u64);
  report.set("generated_strings", gen_strings.len() as u64);
  report.set("accepted_and_verified_against_reference", in_grammar_accepts);
  report.set("outcomes_per_parser", Value::Object(hist));
  report.set(
    "accepted_outside_reference_grammar_samples",
    json!(stats.outside_accepted_samples),
  );
  report.set(
    "rejected_although_valid_by_reference_samples",
    json!(stats.valid_rejected_samples),
  );
  report.set("exhaustive", true);
  report.set(
    "space",
    format!(
      "12 parsers (Sat in all notations, Rune, SpacedRune, RuneId, Decimal, SatPoint, InscriptionId, Outgoing, \
       Object, explorer query Block/Inscription/Rune) x [ALL strings of length <= {max_len} over a 40-character \
       alphabet + ALL strings of length {} over its 16-character syntactic core + grammar-directed products: numerals {{0,1,…,2^31,2^32-1,2^32,715827882/3,3407..3409,3500,2^63,\
       2^64-1,2^64,2^128-1,2^128,10^38,10^39,300 zeros+1}} alone, signed, paired with `.` and `:`; degree \
       strings (14 cycles x 6 epochs x 11 minutes x 5 seconds x 5-7 thirds); percentile floats incl. NaN/inf \
       spellings and exponents; sat and rune names of lengths 1..129; spacer placements incl. positions \
       31/32/33, leading, trailing, double; the Decimal grammar I.F with fraction lengths up to 300; satpoint / \
       outpoint / inscription-id products over 7 txid shapes; amounts x 10 units; rune amounts]",
      max_len + 1
    ),
  );
  report.sample(json!({"parser":"sat","input":"0°0′0″0‴","expected":"Sat(0)"}));
  report.sample(json!({"parser":"sat","input":"NAN%","expected":"rejected (non-finite)"}));
  report.sample(json!({"parser":"sat","input":"715827883°0′0″0‴","expected":"rejected (cycle * 6 exceeds u32)"}));
  report.sample(json!({"parser":"spaced-rune","input":format!("{}•A", "A".repeat(33)),"expected":"rejected (no such rune)"}));
  report.sample(json!({"parser":"decimal","input":"340282366920938463463374607431768211455.5","expected":"rejected (value exceeds u128)"}));
  report.sample(json!({"parser":"decimal","input":"0.<255 zeros>1","expected":"rejected (scale exceeds u8)"}));
  report.assume(
    "explorer query parsers are reached through the verif_b hook, which compiles src/subcommand/server/query.rs \
     unchanged as a second module; the HTTP routes themselves belong to the server engine",
  );
  report.assume("percentile notation is approximate by nature: an accepted percentile must be within 2 sats of the exact rational value");
  report
}
