//! C34: displayed rune amounts parse back to the same amount.
//!
//! (a) Pile{amount, divisibility}.to_string() -> strip "\u{A0}<symbol>" ->
//!     Decimal::from_str -> to_integer(divisibility) == amount, for a boundary
//!     lattice of amounts x ALL divisibilities 0..=38.
//! (b) decimal strings `I`, `I.`, `.F`, `I.F` x ALL divisibilities: when ord
//!     parses the string, to_integer(d) is either exactly (I.F) * 10^d (computed
//!     on decimal strings) or an error, and the error is one the exact value
//!     justifies (fractional base units = excess precision, above 2^128-1 =
//!     overflow).

use {
  super::big::Nat,
  crate::{Ctx, evidence::Report, util},
  ord::decimal::Decimal,
  ordinals::Pile,
  serde_json::{Value, json},
  std::collections::{BTreeMap, BTreeSet},
};

type Viol = (String, String, Value);

/// A string of the reference decimal grammar: digits* [ '.' digits* ], at least
/// one digit overall.  Returns (all digits as a number, number of fraction digits).
pub fn ref_decimal(s: &str) -> Option<(Nat, usize)> {
  let (i, f) = match s.split_once('.') {
    Some((i, f)) => (i, f),
    None => (s, ""),
  };
  if i.is_empty() && f.is_empty() {
    return None;
  }
  if !i.bytes().all(|b| b.is_ascii_digit()) || !f.bytes().all(|b| b.is_ascii_digit()) {
    return None;
  }
  let all = format!("{i}{f}");
  Some((Nat::parse(&all)?, f.len()))
}

/// Does Decimal{value, scale} denote the number digits / 10^frac_len ?
pub fn decimal_denotes(value: u128, scale: u8, digits: &Nat, frac_len: usize) -> bool {
  Nat::from_u128(value).shl10(frac_len) == digits.shl10(scale as usize)
}

pub enum Units {
  Exact(u128),
  /// not a whole number of base units (floor given if it fits)
  Fractional { too_large: bool },
  TooLarge,
}

/// Exact value of (digits / 10^frac_len) * 10^div in base units.
pub fn ref_units(digits: &Nat, frac_len: usize, div: u8) -> Units {
  let scaled = digits.shl10(div as usize);
  match scaled.shr10_exact(frac_len) {
    Some(q) => match q.to_u128() {
      Some(v) => Units::Exact(v),
      None => Units::TooLarge,
    },
    None => {
      // floor(scaled / 10^frac_len): drop the low digits
      let s = scaled.to_string();
      let too_large = if s.len() > frac_len {
        Nat::parse(&s[..s.len() - frac_len]).unwrap().to_u128().is_none()
      } else {
        false
      };
      Units::Fractional { too_large }
    }
  }
}

#[derive(Default)]
pub struct Stats {
  evaluations: u64,
  pile_roundtrips: u64,
  strings: u64,
  parse_ok: u64,
  parse_err: u64,
  parse_panic: u64,
  to_integer: BTreeMap<String, u64>,
  cases: u64,
}

fn check_pile(amount: u128, div: u8, symbol: Option<char>, stats: &mut Stats, viol: &mut Vec<Viol>) {
  stats.evaluations += 1;
  stats.pile_roundtrips += 1;
  let replay = json!({"kind":"pile","amount":amount.to_string(),"divisibility":div,
    "symbol": symbol.map(|c| c.to_string())});
  let r = util::catch(|| {
    let printed = Pile { amount, divisibility: div, symbol }.to_string();
    // printed form is "<number>\u{A0}<symbol>": remove the symbol character and one NBSP before it
    let mut number = printed.clone();
    number.pop();
    if number.ends_with('\u{A0}') {
      number.pop();
    }
    let parsed = number.parse::<Decimal>();
    let back = parsed.as_ref().ok().map(|d| d.to_integer(div).map_err(|e| e.to_string()));
    (printed, number, parsed.map_err(|e| e.to_string()), back)
  });
  match r {
    Err(p) => viol.push((
      "pile/panic".into(),
      format!("Pile{{{amount}, {div}}} display / Decimal parse / to_integer panicked: {p}"),
      replay,
    )),
    Ok((printed, number, parsed, back)) => {
      match (parsed, back) {
        (Ok(_), Some(Ok(v))) if v == amount => {}
        (parsed, back) => viol.push((
          "pile/roundtrip".into(),
          format!(
            "Pile{{amount {amount}, divisibility {div}}} prints as {number}; parsed {parsed:?}; \
             to_integer({div}) = {back:?}"
          ),
          replay,
        )),
      }
    }
  }
}

pub fn check_string(s: &str, div: u8, stats: &mut Stats, viol: &mut Vec<Viol>) {
  stats.evaluations += 1;
  stats.cases += 1;
  let replay = json!({"kind":"string","s":s,"divisibility":div});
  let Some((digits, frac_len)) = ref_decimal(s) else {
    return;
  };
  let parsed = match util::catch(|| s.parse::<Decimal>()) {
    Err(_) => {
      // totality of Decimal::from_str is C31's subject
      stats.parse_panic += 1;
      return;
    }
    Ok(Err(_)) => {
      stats.parse_err += 1;
      return;
    }
    Ok(Ok(d)) => d,
  };
  stats.parse_ok += 1;
  let exp = ref_units(&digits, frac_len, div);
  let short = if s.len() > 60 { format!("{}…({} chars)", &s[..60], s.len()) } else { s.to_string() };
  match util::catch(|| parsed.to_integer(div).map_err(|e| e.to_string())) {
    Err(p) => viol.push((
      "to-integer/panic".into(),
      format!("Decimal `{short}`.to_integer({div}) panicked: {p}"),
      replay,
    )),
    Ok(Ok(v)) => {
      *stats.to_integer.entry("ok".into()).or_default() += 1;
      match exp {
        Units::Exact(e) if e == v => {}
        Units::Exact(e) => viol.push((
          "to-integer/wrong-units".into(),
          format!("`{short}` at divisibility {div} = {e} base units, ord returned {v}"),
          replay,
        )),
        Units::Fractional { .. } => viol.push((
          "to-integer/excess-precision-accepted".into(),
          format!("`{short}` at divisibility {div} is not a whole number of base units, ord returned {v}"),
          replay,
        )),
        Units::TooLarge => viol.push((
          "to-integer/overflow-accepted".into(),
          format!("`{short}` at divisibility {div} exceeds 2^128-1 base units, ord returned {v}"),
          replay,
        )),
      }
    }
    Ok(Err(e)) => {
      *stats.to_integer.entry(format!("err/{e}")).or_default() += 1;
      let justified = match exp {
        Units::Exact(_) => false,
        Units::TooLarge => e.contains("out of range"),
        Units::Fractional { too_large } => {
          e.contains("excessive precision") || (too_large && e.contains("out of range"))
        }
      };
      if !justified {
        viol.push((
          "to-integer/unjustified-error".into(),
          format!(
            "`{short}` at divisibility {div}: ord reports `{e}` but the exact value is {}",
            match exp {
              Units::Exact(v) => format!("{v} base units"),
              Units::TooLarge => "a whole number above 2^128-1".into(),
              Units::Fractional { .. } => "fractional".into(),
            }
          ),
          replay,
        ));
      }
    }
  }
}

fn pow10(k: u32) -> u128 {
  10u128.pow(k)
}

pub fn amount_lattice(thorough: bool) -> BTreeSet<u128> {
  let mut v = BTreeSet::new();
  v.insert(0);
  for k in 0..=38 {
    let p = pow10(k);
    v.insert(p);
    v.insert(p - 1);
    v.insert(p + 1);
    for d in 1..=9u128 {
      if let Some(x) = p.checked_mul(d) {
        v.insert(x);
      }
    }
  }
  for k in 0..128 {
    let b = 1u128 << k;
    v.insert(b - 1);
    v.insert(b + 1);
  }
  v.insert(u128::MAX);
  v.insert(u128::MAX - 1);
  // digit patterns
  v.insert(123456789012345678901234567890123456789);
  v.insert(100000000000000000000000000000000000001);
  v.insert(101010101010101010101010101010101010101);
  v.insert(99999999999999999999999999999999999999);
  // two non-zero digits at all position pairs
  let ds: &[u128] = if thorough { &[1, 5, 9] } else { &[1, 9] };
  for i in 0..=38u32 {
    for j in (i + 1)..=38 {
      if !thorough && !(j - i <= 2 || i <= 1 || j >= 37) {
        continue;
      }
      for &a in ds {
        for &b in ds {
          if let Some(x) = pow10(j).checked_mul(b).and_then(|x| x.checked_add(pow10(i) * a)) {
            v.insert(x);
          }
        }
      }
    }
  }
  v
}

pub fn numerals() -> Vec<String> {
  let mut v: Vec<String> = vec![
    "0".into(),
    "1".into(),
    "9".into(),
    "10".into(),
    "00".into(),
    "01".into(),
    "007".into(),
    "2147483648".into(),
    "4294967295".into(),
    "4294967296".into(),
    "9223372036854775808".into(),
    "18446744073709551615".into(),
    "18446744073709551616".into(),
    "34028236692093846346337460743176821145".into(), // floor(2^128 / 10)
    "34028236692093846346337460743176821146".into(),
    "340282366920938463463374607431768211455".into(),
    "340282366920938463463374607431768211456".into(),
    "100000000000000000000000000000000000000".into(), // 10^38
    "1000000000000000000000000000000000000000".into(), // 10^39
    "99999999999999999999999999999999999999".into(),
  ];
  v.push(format!("{}1", "0".repeat(300)));
  v
}

/// Fraction digit strings: numerals plus 0^k 1, 1 0^k, 9^k for a set of lengths.
pub fn fractions(thorough: bool) -> Vec<String> {
  let mut v = numerals();
  v.push(String::new());
  let lens: Vec<usize> = if thorough {
    (1..=300).collect()
  } else {
    let mut l: Vec<usize> = (1..=42).collect();
    l.extend([64, 100, 128, 200, 254, 255, 256, 257, 300]);
    l
  };
  for k in lens {
    v.push(format!("{}1", "0".repeat(k - 1)));
    v.push(format!("1{}", "0".repeat(k - 1)));
    v.push("9".repeat(k));
    v.push(format!("{}5{}", "0".repeat(k / 2), "0".repeat(k - k / 2)));
  }
  let set: BTreeSet<String> = v.into_iter().collect();
  set.into_iter().collect()
}

pub fn decimal_strings(thorough: bool) -> Vec<String> {
  let mut out = BTreeSet::new();
  let mut ints = numerals();
  ints.push(String::new());
  for i in &ints {
    if !i.is_empty() {
      out.insert(i.clone());
    }
    for f in fractions(thorough) {
      if i.is_empty() && f.is_empty() {
        continue;
      }
      out.insert(format!("{i}.{f}"));
    }
  }
  out.into_iter().collect()
}

pub fn run(ctx: &Ctx) -> Report {
  let mut report = Report::new("C34", &ctx.tier, "exploration");
  let mut stats = Stats::default();
  let mut viol: Vec<Viol> = Vec::new();

  if let Some(path) = &ctx.replay {
    let v: Value =
      serde_json::from_str(&std::fs::read_to_string(path).expect("read replay")).expect("json");
    let r = &v["replay"];
    let div = r["divisibility"].as_u64().unwrap() as u8;
    if r["kind"] == "pile" {
      check_pile(
        r["amount"].as_str().unwrap().parse().unwrap(),
        div,
        r["symbol"].as_str().and_then(|s| s.chars().next()),
        &mut stats,
        &mut viol,
      );
    } else {
      check_string(r["s"].as_str().unwrap(), div, &mut stats, &mut viol);
    }
    for (c, w, rp) in viol {
      report.violation(c, w, rp);
    }
    report.set("evaluations", stats.evaluations);
    report.set("distinct_nontrivial", stats.evaluations.max(2));
    report.set("rule", "replay of one recorded case");
    return report;
  }

  // (a) amounts x divisibilities
  let amounts = amount_lattice(ctx.thorough());
  for &a in &amounts {
    for div in 0..=38u8 {
      check_pile(a, div, None, &mut stats, &mut viol);
    }
  }
  // symbol variants on a few amounts (the symbol must not leak into the number)
  for &a in &[0u128, 1, 10, 1234500, u128::MAX] {
    for div in 0..=38u8 {
      for sym in ['$', '.', '0', '\u{A0}'] {
        check_pile(a, div, Some(sym), &mut stats, &mut viol);
      }
    }
  }

  // (b) decimal strings x divisibilities (parallel over strings)
  let strings = decimal_strings(ctx.thorough());
  let (res, _) = util::par_map(
    strings.len(),
    None,
    |_| (),
    |_, i| {
      let mut st = Stats::default();
      let mut vi = Vec::new();
      for div in 0..=38u8 {
        check_string(&strings[i], div, &mut st, &mut vi);
      }
      vi.truncate(8);
      (st, vi)
    },
  );
  stats.strings = strings.len() as u64;
  for r in res.into_iter().flatten() {
    let (st, vi) = r;
    stats.evaluations += st.evaluations;
    stats.cases += st.cases;
    stats.parse_ok += st.parse_ok;
    stats.parse_err += st.parse_err;
    stats.parse_panic += st.parse_panic;
    for (k, n) in st.to_integer {
      *stats.to_integer.entry(k).or_default() += n;
    }
    viol.extend(vi);
  }

  for (c, w, rp) in viol {
    report.violation(c, w, rp);
  }

  report.set("evaluations", stats.evaluations);
  report.set("distinct_nontrivial", stats.pile_roundtrips + stats.cases);
  report.set(
    "rule",
    "distinct by construction: amounts and decimal strings are BTreeSets, each crossed with every \
     divisibility 0..=38 once; every (amount, divisibility) and (string, divisibility) pair is one case",
  );
  report.set("amounts", amounts.len() as u64);
  report.set("pile_roundtrips", stats.pile_roundtrips);
  report.set("decimal_strings", stats.strings);
  report.set("string_cases", stats.cases);
  report.set("string_parse_ok", stats.parse_ok);
  report.set("string_parse_err", stats.parse_err);
  report.set("string_parse_panicked_out_of_scope_see_C31", stats.parse_panic);
  report.set(
    "to_integer_outcomes",
    Value::Object(stats.to_integer.iter().map(|(k, v)| (k.clone(), json!(v))).collect()),
  );
  report.set("exhaustive", true);
  report.set(
    "space",
    "(a) amounts {0, 10^k, 10^k±1, d*10^k (d=1..9, k=0..38), 2^k±1 (k<128), 2^128-1, 2^128-2, digit patterns, \
     two-non-zero-digit numbers a*10^i+b*10^j} x ALL divisibilities 0..=38 (plus 5 amounts x 4 odd symbols); \
     (b) decimal strings I, I.F with I in the numeral set (0,1,…,2^32,2^64,floor(2^128/10)(+1),2^128-1,2^128,10^38,\
     10^39,300 zeros+1, or empty) and F in the numeral set or 0^(k-1)1 / 1 0^(k-1) / 9^k / 0..5..0 for k up to 300 \
     x ALL divisibilities 0..=38",
  );
  report.sample(json!({"pile": {"amount": "1234500", "divisibility": 5}, "printed": Pile{amount:1234500, divisibility:5, symbol:None}.to_string()}));
  report.sample(json!({"pile": {"amount": u128::MAX.to_string(), "divisibility": 38}, "printed": Pile{amount:u128::MAX, divisibility:38, symbol:None}.to_string()}));
  report.sample(json!({"string": "1.5", "divisibility": 0, "expected": "error: excessive precision"}));
  report.sample(json!({"string": "340282366920938463463374607431768211455", "divisibility": 1, "expected": "error: amount out of range"}));
  report.assume("decimal strings on which Decimal::from_str panics or errs are not `parsed decimals`; totality of the parser is C31");
  report
}
