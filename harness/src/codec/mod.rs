//! E5: bounded-exhaustive input enumeration of pure components (C25–C35).
pub mod amounts;
pub mod big;
pub mod envelope;
pub mod notation;
pub mod parsers;
pub mod runename;
pub mod satnum;
pub mod unlock;
pub mod properties;
pub mod runestone;
pub mod storage;
pub mod varint;

/// Runs `f` catching panics; a panic is reported as `Err(message)`.
#[allow(dead_code)]
pub fn total<R>(f: impl FnOnce() -> R) -> Result<R, String> {
  crate::util::catch(f)
}

use {
  crate::evidence::Report,
  serde_json::{Value, json},
  std::collections::BTreeMap,
};

pub type Viol = (String, String, Value);

/// Per-work-item statistics: evaluation count, outcome histogram, violations
/// (at most three kept per class).
#[derive(Default)]
pub struct Stats {
  pub evaluations: u64,
  pub hist: BTreeMap<String, u64>,
  pub viol: Vec<Viol>,
  pub viol_per_class: BTreeMap<String, u32>,
}

impl Stats {
  pub fn bump(&mut self, key: &str) {
    *self.hist.entry(key.into()).or_insert(0) += 1;
  }

  pub fn add(&mut self, key: &str, n: u64) {
    *self.hist.entry(key.into()).or_insert(0) += n;
  }

  pub fn violation(&mut self, class: String, what: String, replay: Value) {
    let n = self.viol_per_class.entry(class.clone()).or_insert(0);
    *n += 1;
    if *n <= 3 {
      self.viol.push((class, what, replay));
    }
  }

  pub fn merge(&mut self, other: Stats) {
    self.evaluations += other.evaluations;
    for (k, v) in other.hist {
      *self.hist.entry(k).or_insert(0) += v;
    }
    for (c, w, r) in other.viol {
      self.violation(c, w, r);
    }
  }
}

/// Accumulates the families of one run.
#[derive(Default)]
pub struct Acc {
  pub total: Stats,
  pub capped: bool,
  pub families: Vec<(String, u64)>,
}

impl Acc {
  /// Adds the results of one `par_map` family; `capped` = the time budget ended it early.
  pub fn absorb(&mut self, name: &str, results: Vec<Option<Stats>>, capped: bool) {
    let mut n = 0;
    for s in results.into_iter().flatten() {
      n += s.evaluations;
      self.total.merge(s);
    }
    self.families.push((
      format!("{name}{}", if capped { " (capped)" } else { "" }),
      n,
    ));
    if capped {
      self.capped = true;
    }
  }

  pub fn absorb_one(&mut self, name: &str, stats: Stats) {
    self.families.push((name.into(), stats.evaluations));
    self.total.merge(stats);
  }

  /// Violations, evaluation count, outcome histogram, per-family counts, `exhaustive`.
  pub fn report_into(&mut self, report: &mut Report) {
    for (c, w, r) in std::mem::take(&mut self.total.viol) {
      report.violation(c, w, r);
    }
    report.set("evaluations", self.total.evaluations);
    for (k, v) in &self.total.hist {
      report.set(&format!("outcome/{k}"), *v);
    }
    report.set(
      "families",
      Value::Array(
        self
          .families
          .iter()
          .map(|(k, v)| json!({"family": k, "evaluations": v}))
          .collect(),
      ),
    );
    report.set("exhaustive", !self.capped);
  }
}

/// Calls `f` with every sequence over 0..base of length `len` (odometer order).
pub fn for_each_seq(base: usize, len: usize, mut f: impl FnMut(&[usize])) {
  let mut idx = vec![0usize; len];
  loop {
    f(&idx);
    let mut k = len;
    loop {
      if k == 0 {
        return;
      }
      k -= 1;
      idx[k] += 1;
      if idx[k] < base {
        break;
      }
      idx[k] = 0;
    }
  }
}
