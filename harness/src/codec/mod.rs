//! E5: bounded-exhaustive input enumeration of pure components (C25–C35).
pub mod varint;

/// Runs `f` catching panics; a panic is reported as `Err(message)`.
pub fn total<R>(f: impl FnOnce() -> R) -> Result<R, String> {
  crate::util::catch(f)
}
