//! Tiny arbitrary-precision natural numbers on decimal digit vectors, written
//! for the reference oracles of C29–C34 (no big-integer crate is used).
//!
//! Representation: little-endian base-10 digits, normalised (no high zeros;
//! zero is the empty vector).  Everything is schoolbook; operands are at most a
//! few hundred digits.

use std::cmp::Ordering;

#[derive(Clone, Debug, PartialEq, Eq, Hash)]
pub struct Nat(Vec<u8>);

impl Nat {
  pub fn zero() -> Self {
    Nat(Vec::new())
  }

  /// Parses a non-empty string of ASCII digits (leading zeros allowed).
  pub fn parse(s: &str) -> Option<Self> {
    if s.is_empty() || !s.bytes().all(|b| b.is_ascii_digit()) {
      return None;
    }
    let mut v: Vec<u8> = s.bytes().rev().map(|b| b - b'0').collect();
    while v.last() == Some(&0) {
      v.pop();
    }
    Some(Nat(v))
  }

  pub fn from_u128(mut n: u128) -> Self {
    let mut v = Vec::new();
    while n > 0 {
      v.push((n % 10) as u8);
      n /= 10;
    }
    Nat(v)
  }

  pub fn is_zero(&self) -> bool {
    self.0.is_empty()
  }

  pub fn digits(&self) -> usize {
    self.0.len()
  }

  pub fn cmp(&self, other: &Nat) -> Ordering {
    if self.0.len() != other.0.len() {
      return self.0.len().cmp(&other.0.len());
    }
    for i in (0..self.0.len()).rev() {
      if self.0[i] != other.0[i] {
        return self.0[i].cmp(&other.0[i]);
      }
    }
    Ordering::Equal
  }

  pub fn le(&self, other: &Nat) -> bool {
    self.cmp(other) != Ordering::Greater
  }

  pub fn lt(&self, other: &Nat) -> bool {
    self.cmp(other) == Ordering::Less
  }

  pub fn add(&self, other: &Nat) -> Nat {
    let mut out = Vec::with_capacity(self.0.len().max(other.0.len()) + 1);
    let mut carry = 0u8;
    for i in 0..self.0.len().max(other.0.len()) {
      let s = self.0.get(i).copied().unwrap_or(0) + other.0.get(i).copied().unwrap_or(0) + carry;
      out.push(s % 10);
      carry = s / 10;
    }
    if carry > 0 {
      out.push(carry);
    }
    Nat(out)
  }

  /// self - other, None when other > self.
  pub fn sub(&self, other: &Nat) -> Option<Nat> {
    if self.lt(other) {
      return None;
    }
    let mut out = Vec::with_capacity(self.0.len());
    let mut borrow = 0i8;
    for i in 0..self.0.len() {
      let mut d = self.0[i] as i8 - other.0.get(i).copied().unwrap_or(0) as i8 - borrow;
      if d < 0 {
        d += 10;
        borrow = 1;
      } else {
        borrow = 0;
      }
      out.push(d as u8);
    }
    while out.last() == Some(&0) {
      out.pop();
    }
    Some(Nat(out))
  }

  pub fn abs_diff(&self, other: &Nat) -> Nat {
    match self.sub(other) {
      Some(d) => d,
      None => other.sub(self).unwrap(),
    }
  }

  pub fn mul(&self, other: &Nat) -> Nat {
    if self.is_zero() || other.is_zero() {
      return Nat::zero();
    }
    let mut acc = vec![0u32; self.0.len() + other.0.len() + 1];
    for (i, &a) in self.0.iter().enumerate() {
      if a == 0 {
        continue;
      }
      for (j, &b) in other.0.iter().enumerate() {
        acc[i + j] += a as u32 * b as u32;
      }
      // normalise lazily: digits stay < 81 * len, far from u32 overflow
    }
    let mut out = Vec::with_capacity(acc.len());
    let mut carry = 0u32;
    for a in acc {
      let s = a + carry;
      out.push((s % 10) as u8);
      carry = s / 10;
    }
    while carry > 0 {
      out.push((carry % 10) as u8);
      carry /= 10;
    }
    while out.last() == Some(&0) {
      out.pop();
    }
    Nat(out)
  }

  pub fn mul_u128(&self, n: u128) -> Nat {
    self.mul(&Nat::from_u128(n))
  }

  /// self * 10^k
  pub fn shl10(&self, k: usize) -> Nat {
    if self.is_zero() {
      return Nat::zero();
    }
    let mut v = vec![0u8; k];
    v.extend_from_slice(&self.0);
    Nat(v)
  }

  /// Number of trailing decimal zeros (0 for zero).
  pub fn trailing_zeros10(&self) -> usize {
    self.0.iter().take_while(|d| **d == 0).count()
  }

  /// self / 10^k if exact.
  pub fn shr10_exact(&self, k: usize) -> Option<Nat> {
    if self.is_zero() {
      return Some(Nat::zero());
    }
    if self.trailing_zeros10() < k {
      return None;
    }
    Some(Nat(self.0[k..].to_vec()))
  }

  pub fn to_u128(&self) -> Option<u128> {
    // 2^128 - 1, written out so that no conversion routine of the code under test is involved
    let max = Nat::parse("340282366920938463463374607431768211455").unwrap();
    if !self.le(&max) {
      return None;
    }
    let mut n: u128 = 0;
    for &d in self.0.iter().rev() {
      n = n
        .checked_mul(10)
        .and_then(|x| x.checked_add(d as u128))
        .expect("harness bug: Nat::to_u128 bound");
    }
    Some(n)
  }

  pub fn to_u64(&self) -> Option<u64> {
    self.to_u128().and_then(|n| u64::try_from(n).ok())
  }

  pub fn to_u32(&self) -> Option<u32> {
    self.to_u128().and_then(|n| u32::try_from(n).ok())
  }

  pub fn to_string(&self) -> String {
    if self.0.is_empty() {
      return "0".into();
    }
    self.0.iter().rev().map(|d| (b'0' + d) as char).collect()
  }
}

/// Value of a name in bijective ("modified") base 26 counting from 1:
/// a=1 … z=26, aa=27 …  `base` is b'a' or b'A'.  None when a character is
/// outside the 26 letters.
pub fn bijective26(name: &str, base: u8) -> Option<Nat> {
  let mut x = Nat::zero();
  let n26 = Nat::from_u128(26);
  for b in name.bytes() {
    if b < base || b >= base + 26 {
      return None;
    }
    x = x.mul(&n26).add(&Nat::from_u128((b - base) as u128 + 1));
  }
  Some(x)
}

#[cfg(test)]
mod tests {
  use super::*;

  #[test]
  fn basics() {
    let a = Nat::parse("00012345678901234567890123456789012345678901234567890").unwrap();
    assert_eq!(a.to_string(), "12345678901234567890123456789012345678901234567890");
    let b = Nat::from_u128(u128::MAX);
    assert_eq!(b.to_u128(), Some(u128::MAX));
    assert_eq!(b.add(&Nat::from_u128(1)).to_u128(), None);
    assert_eq!(b.add(&Nat::from_u128(1)).to_string(), "340282366920938463463374607431768211456");
    assert_eq!(
      Nat::from_u128(99999).mul(&Nat::from_u128(99999)).to_string(),
      (99999u128 * 99999).to_string()
    );
    assert_eq!(
      Nat::from_u128(1000).sub(&Nat::from_u128(1)).unwrap().to_string(),
      "999"
    );
    assert_eq!(Nat::from_u128(5).sub(&Nat::from_u128(6)), None);
    assert_eq!(Nat::from_u128(1200).shr10_exact(2).unwrap().to_string(), "12");
    assert_eq!(Nat::from_u128(1200).shr10_exact(3), None);
    assert_eq!(Nat::from_u128(12).shl10(3).to_string(), "12000");
    assert_eq!(bijective26("a", b'a').unwrap().to_string(), "1");
    assert_eq!(bijective26("zz", b'a').unwrap().to_string(), "702");
    assert_eq!(bijective26("aaa", b'a').unwrap().to_string(), "703");
  }
}
