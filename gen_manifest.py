#!/usr/bin/env python3
"""Generates /verif/MANIFEST.json from the table below (kept in one place so the
manifest stays valid while checks are added). Run: python3 gen_manifest.py"""
import json, subprocess

PROPS = [json.loads(l)["id"] for l in open("/verif/properties.jsonl")]

# id -> (engine, level, technique, text, note, design_ref)
CHECKS = {}

def add(pid, engine, level, technique, text, note, ref):
    CHECKS[pid] = dict(engine=engine, level=level, technique=technique, text=text, note=note, ref=ref)

add("C26", "codec", "exploration",
    "bounded-exhaustive input enumeration against a reference LEB128 evaluator",
    "Every byte string of length <= 3 and a lattice of long continuation patterns is decoded by the real "
    "varint::decode and compared with an independent evaluator; every integer below 2^21 and a boundary "
    "lattice of u128 values is round-tripped. Complete enumeration of the stated space, no sampling.",
    "Values outside the enumerated alphabet (arbitrary 128-bit integers, byte strings longer than 3 that are "
    "not of the continuation-pattern shape) are not covered. Trusted: the harness reference evaluator.",
    "DESIGN.md section 5 C26")

CHAIN_NOTE = ("Environment is the harness node simulator on mockcore's JSON-RPC; histories are bounded (fixed setup prefix, "
              "L enumerated blocks, <=K deviations over the stated alphabet); values outside the alphabet are not covered. "
              "Trusted: the independent reference model in harness/src/refmodel and the raw-table decoder in harness/src/idx.rs.")
add("C01", "chain", "model_checking",
    "stateless deviation-bounded exhaustive exploration of block histories on the real Index, lock-step BIP reference model",
    "Every history with <=K deviations over the sat-suite alphabet (17 transaction templates x 9 coinbase shapes, 2 slots + coinbase "
    "per block) is executed on the real Index::update through the node simulator; after every block Index::list of every unspent "
    "output and of the lost-sats pseudo-output must equal the ranges produced by an independent implementation of the BIP algorithm. "
    "Run under two index configurations: sats+addresses+inscriptions and sats alone (no inscription index).",
    CHAIN_NOTE, "DESIGN.md sections 4 (E1) and 5 C01")
add("C02", "chain", "model_checking",
    "stateless deviation-bounded exhaustive exploration of block histories, whole-index partition audit on every reached state",
    "Same executions as C01 (both index configurations); on every reached state the ranges of all outputs are audited to partition exactly the mined sats minus "
    "destroyed ones, to add up to each output's value, and find / find_range / rare-sat table are probed at every range boundary.",
    CHAIN_NOTE, "DESIGN.md sections 4 (E1) and 5 C02")
add("C17", "chain", "model_checking",
    "stateless deviation-bounded exhaustive exploration of block histories, address-index audit against the reference UTXO set",
    "Same executions as C01 with --index-addresses; on every reached state the script->outpoint multimap and get_address_info must "
    "equal the reference unspent set per script and every stored script/value must equal the creating transaction's. Run under sats+addresses+inscriptions and under "
    "addresses alone with the inscription index starting above the setup prefix (outputs created below that height must still be listed).",
    CHAIN_NOTE + " Every Index::update() runs under a watchdog: a call that does not return within 240 s ends the run with a violation.", "DESIGN.md sections 4 (E1) and 5 C17")

INSC_TECH = "stateless deviation-bounded exhaustive exploration of block histories on the real Index, sat-based reference model + whole-index audit on every reached state"
INSC_SPACE = ("Every 2-block history with <=K deviations over the inscription-suite alphabet (66 templates: reveals x envelope kinds x pointers x "
              "parent references, reinscriptions, transfers; 6 coinbase shapes) at two chain positions (cursed era, straddling the jubilee) runs on the "
              "real Index with update() after every block, in lock-step with a reference model that binds each inscription to a sat and lets the BIP sat model move it; "
              "plus 10 hand-picked 3-block histories of 5-8 deviations each at both positions under both indexing modes (update() per block / one update() for all blocks). ")
add("C03", "chain", "model_checking", INSC_TECH,
    INSC_SPACE + "Oracle: every inscription's reported satpoint equals the reference location of its sat (including the lost-sats pseudo-output), "
    "Index::find of its sat agrees, burned / lost / unbound outcomes carry the stated charms and locations.", CHAIN_NOTE, "DESIGN.md section 5 C03")
add("C04", "chain", "model_checking", INSC_TECH,
    INSC_SPACE + "Oracle: on every state each sequence number has exactly one holder, every output lists exactly the inscriptions whose satpoint is in it "
    "(offsets below its value), and the count equals the number of envelopes ord's parser finds in non-coinbase transactions.", CHAIN_NOTE, "DESIGN.md section 5 C04")
add("C05", "chain", "model_checking", INSC_TECH,
    INSC_SPACE + "Oracle: sequence numbers dense, blessed/cursed numbers dense in sequence order, ids = (reveal txid, envelope ordinal) recomputed from "
    "the block, id/number/sequence/block lookups mutually inverse, no negative number at or after the jubilee.", CHAIN_NOTE, "DESIGN.md section 5 C05")
add("C06", "chain", "model_checking", INSC_TECH,
    INSC_SPACE + "Oracle: among the inscriptions bound to one sat all but the first (by sequence number) carry the reinscription charm; a clean first "
    "inscription is neither cursed, vindicated nor a reinscription.", CHAIN_NOTE, "DESIGN.md section 5 C06")
add("C07", "chain", "model_checking", INSC_TECH,
    INSC_SPACE + "Oracle: recorded parents are older, not repeated, named by the envelope and among the inscriptions spent or revealed by the reveal "
    "transaction; the children table is the exact inverse; a visible collection's latest child is its newest child.", CHAIN_NOTE, "DESIGN.md section 5 C07")
RUNE_TECH = "stateless deviation-bounded exhaustive exploration of block histories on the real Index plus batched single-transaction products, reference model written from the runes specification"
RUNE_SPACE = ("Every history with <=K deviations over the rune-suite alphabet (65 templates: etchings x name kinds x commitment kinds x terms, cenotaphs, "
              "mints, edict / pointer transfers; 4 coinbase shapes) after a prefix preparing commit outputs with 5 and 6 confirmations runs on the real Index "
              "in lock-step with a reference model written from docs/src/runes/specification.md; plus 8 hand-picked 3-block histories of 5-8 deviations under both indexing "
              "modes (update() per block / one update() for all blocks). ")
add("C08", "chain", "model_checking", RUNE_TECH,
    RUNE_SPACE + "Oracle on every state: per rune balances + burned = premine + mints x amount; no zero balance, unknown rune, OP_RETURN or spent output in the balance table. "
    "Also evaluated on the batched allocation product and mint matrix.", CHAIN_NOTE, "DESIGN.md section 5 C08")
add("C09", "chain", "model_checking", RUNE_TECH,
    RUNE_SPACE + "Plus a batched product block of thousands of independent transactions = input balances x output layouts x edict lists x pointer. "
    "Oracle: the balance table and every burned total equal the reference allocation.", CHAIN_NOTE, "DESIGN.md section 5 C09")
add("C10", "chain", "model_checking", RUNE_TECH,
    RUNE_SPACE + "Plus a batched mint matrix: every subset of the six terms fields with values on window edges x values at the ends of the integer range (0, etch height, u64::MAX, u128::MAX) x a mint attempt before/after the etching "
    "in its block and at each following height (cenotaph mints, two attempts in one block). Oracle: mint counts equal the reference, never above the cap.",
    CHAIN_NOTE, "DESIGN.md section 5 C10")
add("C11", "chain", "model_checking", RUNE_TECH,
    RUNE_SPACE + "Oracle: the set of rune entries, their ids, names, numbers and every etched field equal the reference; name/id/etching-txid lookups are "
    "inverse; rune and reserved-rune statistics match.", CHAIN_NOTE, "DESIGN.md section 5 C11")

add("C37", "chain", "model_checking",
    "stateless deviation-bounded exhaustive exploration of block histories with an event receiver attached; event fold compared with the index after every block",
    "Every history of the inscription suite and of the rune suite (same bounds as C03/C08) is indexed with an event receiver; the emitted events are folded in "
    "order (using only the events and the spent inputs of the transactions they name) and the fold must reproduce inscription locations, ids, charms at creation, "
    "the rune set, mint counts, burned totals and output balances after every block.", CHAIN_NOTE, "DESIGN.md section 5 C37")
add("C12", "sched", "model_checking",
    "exhaustive enumeration of update-call partitions x commit intervals x reopen points x commit mode on the real Index, differential on canonical dumps",
    "For each history of a fixed family (dense histories of the three suites with fee-spent and unbound inscriptions, lost sats, duplicate txids, burned runes) "
    "the last N blocks are indexed under every composition of N into update() calls, every commit interval 1..N and 5000, every reopen subset, in production and "
    "integration-test commit mode; the content projection of the dump must equal the reference schedule's.",
    "Schedules are the partitions / commit batches / reopen points the property names; OS-thread interleavings inside update() are not explored. "
    "Trusted: the dump hook and the projection that drops timing and commit bookkeeping.", "DESIGN.md sections 4 (E2) and 5 C12")

add("C14", "reorg", "model_checking",
    "explicit-state BFS of an abstract savepoint/reorg machine plus conformance replay of every explored Update transition on the real Index",
    "The machine (node chain, committed index chain, persistent savepoints, LastSavepointHeight, unrecoverable flag) is transcribed from Index::update / Updater::update_index / "
    "Reorg::* and explored exhaustively (events Mine(n), Reorg(invalidate k, mine k+e), Update) for several (savepoint interval, max savepoints, commit interval) with block-id "
    "canonicalisation; invariants: update terminates, Ok => index chain = node chain, unrecoverable => flagged. Every explored Update transition within the conformance depth is "
    "replayed on the real Index: outcome, rollback count, height, hash per height, savepoint count, LastSavepointHeight and status flag must match the model, and a fully indexed chain "
    "must have the content of a from-scratch index.",
    "mockcore reports headers=0, so the far-from-tip branch of is_savepoint_required is only in the model. A best-chain switch always yields a strictly longer chain. "
    "Trusted: the model transcription (bound to the code by the conformance replay) and the rollback-budget knob that turns a non-terminating retry loop into a verdict.",
    "DESIGN.md sections 4 (E4) and 5 C14")
add("C15", "chain", "model_checking",
    "stateless deviation-bounded exhaustive exploration of block histories x exhaustive enumeration of index configurations, differential on the inscription/rune projection",
    "Every history of the inscription and rune suites with <=K deviations is indexed under all 8 combinations of {index-sats, index-addresses, index-transactions} plus the node-fetch "
    "configuration (first inscription height moved past the setup prefix, so spent values are fetched from the node); ids, numbers, satpoints, parents, fees, heights, non-sat-derived "
    "charms, rune entries and balances must be identical after every block; the dense multi-deviation families of both suites run under all nine configurations, block by block and "
    "with one update() for all blocks (so outputs created earlier in the uncommitted batch are spent next to node-fetched inputs).",
    CHAIN_NOTE + " The node-fetch path is reached through a guarded thread-local knob overriding Settings::first_inscription_height.", "DESIGN.md section 5 C15")
for _pid,_what,_ref in [("C25","runestone round trip over edict lists x etching fields x all 64 terms subsets; decipher of ALL integer sequences up to length 5/6 over a 23-symbol alphabet, ALL byte strings <=3 after OP_RETURN OP_13, against an independent decipher computing the first flaw in the documented order","C25"),
  ("C27","envelope build->parse round trip over all field subsets x size lattice x parents x batches; ALL byte strings <=3 and opcode-token sequences as tapscripts, witnesses of 0..4 elements, against a reference scanner; compact pointer/id encodings over boundary lattices","C27"),
  ("C28","properties inline/packed/brotli round trips over gallery x title x trait lattices, ALL byte strings <=2/3 and CBOR token sequences as decoder input, and decompression-bound cases on both sides of min(30 x compressed, 4,000,000)","C28"),
  ("C35","store->load of sat ranges (start lattice x length lattice), output entries in all 8 flag configurations through real Index instances, merged() of pseudo-output entries, rune balance lists with every truncation, rune / inscription entries over boundary lattices, outpoints, satpoints, headers","C35")]:
    add(_pid, "codec", "exploration", "bounded-exhaustive input enumeration against an independent reference / round-trip identity",
        "Complete enumeration of the stated finite input space executed against the real functions: " + _what + ".",
        "Inputs outside the stated alphabets / lattices are not covered. Trusted: the reference evaluators written in the harness and the thin pub wrappers behind feature verif.",
        "DESIGN.md section 5 " + _ref)

add("C13", "crash", "fault_enumeration",
    "exhaustive enumeration of crash images: every prefix of the storage operation log (kill) and every synced prefix (power loss), recovery on the real Index",
    "One uninterrupted run of a history with several commits per update, savepoint creation and deletion and a reorg rollback over a logging in-memory storage backend yields the "
    "operation log; for EVERY operation after the first Index::open the image is reopened with a fresh Index (redb repair runs) against the node as it was: the recovered content must "
    "equal a cleanly built index of the recovered (height, tip) and continued indexing must reach the content of the uninterrupted run.",
    "A kill leaves exactly the prefix of issued writes; reordering of un-synced writes and torn sectors are not enumerated (redb's commit protocol). Crashes during creation of the index file "
    "are outside the indexing path. Trusted: the storage seam (guarded shadowing of redb::Database in Index::open_with_event_sender) and the in-memory backend.",
    "DESIGN.md sections 4 (E3) and 5 C13")
for _pid,_what,_ref in [
  ("C29","ALL 6,930,003 heights: starting sats against running sums, and for the first/second/middle/last sat of every subsidy height every derived attribute (height, third, epoch, period, cycle, degree, decimal, rarity, common, charms) against a reference written from the documentation; rarity supply table against accumulated counts; the common() fast path on every multiple of 9,765,625 below epoch 10","C29"),
  ("C30","first, second and last sat of all 6,930,000 subsidy heights plus lattices and contiguous windows x {integer, decimal, degree, percentile, name}: parse(print(s)) == s","C30"),
  ("C31","twelve parsers x ALL strings of length <=3 (4) over a 40-character alphabet containing every syntactic character, plus grammar-directed products over boundary numerals, floats, name lengths and digit counts; a reference grammar on arbitrary-precision decimal strings decides what an accepted string denotes","C31"),
  ("C32","ALL names of length <=4 (5) and all integers below that count in both directions, boundary lattices, all spacer masks for short names and single/double bits for long names, commitments, the reserved threshold","C32"),
  ("C33","five networks x ALL heights from genesis to the end of the schedule: monotonicity, 13-letter bound, zero at the end; unlock_height probed around every step of the schedule against a scan","C33"),
  ("C34","amount lattice x ALL divisibilities 0..38 print->parse->to_integer, and decimal strings x divisibilities against exact decimal-string arithmetic","C34")]:
    add(_pid, "codec", "exploration", "bounded-exhaustive input enumeration against an independent reference / round-trip identity",
        "Complete enumeration of the stated finite input space executed against the real functions: " + _what + ".",
        "Inputs outside the stated alphabets / lattices are not covered. Trusted: the reference evaluators (decimal-string arithmetic) written in the harness.",
        "DESIGN.md section 5 " + _ref)
add("C36", "cfg", "exploration", "exhaustive enumeration of configuration-source subsets per setting crossed with every other key",
    "For each of the 27 settings every non-empty subset of the sources that can carry it (flag, ORD_ variable, config file) with pairwise distinct values, alone and crossed with every other key from every "
    "single source, goes through Options::try_parse_from + a generated YAML file + Settings::merge; all 27 fields of the result are compared with flag > env > config > default, OR for switches, union for hidden.",
    "Derived defaults (paths, cache size) are only required not to take a value supplied for another key. Trusted: clap parsing of the generated command lines.", "DESIGN.md sections 4 (E8) and 5 C36")

add("C16", "chain", "model_checking",
    "stateless deviation-bounded exhaustive exploration of block histories x enumeration of index option combinations, plus exhaustive adversarial script batches",
    "Every history with <=K deviations of the sat, inscription and rune suites is indexed under every listed combination of index options, and one adversarial batch of hundreds of thousands of "
    "independent transactions covers every tapscript of <=2 bytes, every opcode-alphabet sequence up to a length after an envelope header (annex absent/present), every OP_RETURN OP_13 script with "
    "short trailing bytes, every varint sequence up to a length over boundary integers and every short property value; plus the dense families of the three suites and the batched rune "
    "scenarios (mint terms at the ends of the integer range). Oracle: Index::update returns Ok, no panic, within the watchdog limit.",
    CHAIN_NOTE + " 'Valid' means no double spend, no value creation, coinbase within subsidy+fees; scripts and witnesses are arbitrary.", "DESIGN.md section 5 C16")

add("C20", "wallet", "exploration",
    "complete product enumeration of small wallet states x send parameters through the real TransactionBuilder, post-conditions recomputed independently",
    "All multisets of 1..3 (4) wallet outputs over a value lattice x every outgoing output and offset lattice x other inscriptions x runic/locked marks x recipient kinds x targets x fee rates (tens of millions of cases) "
    "go through TransactionBuilder::new(..).build_transaction(); the result must be an error or a transaction whose FIFO sat positions, inputs, change outputs, dust limits, target bounds and fee satisfy every clause of the property; a panic is a violation.",
    "The builder is driven directly with hand-made wallet views; values outside the lattice are not covered. One genuine defect is recorded as a known finding (KF-C20-1).", "DESIGN.md section 5 C20")

add("C19", "server", "exploration",
    "complete product enumeration of inscription content shapes x routes x Accept-Encoding x server configurations against a live in-process server",
    "A zoo chain with the full product of content-type kinds x content-encoding kinds x body kinds, every delegate shape (existing, missing, hidden, chained, self, with own body) and three inscriptions on one sat is "
    "indexed and served by the real Server::run; /content, /r/undelegated-content, /preview and /r/sat/<n>/at/<i>/content are requested with four Accept-Encoding values under four server configurations, plus ~30 other routes "
    "and error responses; body, content type, encoding handling, CSP header presence and grammar, hidden-list enforcement and cache-control are judged against the property.",
    "CSP is judged as header text against an allow-list grammar, not by a browser. Environment = mockcore + loopback HTTP. Undocumented content encodings are only required not to yield 5xx.", "DESIGN.md sections 4 (E7) and 5 C19")

add("C18", "server", "exploration",
    "complete object x route enumeration against a live in-process server, field-by-field comparison with direct Index queries",
    "A relations zoo (parents with 99 / 100 / 101 children revealed on one sat in one block, children of two parents, unbound / burned / fee-spent inscriptions, a rune with balances, three scripts) is indexed with "
    "all indexes and served by the real Server::run; for EVERY inscription, unspent output, height, inscribed sat, rune, script and transaction every JSON and recursive route is requested (by id and number, every page, sat indices "
    "-(k+1)..k) and compared with Index queries and the chain data; pagination must concatenate to the full list with correct `more` flags.",
    "Truth is the same Index the server reads plus the harness's knowledge of the chain; HTML pages are not compared. Environment = mockcore + loopback HTTP.", "DESIGN.md sections 4 (E7) and 5 C18")

WALLET_NOTE = ("Relative to mockcore's wallet emulation (largest-first funding, no signature validation) and a live in-process ord server; scenarios run in worker processes. "
               "Wallet states are built from harness-crafted transactions paying to wallet addresses; amounts outside the lattice are not covered.")
add("C21", "wallet", "exploration",
    "complete product enumeration of batch files x wallet state through the real `ord wallet batch`, commit and reveal mined, every clause read back from the index",
    "Batch files over mode {shared-output, separate-outputs, same-sat, satpoints} x entries x parents x postage x first entry {plain, metadata+metaprotocol, delegate} x etching {none, premine, terms, both} plus designated "
    "targets (satpoint / sat of a cardinal, reinscription of a wallet inscription, foreign destination) are run by the real command against a wallet holding two parent inscriptions, another inscription, a runic output and "
    "cardinals; reported ids, locations and destinations must equal what the indexer assigns after mining, parents must be back at wallet addresses, commit and reveal must spend no other inscribed or runic output, and an "
    "etching must create the named rune with terms and its premine at the reported wallet output.",
    WALLET_NOTE + " Quantifies over batches the planner accepts: refusals are counted in the evidence, not judged.", "DESIGN.md sections 4 (E6) and 5 C21")
add("C22", "wallet", "exploration",
    "complete product enumeration of wallet rune inventories x commands x amounts through the real wallet CLI, effects read back from the index",
    "Rune inventories (1-3 runic outputs over two runes, an inscribed runic output) x {send, burn} x amounts {0, 1, one output's balance, +1, total, total+1} and split files (one / two outputs, two runes, zero amount) are run with the "
    "real `ord wallet` commands; the broadcast transaction is mined and indexed, and recipients, wallet change and burned totals must match the request exactly; a zero request must be rejected.",
    WALLET_NOTE, "DESIGN.md sections 4 (E6) and 5 C22")
add("C23", "wallet", "exploration",
    "complete product enumeration of wallet output kinds x node-funded commands through the real wallet CLI, inspection of broadcast transactions and the node's lock set",
    "Every assignment of {cardinal, inscribed, runic, inscribed+runic} to wallet outputs that are larger than the single cardinal able to fund the command (the mock node funds largest-first, so a missing lock collides) x "
    "{send sats, mint, send rune, burn rune, split}; broadcast transactions must spend no inscribed output and no runic output not holding the command's rune, and every unspent non-cardinal output must be locked.",
    WALLET_NOTE + " `wallet offer create` is covered under C24's engine, not here.", "DESIGN.md sections 4 (E6) and 5 C23")

add("C24", "wallet", "exploration",
    "complete product enumeration of offer PSBT shapes through the real `wallet offer accept`, clauses checked whenever the wallet signs",
    "PSBTs built from every sequence of input kinds (wallet output with the named inscription / another inscription / inscription + runes / cardinal / runic / locked / locked with a forged witness, foreign signed / unsigned / "
    "script-sig+witness / other witness) x payment {amount-1, amount, amount+1} x named inscription are offered to the real command; whenever the wallet signs and broadcasts, exactly one wallet input holding exactly the named "
    "inscription and no runes, balance change = amount, other inputs signed and their signatures unchanged must all hold.",
    WALLET_NOTE + " The property is an only-if: rejecting a good offer is not a violation (accepted offers are counted in the evidence). Mainnet parameters with the integration-test switch.", "DESIGN.md sections 4 (E6) and 5 C24")

NOT_YET = "check not built yet in this round (see DESIGN.md build order); not claimed"

def main():
    try:
        hooks = subprocess.check_output(
            ["git", "-C", "/repo", "log", "--format=%H %s", "a57bfc1..HEAD"], text=True).strip().splitlines()
    except Exception:
        hooks = []
    hook_commits = [l.split()[0] for l in hooks if not l.split(" ", 1)[1].startswith("fix:")]
    checks = []
    for pid in PROPS:
        if pid not in CHECKS:
            continue
        c = CHECKS[pid]
        checks.append({
            "property_id": pid,
            "quick_cmd": f"./check {pid} --tier quick",
            "thorough_cmd": f"./check {pid} --tier thorough",
            "evidence_file": f"/verif/evidence/{pid}.json",
            "replay_cmd_template": f"./check {pid} --replay {{path}}",
            "engine": c["engine"],
            "level_claimed": {"category": c["level"], "text": c["text"], "design_ref": c["ref"]},
            "level_note": c["note"],
            "technique": c["technique"],
        })
    engines = {}
    for pid, c in CHECKS.items():
        engines.setdefault(c["engine"], []).append(pid)
    manifest = {
        "version": 1,
        "setup_cmd": "./setup.sh",
        "hooks": {
            "guard": "cargo feature `verif` of package ord (default off)",
            "enable": "the harness crate /verif/harness depends on ord by path with features=[\"verif\"]; "
                      "./check runs `cargo build --offline` there, which recompiles /repo's working tree",
            "baseline_off_cmd": "cd /repo && cargo nextest run --workspace --no-fail-fast --test-threads 8 --offline",
            "source_commits": hook_commits,
            "add_only": True,
        },
        "engines": [
            {"name": name, "path": f"/verif/harness/src/{name}", "serves_properties": sorted(pids),
             "kind_free_text": ENGINE_TEXT.get(name, "")}
            for name, pids in sorted(engines.items())
        ],
        "checks": checks,
        "notes": "All checks are bounded exhaustive explorations executed against the real code of /repo "
                 "(rebuilt from the working tree by ./check). See DESIGN.md.",
        "not_applicable": [
            {"property_id": pid, "reason": NOT_APPLICABLE.get(pid, NOT_YET)}
            for pid in PROPS if pid not in CHECKS
        ],
    }
    json.dump(manifest, open("/verif/MANIFEST.json", "w"), indent=1)
    print(f"claimed {len(checks)} / {len(PROPS)}")

ENGINE_TEXT = {
    "codec": "E5: complete enumeration of small input spaces of pure functions against reference evaluators",
    "chain": "E1: deviation-bounded exhaustive exploration of block histories on the real Index through a node simulator, "
             "lock-step reference model and whole-index audits",
    "sched": "E2: enumeration of update partitions x commit intervals x reopen points, differential on canonical dumps",
    "crash": "E3: every prefix of the storage operation log as a crash image, recovery and differential",
    "reorg": "E4: explicit-state exploration of the savepoint/reorg machine plus conformance replay on the real Index",
    "wallet": "E6: wallet-state enumeration",
    "server": "E7: object x route enumeration against a live in-process server",
    "cfg": "E8: configuration source enumeration",
}
NOT_APPLICABLE = {}

if __name__ == "__main__":
    main()
